(* C14 support, part 8 (clause (a2)): a waiting request that was offered a connection takes it at its next
   poll.  Relation [R4] between the tracker's offer / last-pending-poll fields and where a connection
   sits in the model (slot of a live checkout, k_conn, idle list). *)
From HD Require Import common.Base http.Model pool.Model pool.Spec pool.Frames pool.ProofsLite
  pool.BaseC14 pool.FramesC14 pool.TokC14 pool.DialC14 pool.BgC14 pool.OblC14 pool.BTrkC14.
Local Open Scope list_scope.

(* ------------------------------------------------------------------ the tracker view *)
Definition off (m : mst) (c : nat) : option nat := match nth_error (m_conns m) c with Some x => ci_offer x | None => None end.
Definition lp (m : mst) (r : nat) : nat := match nth_error (m_reqs m) r with Some y => ri_lastpend y | None => 0 end.
Definition shr (m : mst) (c : nat) : bool := match nth_error (m_conns m) c with Some x => ci_share x | None => false end.

Lemma off_ri_upd f r m c : off (ri_upd f r m) c = off m c. Proof. reflexivity. Qed.
Lemma lp_ci_upd f c m r : lp (ci_upd f c m) r = lp m r. Proof. reflexivity. Qed.
Lemma off_ci_upd f c0 m c : off (ci_upd f c0 m) c = if Nat.eqb c0 c then match nth_error (m_conns m) c with Some x => ci_offer (f x) | None => None end else off m c.
Proof.
  unfold off, ci_upd. cbn [m_conns set_m_conns]. rewrite nth_error_upd. destruct (Nat.eqb c0 c); [|reflexivity].
  destruct (nth_error (m_conns m) c); reflexivity.
Qed.
Lemma off_ci_upd_keep f c0 m c : (forall x, ci_offer (f x) = ci_offer x) -> off (ci_upd f c0 m) c = off m c.
Proof. intros H. rewrite off_ci_upd. unfold off. destruct (Nat.eqb c0 c); [|reflexivity]. destruct (nth_error (m_conns m) c); cbn; [apply H|reflexivity]. Qed.
Lemma lp_ri_upd f r0 m r : lp (ri_upd f r0 m) r = if Nat.eqb r0 r then match nth_error (m_reqs m) r with Some y => ri_lastpend (f y) | None => 0 end else lp m r.
Proof.
  unfold lp, ri_upd. cbn [m_reqs set_m_reqs]. rewrite nth_error_upd. destruct (Nat.eqb r0 r); [|reflexivity].
  destruct (nth_error (m_reqs m) r); reflexivity.
Qed.
Lemma lp_ri_upd_keep f r0 m r : (forall y, ri_lastpend (f y) = ri_lastpend y) -> lp (ri_upd f r0 m) r = lp m r.
Proof. intros H. rewrite lp_ri_upd. unfold lp. destruct (Nat.eqb r0 r); [|reflexivity]. destruct (nth_error (m_reqs m) r); [apply H|reflexivity]. Qed.

Lemma mi_track_ev m e : m_i (track_ev m e) = m_i m.
Proof. destruct e; cbn [track_ev]; try reflexivity. - destruct x as [|[]]; reflexivity. - destruct ok; reflexivity. Qed.

(* what an event does to offers and last pending polls *)
Lemma off_track_ev m e c :
  off (track_ev m e) c = match e with EHand _ c0 _ _ _ _ => if Nat.eqb c0 c then None else off m c | _ => off m c end.
Proof.
  destruct e as [r k|c0 sh r|r c0 a b d h|r|r x|r c0|c0|c0 okb]; cbn [track_ev]; rewrite ?off_ri_upd; try reflexivity.
  - unfold off. cbn [m_conns set_m_conns ri_upd set_m_reqs]. rewrite nth_error_snoc.
    destruct (Nat.ltb_spec c (List.length (m_conns m))) as [Hl|Hg]; [reflexivity|].
    assert (E : nth_error (m_conns m) c = None) by (apply nth_error_None; exact Hg). rewrite E.
    destruct (Nat.eqb c (List.length (m_conns m))); reflexivity.
  - rewrite off_ci_upd, off_ri_upd. destruct (Nat.eqb c0 c); [|reflexivity]. unfold ri_upd. cbn [m_conns set_m_reqs].
    destruct (nth_error (m_conns m) c); reflexivity.
  - destruct x as [|[]]; rewrite ?off_ri_upd; reflexivity.
  - apply off_ci_upd_keep. reflexivity.
  - apply off_ci_upd_keep. reflexivity.
  - destruct okb; [|reflexivity]. apply off_ci_upd_keep. reflexivity.
Qed.

Lemma lp_track_ev m e r :
  lp (track_ev m e) r = match e with EPend r0 => if Nat.eqb r0 r then (if Nat.ltb r (List.length (m_reqs m)) then S (m_i m) else 0) else lp m r | _ => lp m r end.
Proof.
  destruct e as [r0 k|c0 sh r0|r0 c0 a b d h|r0|r0 x|r0 c0|c0|c0 okb]; cbn [track_ev]; rewrite ?lp_ci_upd; try reflexivity.
  - apply lp_ri_upd_keep. reflexivity.
  - change (lp (ri_upd (set_ri_dial DsOver) r0 m) r = lp m r). apply lp_ri_upd_keep. reflexivity.
  - apply lp_ri_upd_keep. intros y. destruct (_ && _); reflexivity.
  - rewrite lp_ri_upd. destruct (Nat.eqb r0 r); [|reflexivity].
    destruct (nth_error (m_reqs m) r) eqn:E.
    + apply nth_error_lt in E. destruct (Nat.ltb_spec r (List.length (m_reqs m))); [reflexivity|lia].
    + apply nth_error_None in E. destruct (Nat.ltb_spec r (List.length (m_reqs m))); [lia|reflexivity].
  - destruct x as [|[]]; rewrite ?lp_ri_upd_keep; try reflexivity; apply lp_ri_upd_keep; reflexivity.
  - destruct okb; reflexivity.
Qed.

Lemma shr_track_ev m e c : shr m c = true -> shr (track_ev m e) c = true.
Proof.
  unfold shr. destruct e as [r k|c0 sh r|r c0 a b d h|r|r x|r c0|c0|c0 okb]; cbn [track_ev]; try (intros H; exact H).
  - cbn [m_conns set_m_conns ri_upd set_m_reqs]. destruct (nth_error (m_conns m) c) eqn:E; [|discriminate].
    rewrite (nth_error_app1 _ _ (nth_error_lt _ _ _ E)), E. auto.
  - unfold ci_upd, ri_upd. cbn [m_conns set_m_conns set_m_reqs]. rewrite nth_error_upd. destruct (Nat.eqb c0 c); [|auto].
    destruct (nth_error (m_conns m) c); cbn; auto.
  - destruct x as [|[]]; auto.
  - unfold ci_upd. cbn [m_conns set_m_conns]. rewrite nth_error_upd. destruct (Nat.eqb c0 c); [|auto]. destruct (nth_error (m_conns m) c); cbn; auto.
  - unfold ci_upd. cbn [m_conns set_m_conns]. rewrite nth_error_upd. destruct (Nat.eqb c0 c); [|auto]. destruct (nth_error (m_conns m) c); cbn; auto.
  - destruct okb; [|auto]. unfold ci_upd. cbn [m_conns set_m_conns]. rewrite nth_error_upd. destruct (Nat.eqb c0 c); [|auto]. destruct (nth_error (m_conns m) c); cbn; auto.
Qed.
(* ... and conversely an existing connection keeps its flag; a new one starts without an offer *)
Lemma shr_track_ev_inv m e c : shr (track_ev m e) c = true -> shr m c = true \/ off (track_ev m e) c = None.
Proof.
  destruct e as [r k|c0 sh r|r c0 a b d h|r|r x|r c0|c0|c0 okb]; try (left; revert H; fail).
  all: intros H.
  2: { unfold shr, off in *. cbn [track_ev m_conns set_m_conns ri_upd set_m_reqs] in *. rewrite nth_error_snoc in *.
       destruct (Nat.ltb_spec c (List.length (m_conns m))); [left; exact H|right]. destruct (Nat.eqb c (List.length (m_conns m))); reflexivity. }
  all: left; unfold shr in *; cbn [track_ev] in H.
  - exact H.
  - unfold ci_upd, ri_upd in H. cbn [m_conns set_m_conns set_m_reqs] in H. rewrite nth_error_upd in H. destruct (Nat.eqb c0 c); [|exact H].
    destruct (nth_error (m_conns m) c); cbn in *; auto.
  - exact H.
  - destruct x as [|[]]; exact H.
  - unfold ci_upd in H. cbn [m_conns set_m_conns] in H. rewrite nth_error_upd in H. destruct (Nat.eqb c0 c); [|exact H]. destruct (nth_error (m_conns m) c); cbn in *; auto.
  - unfold ci_upd in H. cbn [m_conns set_m_conns] in H. rewrite nth_error_upd in H. destruct (Nat.eqb c0 c); [|exact H]. destruct (nth_error (m_conns m) c); cbn in *; auto.
  - destruct okb; [|exact H]. unfold ci_upd in H. cbn [m_conns set_m_conns] in H. rewrite nth_error_upd in H. destruct (Nat.eqb c0 c); [|exact H]. destruct (nth_error (m_conns m) c); cbn in *; auto.
Qed.

(* ------------------------------------------------------------------ the relation *)
Definition rdy (s : state) (c : nat) : Prop := In (ERdy c true) (out s).
Definition livesl (ck : checkout) (c : nat) : Prop := k_waiter ck <> WNoPool /\ exists t, k_slot ck = Some (c, t).

Record R4 (nr : bool) (m : mst) (s : state) : Prop := mkR4 {
  r4_ti : forall r, lp m r <= S (m_i m);
  r4_j1 : forall r ck c, get_req s r = Some (RCheckout ck) -> livesl ck c -> ~ rdy s c -> forall i0, off m c = Some i0 -> lp m r <= S i0;
  r4_j2 : forall r ck c, get_req s r = Some (RCheckout ck) -> k_conn ck = Some c -> ~ rdy s c -> off m c = None;
  r4_j3 : forall t c, In c (idl s t) -> ~ rdy s c -> off m c = None;
  r4_kc : forall c, rdy s c -> share_of s c = false -> forall r ck, get_req s r = Some (RCheckout ck) -> k_conn ck <> Some c;
  r4_sh : forall c, shr m c = true -> off m c = None;
  r4_nr : nr = true -> forall c b, ~ In (ERdy c b) (out s)
}.

Definition harmless (e : ev) : Prop := match e with EHand _ _ _ _ _ _ | EPend _ | ERdy _ _ => False | _ => True end.

Lemma R4_harmless nr m e s : harmless e -> R4 nr m s -> R4 nr (track_ev m e) (emit e s).
Proof.
  intros He [A1 A2 A3 A4 A5 A6 A7].
  assert (Ho : forall c, off (track_ev m e) c = off m c) by (intros c; rewrite off_track_ev; destruct e; try reflexivity; contradiction).
  assert (Hl : forall r, lp (track_ev m e) r = lp m r) by (intros r; rewrite lp_track_ev; destruct e; try reflexivity; contradiction).
  assert (Hr : forall c, rdy (emit e s) c <-> rdy s c).
  { intros c. unfold rdy. cbn. split; [intros [E|H]; [subst e; contradiction|exact H]|intros H; right; exact H]. }
  constructor.
  - intros r. rewrite Hl, mi_track_ev. apply A1.
  - intros r ck c Hq Hs Hn i0. rewrite Ho, Hl. apply (A2 r ck c Hq Hs). intros H. apply Hn, Hr, H.
  - intros r ck c Hq Hc Hn. rewrite Ho. apply (A3 r ck c Hq Hc). intros H. apply Hn, Hr, H.
  - intros t c Hi Hn. rewrite Ho. apply (A4 t c Hi). intros H. apply Hn, Hr, H.
  - intros c Hc. apply A5. apply Hr. exact Hc.
  - intros c Hs. destruct (shr_track_ev_inv m e c Hs) as [H|H]; [rewrite Ho; apply A6; exact H|exact H].
  - intros Hn c b [E|H]; [subst e; contradiction|apply (A7 Hn c b H)].
Qed.

Lemma rdy_emit_other e s c : (forall c0, e <> ERdy c0 true) -> (rdy (emit e s) c <-> rdy s c).
Proof. intros He. unfold rdy. cbn. split; [intros [E|H]; [exfalso; eapply He; eauto|exact H]|intros H; right; exact H]. Qed.

Lemma R4_hand nr m r c a b d h s : R4 nr m s -> R4 nr (track_ev m (EHand r c a b d h)) (emit (EHand r c a b d h) s).
Proof.
  intros [A1 A2 A3 A4 A5 A6 A7].
  assert (Hl : forall r0, lp (track_ev m (EHand r c a b d h)) r0 = lp m r0) by (intros r0; rewrite lp_track_ev; reflexivity).
  assert (Hr : forall c0, rdy (emit (EHand r c a b d h) s) c0 <-> rdy s c0) by (intros c0; apply rdy_emit_other; discriminate).
  assert (Ho : forall c0, off (track_ev m (EHand r c a b d h)) c0 = None \/ off (track_ev m (EHand r c a b d h)) c0 = off m c0)
    by (intros c0; rewrite off_track_ev; destruct (Nat.eqb c c0); auto).
  constructor.
  - intros r0. rewrite Hl, mi_track_ev. apply A1.
  - intros r0 ck c0 Hq Hs Hn i0 Hoff. rewrite Hl. destruct (Ho c0) as [E|E]; rewrite E in Hoff; [discriminate|].
    apply (A2 r0 ck c0 Hq Hs); [intros H; apply Hn, Hr, H|exact Hoff].
  - intros r0 ck c0 Hq Hc Hn. destruct (Ho c0) as [E|E]; rewrite E; [reflexivity|]. apply (A3 r0 ck c0 Hq Hc). intros H. apply Hn, Hr, H.
  - intros t c0 Hi Hn. destruct (Ho c0) as [E|E]; rewrite E; [reflexivity|]. apply (A4 t c0 Hi). intros H. apply Hn, Hr, H.
  - intros c0 Hc. apply A5. apply Hr. exact Hc.
  - intros c0 Hs. destruct (Ho c0) as [E|E]; rewrite E; [reflexivity|]. apply A6.
    destruct (shr_track_ev_inv m (EHand r c a b d h) c0 Hs) as [H|H]; [exact H|]. rewrite E in H. 
    unfold shr in *. cbn [track_ev] in Hs. unfold ci_upd, ri_upd in Hs. cbn [m_conns set_m_conns set_m_reqs] in Hs. rewrite nth_error_upd in Hs.
    destruct (Nat.eqb c c0); [|exact Hs]. destruct (nth_error (m_conns m) c0); cbn in *; auto.
  - intros Hn c0 b0 [E|H]; [discriminate|apply (A7 Hn c0 b0 H)].
Qed.

(* a pending poll: the request has no live slot *)
Lemma R4_pend nr m r s : R4 nr m s ->
  (forall ck c, get_req s r = Some (RCheckout ck) -> livesl ck c -> False) ->
  R4 nr (track_ev m (EPend r)) (emit (EPend r) s).
Proof.
  intros [A1 A2 A3 A4 A5 A6 A7] Hno.
  assert (Ho : forall c, off (track_ev m (EPend r)) c = off m c) by (intros c; rewrite off_track_ev; reflexivity).
  assert (Hr : forall c0, rdy (emit (EPend r) s) c0 <-> rdy s c0) by (intros c0; apply rdy_emit_other; discriminate).
  assert (Hl : forall r0, r0 <> r -> lp (track_ev m (EPend r)) r0 = lp m r0).
  { intros r0 Hne. rewrite lp_track_ev. destruct (Nat.eqb_spec r r0); [congruence|reflexivity]. }
  assert (Hlr : lp (track_ev m (EPend r)) r <= S (m_i m)).
  { rewrite lp_track_ev, Nat.eqb_refl. destruct (r <? List.length (m_reqs m)); lia. }
  constructor.
  - intros r0. rewrite mi_track_ev. destruct (Nat.eq_dec r0 r) as [->|Hne]; [exact Hlr|rewrite Hl by exact Hne; apply A1].
  - intros r0 ck c Hq Hs Hn i0. rewrite Ho. destruct (Nat.eq_dec r0 r) as [->|Hne]; [exfalso; eapply Hno; eauto|].
    rewrite Hl by exact Hne. apply (A2 r0 ck c Hq Hs). intros H. apply Hn, Hr, H.
  - intros r0 ck c Hq Hc Hn. rewrite Ho. apply (A3 r0 ck c Hq Hc). intros H. apply Hn, Hr, H.
  - intros t c Hi Hn. rewrite Ho. apply (A4 t c Hi). intros H. apply Hn, Hr, H.
  - intros c Hc. apply A5. apply Hr. exact Hc.
  - intros c Hs. rewrite Ho. apply A6. exact Hs.
  - intros Hn c b [E|H]; [discriminate|apply (A7 Hn c b H)].
Qed.

(* a readiness report: from now on the connection is exempt until the end of the operation *)
Lemma R4_rdy m c b s : R4 false m s ->
  (b = true -> share_of s c = false -> forall r ck, get_req s r = Some (RCheckout ck) -> k_conn ck <> Some c) ->
  R4 false (track_ev m (ERdy c b)) (emit (ERdy c b) s).
Proof.
  intros [A1 A2 A3 A4 A5 A6 A7] Hk.
  assert (Ho : forall c0, off (track_ev m (ERdy c b)) c0 = off m c0) by (intros c0; rewrite off_track_ev; reflexivity).
  assert (Hl : forall r, lp (track_ev m (ERdy c b)) r = lp m r) by (intros r; rewrite lp_track_ev; reflexivity).
  assert (Hr : forall c0, rdy s c0 -> rdy (emit (ERdy c b) s) c0) by (intros c0 H; right; exact H).
  constructor.
  - intros r. rewrite Hl, mi_track_ev. apply A1.
  - intros r ck c0 Hq Hs Hn i0. rewrite Ho, Hl. apply (A2 r ck c0 Hq Hs). intros H. apply Hn, Hr, H.
  - intros r ck c0 Hq Hc Hn. rewrite Ho. apply (A3 r ck c0 Hq Hc). intros H. apply Hn, Hr, H.
  - intros t c0 Hi Hn. rewrite Ho. apply (A4 t c0 Hi). intros H. apply Hn, Hr, H.
  - intros c0 [E|H] Hs; [inversion E; subst; apply Hk; auto|apply A5; assumption].
  - intros c0 Hs. rewrite Ho. apply A6. unfold shr in *. cbn [track_ev] in Hs. destruct b; [|exact Hs].
    unfold ci_upd in Hs. cbn [m_conns set_m_conns] in Hs. rewrite nth_error_upd in Hs. destruct (Nat.eqb c c0); [|exact Hs].
    destruct (nth_error (m_conns m) c0); cbn in *; auto.
  - discriminate.
Qed.

(* ------------------------------------------------------------------ the model moves: nothing is added *)
Record hf (s s' : state) : Prop := mkHf {
  h_req : forall r ck', get_req s' r = Some (RCheckout ck') ->
          exists ck, get_req s r = Some (RCheckout ck) /\ (forall c, livesl ck' c -> livesl ck c) /\ (forall c, k_conn ck' = Some c -> k_conn ck = Some c);
  h_idl : forall t c, In c (idl s' t) -> In c (idl s t);
  h_sh : forall c, share_of s' c = false -> share_of s c = false;
  h_out : exists es, out s' = es ++ out s /\ Forall harmless es
}.
Lemma hf_refl s : hf s s.
Proof.
  constructor.
  - intros r ck H. exists ck. auto.
  - auto.
  - auto.
  - exists []. split; [reflexivity|constructor].
Qed.
Lemma hf_trans a b c : hf a b -> hf b c -> hf a c.
Proof.
  intros [A1 A2 A3 (e1 & O1 & F1)] [B1 B2 B3 (e2 & O2 & F2)]. constructor.
  3: auto. 2: auto.
  - intros r ck'' H. destruct (B1 r ck'' H) as (ck' & H' & S1 & C1). destruct (A1 r ck' H') as (ck & H0 & S0 & C0). exists ck. auto.
  - exists (e2 ++ e1). split; [rewrite O2, O1, app_assoc; reflexivity|apply Forall_app; auto].
Qed.
Lemma hf_same s s' : reqs s' = reqs s -> toks s' = toks s -> (forall c, share_of s' c = false -> share_of s c = false) ->
  (exists es, out s' = es ++ out s /\ Forall harmless es) -> hf s s'.
Proof.
  intros E1 E2 E3 E4. constructor.
  - intros r ck H. exists ck. unfold get_req in *. rewrite <- E1. auto.
  - intros t c. unfold idl. rewrite (get_tok_frame s s' t E2). auto.
  - exact E3.
  - exact E4.
Qed.
Lemma harmless_nil s s' : out s' = out s -> exists es, out s' = es ++ out s /\ Forall harmless es.
Proof. intros E. exists []. split; [exact E|constructor]. Qed.

Lemma R4_ext nr m s s' : reqs s' = reqs s -> toks s' = toks s -> (forall c, share_of s' c = share_of s c) -> out s' = out s ->
  R4 nr m s -> R4 nr m s'.
Proof.
  intros E1 E2 E3 E4 [A1 A2 A3 A4 A5 A6 A7]. unfold rdy, get_req, idl in *.
  assert (G : forall t, get_tok s' t = get_tok s t) by (intros t; apply get_tok_frame; exact E2).
  constructor; unfold rdy, get_req, idl; intros; rewrite ?E1, ?E4, ?G, ?E3 in *; eauto.
Qed.

Lemma R4_model nr m s s' : out s' = out s ->
  (forall r ck', get_req s' r = Some (RCheckout ck') ->
     exists ck, get_req s r = Some (RCheckout ck) /\ (forall c, livesl ck' c -> livesl ck c) /\ (forall c, k_conn ck' = Some c -> k_conn ck = Some c)) ->
  (forall t c, In c (idl s' t) -> In c (idl s t)) -> (forall c, share_of s' c = false -> share_of s c = false) ->
  R4 nr m s -> R4 nr m s'.
Proof.
  intros Ho Hq Hi Hs [A1 A2 A3 A4 A5 A6 A7]. unfold rdy in *. constructor; unfold rdy; rewrite ?Ho; auto.
  - intros r ck' c H Hl Hn i0 Hoff. destruct (Hq r ck' H) as (ck & H0 & S0 & C0). eapply A2; eauto.
  - intros r ck' c H Hc Hn. destruct (Hq r ck' H) as (ck & H0 & S0 & C0). eapply A3; eauto.
  - intros t c H Hn. eapply A4; eauto.
  - intros c Hr Hsh r ck' H Hc. destruct (Hq r ck' H) as (ck & H0 & S0 & C0). eapply (A5 c Hr (Hs c Hsh) r ck H0). auto.
Qed.

(* ------------------------------------------------------------------ the log check and [G4] *)
Definition G4 (nr : bool) (m0 : mst) (s : state) : Prop :=
  evs_ok cA2 m0 (rev (out s)) = true /\ R4 nr (cur m0 s) s.

Lemma cA2_harmless m e : harmless e -> cA2 m e = true.
Proof. destruct e; cbn; auto; contradiction. Qed.
Lemma evs_ok_harmless es : forall m, Forall harmless es -> evs_ok cA2 m es = true.
Proof.
  induction es as [|e es IH]; intros m HF; cbn [evs_ok]; [reflexivity|]. inversion HF; subst.
  rewrite cA2_harmless by assumption. apply IH. assumption.
Qed.

Lemma R4_fold_harmless nr s1 : forall es m, Forall harmless es -> R4 nr m s1 ->
  R4 nr (fold_left track_ev (rev es) m) (set_out (es ++ out s1) s1).
Proof.
  induction es as [|e es IH]; intros m HF H.
  - cbn. eapply R4_ext; [| | | |exact H]; reflexivity.
  - inversion HF as [|? ? Ha Hb]; subst. cbn [rev]. rewrite fold_left_app. cbn [fold_left].
    pose proof (R4_harmless nr _ e _ Ha (IH m Hb H)) as H'.
    eapply R4_ext; [| | | |exact H']; reflexivity.
Qed.

Lemma G4_hf nr m0 s s' : G4 nr m0 s -> hf s s' -> G4 nr m0 s'.
Proof.
  intros [He HR] [Hq Hi Hs (es & Ho & HF)]. split.
  - rewrite Ho, rev_app_distr, evs_ok_app, He. cbn [andb]. apply evs_ok_harmless. apply Forall_rev. exact HF.
  - assert (H1 : R4 nr (cur m0 s) (set_out (out s) s')) by (apply (R4_model nr _ s); auto).
    pose proof (R4_fold_harmless nr (set_out (out s) s') es (cur m0 s) HF H1) as H2.
    unfold cur at 1. rewrite Ho, rev_app_distr, fold_left_app. fold (cur m0 s).
    eapply R4_ext; [| | | |exact H2]; try reflexivity. cbn. exact Ho.
Qed.

(* ------------------------------------------------------------------ primitives that add nothing *)
Ltac hsame := apply hf_same; try reflexivity; [intros c H; exact H|apply harmless_nil; reflexivity].
Lemma hf_emit e s : harmless e -> hf s (emit e s).
Proof. intros He. apply hf_same; try reflexivity; [intros c H; exact H|]. exists [e]. split; [reflexivity|constructor; [exact He|constructor]]. Qed.
Lemma share_of_upd_conn c f s c' : (forall cn, c_share (f cn) = c_share cn) -> share_of (upd_conn c f s) c' = share_of s c'.
Proof.
  intros Hf. unfold share_of, get_conn, upd_conn. cbn [conns set_conns]. rewrite nth_error_upd. destruct (Nat.eqb c c'); [|reflexivity].
  destruct (nth_error (conns s) c'); cbn; [apply Hf|reflexivity].
Qed.
Lemma hf_upd_conn c f s : (forall cn, c_share (f cn) = c_share cn) -> hf s (upd_conn c f s).
Proof.
  intros Hf. apply hf_same; try reflexivity; [|apply harmless_nil; reflexivity].
  intros c' H. rewrite share_of_upd_conn in H by exact Hf. exact H.
Qed.
Lemma hf_upd_dial r f s : hf s (upd_dial r f s). Proof. hsame. Qed.
Lemma hf_wake_req r s : hf s (wake_req r s). Proof. hsame. Qed.
Lemma hf_unwake_req r s : hf s (unwake_req r s). Proof. hsame. Qed.
Lemma hf_spawn t s : hf s (spawn t s). Proof. hsame. Qed.
Lemma hf_finish_task t s : hf s (finish_task t s). Proof. hsame. Qed.
Lemma hf_set_runq v s : hf s (set_runq v s). Proof. hsame. Qed.
Lemma hf_wake_task t s : hf s (wake_task t s).
Proof. unfold wake_task. destruct (existsb _ _); [apply hf_refl|apply hf_set_runq]. Qed.
Lemma hf_wake_tasks l : forall s, hf s (wake_tasks l s).
Proof. induction l as [|t l IH]; intros s; cbn [wake_tasks]; [apply hf_refl|]. eapply hf_trans; [apply hf_wake_task|apply IH]. Qed.
Lemma hf_wake_poller p r s : hf s (wake_poller p r s).
Proof. destruct p as [[|tid]|]; cbn [wake_poller]; [apply hf_wake_req|apply hf_wake_task|apply hf_refl]. Qed.
Lemma hf_clone_conn c s : hf s (clone_conn c s).
Proof. apply hf_upd_conn. reflexivity. Qed.
Lemma hf_drop_conn c s : hf s (drop_conn c s).
Proof.
  unfold drop_conn. destruct (get_conn s c) as [cn|]; [|apply hf_refl].
  destruct (Nat.eqb _ _).
  - eapply hf_trans; [apply (hf_upd_conn c (c_set_refs (pred (c_refs cn)))); reflexivity|apply hf_emit; exact I].
  - apply (hf_upd_conn c (c_set_refs (pred (c_refs cn)))). reflexivity.
Qed.
Lemma hf_drop_all l : forall s, hf s (drop_all l s).
Proof. induction l as [|[c a] l IH]; intros s; cbn [drop_all]; [apply hf_refl|]. eapply hf_trans; [apply hf_drop_conn|apply IH]. Qed.
Lemma hf_pooled_drop p s : hf s (pooled_drop p s).
Proof. destruct p as [c t]. unfold pooled_drop. destruct (share_of s c); [apply hf_drop_conn|apply hf_spawn]. Qed.

Lemma hf_set_req r v s :
  (forall ck', v = RCheckout ck' -> exists ck, get_req s r = Some (RCheckout ck) /\ (forall c, livesl ck' c -> livesl ck c)
                                              /\ (forall c, k_conn ck' = Some c -> k_conn ck = Some c)) ->
  hf s (set_req r v s).
Proof.
  intros Hv. constructor.
  - intros r' ck'. rewrite get_req_set_req. destruct (Nat.eqb_spec r r') as [<-|]; [|intros H; exists ck'; auto].
    destruct (get_req s r) as [q|] eqn:E; [|discriminate]. cbn. intros H. inversion H. apply Hv. assumption.
  - intros t c H. exact H.
  - intros c H. exact H.
  - apply harmless_nil. reflexivity.
Qed.
Lemma hf_set_req_nock r v s : (forall ck, v <> RCheckout ck) -> hf s (set_req r v s).
Proof. intros Hv. apply hf_set_req. intros ck' E. exfalso. eapply Hv; eauto. Qed.

Lemma hf_upd_tok t f s : (forall c, In c (map fst (p_idle (f (get_tok s t)))) -> In c (map fst (p_idle (get_tok s t)))) -> hf s (upd_tok t f s).
Proof.
  intros Hf. constructor.
  - intros r ck H. exists ck. destruct t; auto.
  - intros t' c. unfold idl. destruct (get_tok_upd_cases t f s t') as [->|[-> ->]]; auto.
  - intros c H. rewrite share_of_upd_tok in H. exact H.
  - apply harmless_nil. destruct t; reflexivity.
Qed.

Lemma hf_drop_sender w s : hf s (drop_sender w s).
Proof.
  unfold drop_sender. destruct (get_req s w) as [[|ck| | |]|] eqn:E; try apply hf_refl.
  assert (H : hf s (set_req w (RCheckout (k_set_txdropped true ck)) s)).
  { apply hf_set_req. intros ck' Ec. inversion Ec; subst ck'. exists ck. split; [exact E|]. split; intros c H; exact H. }
  destruct (k_waiter ck); try apply hf_refl;
    (destruct (k_rxpolled ck); [eapply hf_trans; [exact H|apply hf_wake_req]|exact H]).
Qed.
Lemma hf_release_pending ws : forall s, hf s (snd (release_pending ws s)).
Proof.
  induction ws as [|[w b] ws IH]; intros s; cbn [release_pending]; [apply hf_refl|].
  destruct b.
  - eapply hf_trans; [apply hf_drop_sender|apply IH].
  - specialize (IH s). destruct (release_pending ws s). exact IH.
Qed.
Lemma hf_pool_cancel t rid s : hf s (pool_cancel t rid s).
Proof.
  unfold pool_cancel. destruct (p_marker (get_tok s t)) as [o|]; [|apply hf_refl]. destruct (Nat.eqb o rid); [|apply hf_refl].
  pose proof (hf_release_pending (p_waiting (get_tok (upd_tok t (set_marker None) s) t)) (upd_tok t (set_marker None) s)) as H.
  destruct (release_pending _ _) as [rest s2]. cbn [snd] in H.
  apply (hf_trans s (upd_tok t (set_marker None) s)); [apply hf_upd_tok; intros c Hc; exact Hc|].
  apply (hf_trans _ s2); [exact H|apply hf_upd_tok; intros c Hc; exact Hc].
Qed.

Lemma hf_pop_loop thr rl : forall s, hf s (snd (pop_loop thr rl s)).
Proof.
  induction rl as [|[c a] rl IH]; intros s; cbn [pop_loop]; [apply hf_refl|].
  destruct (match thr with Some y => (a <? y)%N | None => false end); cbn [snd].
  - eapply hf_trans; [apply hf_drop_conn|apply hf_drop_all].
  - destruct (is_open s c); cbn [snd]; [apply hf_refl|]. eapply hf_trans; [apply hf_drop_conn|apply IH].
Qed.
Lemma pop_loop_sub thr rl : forall s, (forall x, In x (snd (fst (pop_loop thr rl s))) -> In x rl)
  /\ (forall c, fst (fst (pop_loop thr rl s)) = Some c -> exists a, In (c, a) rl).
Proof.
  induction rl as [|[c a] rl IH]; intros s; cbn [pop_loop]; [split; [intros x []|discriminate]|].
  destruct (match thr with Some y => (a <? y)%N | None => false end); cbn [fst snd]; [split; [intros x []|discriminate]|].
  destruct (is_open s c); cbn [fst snd].
  - split; [intros x H; right; exact H|intros c0 E; inversion E; subst; exists a; left; reflexivity].
  - destruct (IH (drop_conn c s)) as [A B]. split; [intros x H; right; apply A, H|intros c0 E; destruct (B c0 E) as [a0 Ha]; exists a0; right; exact Ha].
Qed.
Lemma hf_pool_pop to t s : hf s (snd (pool_pop to t s)) /\ (forall c, fst (pool_pop to t s) = Some c -> In c (idl s t)).
Proof.
  unfold pool_pop.
  pose proof (hf_pop_loop (expiry_threshold to (now s)) (rev (p_idle (get_tok s t))) s) as H.
  destruct (pop_loop_sub (expiry_threshold to (now s)) (rev (p_idle (get_tok s t))) s) as [S1 S2].
  pose proof (toks_pop_loop (expiry_threshold to (now s)) (rev (p_idle (get_tok s t))) s) as T.
  destruct (pop_loop _ _ _) as [[r rest] s1]. cbn [fst snd] in *. split.
  - eapply hf_trans; [exact H|]. apply hf_upd_tok. cbn [set_idle p_idle]. intros c Hc.
    rewrite (get_tok_frame s s1 t T). apply in_map_iff in Hc. destruct Hc as ([c0 a0] & E & Hin). cbn in E. subst c0.
    apply in_map_iff. exists (c, a0). split; [reflexivity|]. apply in_rev. apply S1. apply in_rev in Hin. exact Hin.
  - intros c E. destruct (S2 c E) as [a Ha]. unfold idl. apply in_map_iff. exists (c, a). split; [reflexivity|apply in_rev; exact Ha].
Qed.
Lemma hf_key_insert k s : hf s (snd (key_insert k s)).
Proof.
  unfold key_insert. destruct (find_key k (keys s) 1); cbn [snd]; [apply hf_refl|]. constructor.
  - intros r ck H. exists ck. auto.
  - intros t c. unfold idl. destruct t as [|i]; [auto|]. cbn [get_tok toks set_toks set_keys].
    destruct (Nat.lt_ge_cases i (List.length (toks s))) as [Hl|Hg]; [rewrite app_nth1 by exact Hl; auto|].
    rewrite app_nth2 by exact Hg. destruct (i - List.length (toks s)) as [|[|j]]; cbn; intros [].
  - intros c H. exact H.
  - apply harmless_nil. reflexivity.
Qed.
Lemma hf_rx_drop ck s : hf s (snd (rx_drop ck s)).
Proof. unfold rx_drop. destruct (k_waiter ck), (k_slot ck); cbn [snd]; try apply hf_refl; apply hf_pooled_drop. Qed.
Lemma hf_connector_poll rid b s : hf s (snd (connector_poll rid b s)).
Proof.
  unfold connector_poll. destruct (get_dial s rid) as [d|]; [|apply hf_refl].
  destruct (d_stage d) as [| |[a| |]|]; cbn [snd]; try apply hf_refl; try apply hf_upd_dial.
  - apply (hf_trans s (emit (EDial rid (d_key d)) s)); [apply hf_emit; exact I|apply hf_upd_dial].
  - match goal with |- hf s (upd_dial rid ?f (emit ?e ?s1)) =>
      apply (hf_trans s (emit e s1)); [apply (hf_trans s s1); [|apply hf_emit; exact I]|apply hf_upd_dial] end.
    apply hf_same; try reflexivity; [|apply harmless_nil; reflexivity].
    intros c H. unfold share_of, get_conn in *. cbn [conns set_conns] in H.
    destruct (nth_error (conns s) c) as [cn|] eqn:E; [|reflexivity]. rewrite (nth_error_app1 _ _ (nth_error_lt _ _ _ E)), E in H. exact H.
Qed.

(* ------------------------------------------------------------------ primitives that add a slot / an idle entry *)
Definition noff (m0 : mst) (s : state) (c : nat) : Prop := ~ rdy s c -> off (cur m0 s) c = None.

Lemma G4_same nr m0 s s' : G4 nr m0 s -> out s' = out s -> R4 nr (cur m0 s) s' -> G4 nr m0 s'.
Proof. intros [H1 H2] Ho HR. split; [rewrite Ho; exact H1|rewrite (cur_out m0 s s' Ho); exact HR]. Qed.

Lemma R4_set_slot nr m s w ck p : R4 nr m s -> get_req s w = Some (RCheckout ck) -> (~ rdy s (fst p) -> off m (fst p) = None) ->
  R4 nr m (set_req w (RCheckout (k_set_slot (Some p) ck)) s).
Proof.
  intros [A1 A2 A3 A4 A5 A6 A7] Hw Hc. constructor; auto.
  - intros r ck' c. rewrite get_req_set_req. destruct (Nat.eqb_spec w r) as [<-|Hne]; [|apply A2].
    rewrite Hw. cbn. intros E. inversion E; subst ck'. intros (_ & t & Hs) Hn i0 Ho. cbn in Hs. inversion Hs; subst p. cbn in Hc.
    rewrite (Hc Hn) in Ho. discriminate.
  - intros r ck' c. rewrite get_req_set_req. destruct (Nat.eqb_spec w r) as [<-|Hne]; [|apply A3].
    rewrite Hw. cbn. intros E. inversion E; subst ck'. cbn. apply (A3 w ck c Hw).
  - intros c Hr Hs r ck'. rewrite get_req_set_req. destruct (Nat.eqb_spec w r) as [<-|Hne]; [|apply (A5 c Hr Hs)].
    rewrite Hw. cbn. intros E. inversion E; subst ck'. cbn. apply (A5 c Hr Hs w ck Hw).
Qed.

Lemma G4_deliver nr m0 w p s : G4 nr m0 s -> noff m0 s (fst p) -> G4 nr m0 (deliver w p s).
Proof.
  intros H Hc. unfold deliver. destruct (get_req s w) as [[|ck| | |]|] eqn:E; try exact H.
  assert (H1 : G4 nr m0 (set_req w (RCheckout (k_set_slot (Some p) ck)) s)).
  { eapply G4_same; [exact H|reflexivity|]. apply R4_set_slot; [apply H|exact E|exact Hc]. }
  destruct (k_rxpolled ck); [eapply G4_hf; [exact H1|apply hf_wake_req]|exact H1].
Qed.

Lemma noff_hf m0 s s' c : hf s s' -> noff m0 s c -> noff m0 s' c.
Proof.
  intros [_ _ _ (es & Ho & HF)] Hc Hn. unfold noff, rdy, cur in *. rewrite Ho in *. rewrite rev_app_distr, fold_left_app.
  assert (Hn' : ~ In (ERdy c true) (out s)) by (intros Hi; apply Hn; apply in_or_app; right; exact Hi).
  specialize (Hc Hn'). revert Hc. generalize (fold_left track_ev (rev (out s)) m0). 
  assert (HF' : Forall harmless (rev es)) by (apply Forall_rev; exact HF). revert HF'. generalize (rev es).
  induction l as [|e l IH]; intros HF' m Hm; cbn [fold_left]; [exact Hm|]. inversion HF' as [|? ? Ha Hb]; subst. apply IH; [exact Hb|].
  rewrite off_track_ev. destruct e; try exact Hm; contradiction.
Qed.
Lemma noff_same m0 s s' c : out s' = out s -> noff m0 s c -> noff m0 s' c.
Proof. intros Ho. unfold noff, rdy. rewrite (cur_out m0 s s' Ho), Ho. auto. Qed.

Lemma G4_walk nr m0 t c sh ws : forall s, G4 nr m0 s -> noff m0 s c -> G4 nr m0 (snd (walk_waiters t c sh ws s)).
Proof.
  induction ws as [|[w b] ws IH]; intros s H Hc; cbn [walk_waiters]; [exact H|].
  destruct (rx_live s w); [destruct sh|].
  - apply IH.
    + apply G4_deliver; [eapply G4_hf; [exact H|apply hf_clone_conn]|]. eapply noff_hf; [apply hf_clone_conn|exact Hc].
    + eapply noff_same; [|eapply noff_hf; [apply hf_clone_conn|exact Hc]]. unfold deliver. destruct (get_req _ w) as [[|ck| | |]|]; try reflexivity.
      destruct (k_rxpolled ck); reflexivity.
  - cbn [snd]. apply G4_deliver; assumption.
  - apply IH; assumption.
Qed.
Lemma walk_out t c sh ws : forall s, out (snd (walk_waiters t c sh ws s)) = out s.
Proof.
  induction ws as [|[w b] ws IH]; intros s; cbn [walk_waiters]; [reflexivity|].
  assert (Hd : forall p s0, out (deliver w p s0) = out s0).
  { intros p s0. unfold deliver. destruct (get_req s0 w) as [[|ck| | |]|]; try reflexivity. destruct (k_rxpolled ck); reflexivity. }
  destruct (rx_live s w); [destruct sh|]; cbn [snd]; rewrite ?IH, ?Hd; reflexivity.
Qed.

Lemma R4_idle_app nr m s t c a : R4 nr m s -> (~ rdy s c -> off m c = None) ->
  R4 nr m (upd_tok t (fun p => set_idle (p_idle p ++ [(c, a)]) p) s).
Proof.
  intros [A1 A2 A3 A4 A5 A6 A7] Hc.
  assert (Hq : forall r, get_req (upd_tok t (fun p => set_idle (p_idle p ++ [(c, a)]) p) s) r = get_req s r) by (destruct t; reflexivity).
  assert (Ho : out (upd_tok t (fun p => set_idle (p_idle p ++ [(c, a)]) p) s) = out s) by (destruct t; reflexivity).
  constructor; unfold rdy; intros; rewrite ?Hq, ?Ho in *; eauto.
  - match goal with H : In _ (idl _ _) |- _ => rename H into Hin end. unfold idl in Hin.
    destruct (get_tok_upd_cases t (fun p => set_idle (p_idle p ++ [(c, a)]) p) s t0) as [E|[-> E]]; rewrite E in Hin; [eapply A4; eauto|].
    cbn in Hin. rewrite map_app in Hin. apply in_app_or in Hin. destruct Hin as [Hin|[<-|[]]]; [eapply A4; eauto|apply Hc; assumption].
  - rewrite share_of_upd_tok in *. eapply A5; eauto.
Qed.

Lemma G4_pool_push nr m0 n t c s : G4 nr m0 s -> noff m0 s c -> G4 nr m0 (pool_push n t c s).
Proof.
  intros H Hc. unfold pool_push.
  set (s1 := if share_of s c then upd_tok t (set_marker None) s else s).
  assert (F1 : hf s s1) by (subst s1; destruct (share_of s c); [apply hf_upd_tok; intros c0 H0; exact H0|apply hf_refl]).
  assert (H1 : G4 nr m0 s1) by (eapply G4_hf; eauto).
  assert (Hc1 : noff m0 s1 c) by (eapply noff_hf; eauto).
  pose proof (G4_walk nr m0 t c (share_of s1 c) (p_waiting (get_tok s1 t)) s1 H1 Hc1) as H2.
  pose proof (walk_out t c (share_of s1 c) (p_waiting (get_tok s1 t)) s1) as O2.
  destruct (walk_waiters t c (share_of s1 c) (p_waiting (get_tok s1 t)) s1) as [[rest moved] s2]. cbn [snd] in H2, O2.
  assert (Hc2 : noff m0 s2 c) by (eapply noff_same; eauto).
  set (s3 := upd_tok t (set_waiting rest) s2).
  assert (F3 : hf s2 s3) by (apply hf_upd_tok; intros c0 H0; exact H0).
  assert (H3 : G4 nr m0 s3) by (eapply G4_hf; eauto).
  assert (Hc3 : noff m0 s3 c) by (eapply noff_hf; eauto).
  destruct moved; [exact H3|].
  match goal with |- G4 _ _ (if ?b then _ else _) => destruct b end.
  - eapply G4_same; [exact H3|destruct t; reflexivity|]. apply R4_idle_app; [apply H3|exact Hc3].
  - eapply G4_hf; [exact H3|apply hf_drop_conn].
Qed.

(* a shareable connection never carries an offer *)
Lemma noff_shared nr m0 s c x : G4 nr m0 s -> nth_error (m_conns (cur m0 s)) c = Some x -> ci_share x = true -> noff m0 s c.
Proof. intros [_ HR] Hx Hs _. apply (r4_sh _ _ _ HR). unfold shr. rewrite Hx. exact Hs. Qed.

Lemma G4_register nr m0 cfg t c s : G4 nr m0 s -> (share_of s c = true -> noff m0 s c) -> G4 nr m0 (snd (register cfg t c s)).
Proof.
  intros H Hc. unfold register. destruct (g_pool cfg && negb (t =? 0)); [destruct (share_of s c) eqn:Es|]; cbn [snd]; try exact H.
  destruct (is_open s c); [|exact H]. apply G4_pool_push; [eapply G4_hf; [exact H|apply hf_clone_conn]|].
  eapply noff_hf; [apply hf_clone_conn|apply Hc; reflexivity].
Qed.

(* ------------------------------------------------------------------ harmless log extensions *)
Definition hext (s s' : state) : Prop := exists es, out s' = es ++ out s /\ Forall harmless es.
Lemma hext_refl s : hext s s. Proof. exists []. split; [reflexivity|constructor]. Qed.
Lemma hext_trans a b c : hext a b -> hext b c -> hext a c.
Proof. intros (e1 & O1 & F1) (e2 & O2 & F2). exists (e2 ++ e1). split; [rewrite O2, O1, app_assoc; reflexivity|apply Forall_app; auto]. Qed.
Lemma hext_hf s s' : hf s s' -> hext s s'. Proof. intros H. apply (h_out _ _ H). Qed.
Lemma hext_pf s s' : pf s s' -> hext s s'.
Proof.
  intros P. destruct (pf_out _ _ P) as (es & Ho & HF). exists es. split; [exact Ho|].
  eapply Forall_impl; [|exact HF]. intros e He. destruct e; try contradiction; exact I.
Qed.
Lemma hext_same s s' : out s' = out s -> hext s s'. Proof. intros E. exists []. split; [exact E|constructor]. Qed.

Lemma off_fold_harmless es : forall m c, Forall harmless es -> off (fold_left track_ev es m) c = off m c.
Proof.
  induction es as [|e es IH]; intros m c HF; cbn [fold_left]; [reflexivity|]. inversion HF as [|? ? Ha Hb]; subst.
  rewrite IH by exact Hb. rewrite off_track_ev. destruct e; try reflexivity; contradiction.
Qed.
Lemma lp_fold_harmless es : forall m r, Forall harmless es -> lp (fold_left track_ev es m) r = lp m r.
Proof.
  induction es as [|e es IH]; intros m r HF; cbn [fold_left]; [reflexivity|]. inversion HF as [|? ? Ha Hb]; subst.
  rewrite IH by exact Hb. rewrite lp_track_ev. destruct e; try reflexivity; contradiction.
Qed.
Lemma cur_hext m0 s s' : hext s s' -> (forall c, off (cur m0 s') c = off (cur m0 s) c) /\ (forall r, lp (cur m0 s') r = lp (cur m0 s) r).
Proof.
  intros (es & Ho & HF). unfold cur. rewrite Ho, rev_app_distr, fold_left_app.
  assert (HF' : Forall harmless (rev es)) by (apply Forall_rev; exact HF).
  split; [intros c; apply off_fold_harmless; exact HF'|intros r; apply lp_fold_harmless; exact HF'].
Qed.
Lemma rdy_hext s s' c : hext s s' -> (rdy s' c <-> rdy s c).
Proof.
  intros (es & Ho & HF). unfold rdy. rewrite Ho. split; [|intros H; apply in_or_app; right; exact H].
  intros H. apply in_app_or in H. destruct H as [H|H]; [|exact H]. exfalso. rewrite Forall_forall in HF. apply (HF _ H).
Qed.
Lemma noff_hext m0 s s' c : hext s s' -> noff m0 s c -> noff m0 s' c.
Proof. intros He Hc Hn. destruct (cur_hext m0 s s' He) as [Ho _]. rewrite Ho. apply Hc. intros H. apply Hn. apply (rdy_hext s s' c He). exact H. Qed.

(* ------------------------------------------------------------------ dropping / polling a checkout *)
Lemma hf_hand_back cfg t c s1 : is_open s1 c && negb (t =? 0) && g_pool cfg = false ->
  hf s1 (if is_open s1 c && negb (t =? 0) && g_pool cfg then pool_push (g_max_idle cfg) t c s1 else drop_conn c s1).
Proof. intros ->. apply hf_drop_conn. Qed.

Lemma G4_checkout_drop nr m0 cfg rid ck s : G4 nr m0 s -> (forall c, k_conn ck = Some c -> noff m0 s c) ->
  G4 nr m0 (checkout_drop cfg rid ck s).
Proof.
  intros H Hc. unfold checkout_drop.
  set (s1 := match k_conn ck with
             | Some c => if is_open s c && (g_pool cfg && negb (k_token ck =? 0)) then pool_push (g_max_idle cfg) (k_token ck) c s else drop_conn c s
             | None => s end).
  assert (H1 : G4 nr m0 s1).
  { subst s1. destruct (k_conn ck) as [c|]; [|exact H].
    destruct (is_open s c && (g_pool cfg && negb (k_token ck =? 0))); [apply G4_pool_push; auto|eapply G4_hf; [exact H|apply hf_drop_conn]]. }
  match goal with |- context [rx_drop ck ?x] => set (s2 := x) end.
  assert (H2 : G4 nr m0 s2).
  { subst s2. destruct (match k_inner ck with IDelayDrop => _ | _ => false end); [eapply G4_hf; [exact H1|apply hf_spawn]|].
    match goal with |- context [if ?b then pool_cancel _ _ _ else _] => destruct b end; [eapply G4_hf; [exact H1|apply hf_pool_cancel]|exact H1]. }
  pose proof (hf_rx_drop ck s2) as F3. destruct (rx_drop ck s2) as [ck' s3]. cbn [snd] in F3.
  assert (H3 : G4 nr m0 s3) by (eapply G4_hf; eauto).
  assert (H4 : G4 nr m0 (upd_dial rid (d_set_stage DGone) s3)) by (eapply G4_hf; [exact H3|apply hf_upd_dial]).
  destruct (k_inner ck); try exact H3; try exact H4. destruct (match get_dial s1 rid with Some d => _ | None => false end); assumption.
Qed.

Definition hand_ok (m0 : mst) (s : state) (r c : nat) : Prop := forall i0, off (cur m0 s) c = Some i0 -> lp (cur m0 s) r <= S i0.

Lemma not_livesl_wp ck : forall c, ~ livesl (snd (waiter_poll ck)) c.
Proof.
  intros c (Hw & t & Hs). unfold waiter_poll in *. destruct (k_waiter ck) eqn:Ew; cbn in *.
  - destruct (k_slot ck) eqn:Es; cbn in *; [discriminate|]. destruct (k_txdropped ck); cbn in *; [contradiction|congruence].
  - destruct (k_slot ck) eqn:Es; cbn in *; [discriminate|]. destruct (k_txdropped ck); cbn in *; [contradiction|congruence].
  - contradiction.
Qed.
Lemma not_livesl_rx ck s : forall c, ~ livesl (fst (rx_drop ck s)) c.
Proof. intros c (Hw & t & Hs). unfold rx_drop in *. destruct (k_waiter ck) eqn:Ew, (k_slot ck) eqn:Es; cbn in *; try contradiction; try discriminate; congruence. Qed.
Lemma not_livesl_inner v ck : (forall c, ~ livesl ck c) -> forall c, ~ livesl (k_set_inner v ck) c.
Proof. intros H c Hl. apply (H c). exact Hl. Qed.

Lemma register_fst cfg t c s : fst (fst (register cfg t c s)) = c.
Proof. unfold register. destruct (g_pool cfg && negb (t =? 0)); [destruct (share_of s c)|]; reflexivity. Qed.
Lemma hext_register cfg t c s : hext s (snd (register cfg t c s)).
Proof. apply hext_pf, pf_register. Qed.

Lemma rdy_none s c : (forall c0 b, ~ In (ERdy c0 b) (out s)) -> ~ rdy s c.
Proof. intros H Hr. apply (H c true Hr). Qed.

Definition ckp4 (m0 : mst) (rid : nat) (ck : checkout) (s : state) (rs : kpoll * checkout * state) : Prop :=
  G4 true m0 (snd rs) /\ hext s (snd rs) /\ (forall c, ~ livesl (snd (fst rs)) c)
  /\ (forall c, k_conn (snd (fst rs)) = Some c -> noff m0 (snd rs) c)
  /\ (fst (fst rs) = KPending -> get_req (snd rs) rid = Some (RCheckout ck) /\ forall c, k_conn (snd (fst rs)) = Some c -> k_conn ck = Some c)
  /\ (forall p, fst (fst rs) = KReady (inl p) -> hand_ok m0 (snd rs) rid (fst p)).

Lemma hand_ok_none m0 s r c : off (cur m0 s) c = None -> hand_ok m0 s r c.
Proof. intros E i0 H. rewrite E in H. discriminate. Qed.

Lemma wp_connected ck p : fst (waiter_poll ck) = WConnected p -> livesl ck (fst p).
Proof.
  unfold waiter_poll, livesl. destruct (k_waiter ck) eqn:Ew; cbn.
  - destruct (k_slot ck) as [q|] eqn:Es; cbn; [|destruct (k_txdropped ck); discriminate]. intros E. inversion E; subst q.
    split; [discriminate|]. destruct p as [c t]. exists t. reflexivity.
  - destruct (k_slot ck) as [q|] eqn:Es; cbn; [|destruct (k_txdropped ck); discriminate]. intros E. inversion E; subst q.
    split; [discriminate|]. destruct p as [c t]. exists t. reflexivity.
  - discriminate.
Qed.
Lemma rx_drop_reqs ck s : reqs (snd (rx_drop ck s)) = reqs s.
Proof.
  unfold rx_drop. destruct (k_waiter ck), (k_slot ck) as [[c t]|]; cbn [snd]; try reflexivity;
    unfold pooled_drop; destruct (share_of s c); try reflexivity; unfold drop_conn; destruct (get_conn s c); try reflexivity;
    destruct (Nat.eqb _ _); reflexivity.
Qed.
Lemma off_beyond m c : NC m <= c -> off m c = None.
Proof. unfold off, NC. intros H. destruct (nth_error (m_conns m) c) eqn:E; [|reflexivity]. apply nth_error_lt in E. lia. Qed.
Lemma connector_poll_new_off m0 rid b s c : NC (cur m0 s) = List.length (conns s) ->
  fst (connector_poll rid b s) = CReady (inl c) -> off (cur m0 (snd (connector_poll rid b s))) c = None.
Proof.
  intros Hnc. unfold connector_poll. destruct (get_dial s rid) as [d|]; cbn [fst snd]; [|discriminate].
  destruct (d_stage d) as [| |[a| |]|]; cbn [fst snd]; try discriminate. intros E. inversion E; subst c.
  unfold cur. cbn [out upd_dial set_dials emit set_out set_conns rev]. rewrite fold_left_app. cbn [fold_left].
  rewrite off_track_ev. apply off_beyond. fold (cur m0 s). lia.
Qed.

Lemma G4_checkout_poll m0 cfg rid ck s : G4 true m0 s -> get_req s rid = Some (RCheckout ck) ->
  NC (cur m0 s) = List.length (conns s) -> ckp4 m0 rid ck s (checkout_poll cfg rid ck s).
Proof.
  intros H Hq Hnc. pose proof H as [_ HR]. unfold checkout_poll, ckp4.
  assert (Hnr : forall c, ~ rdy s c) by (intros c; apply rdy_none; apply (r4_nr _ _ _ HR eq_refl)).
  assert (Hj2 : forall c, k_conn ck = Some c -> noff m0 s c) by (intros c Hc _; apply (r4_j2 _ _ _ HR rid ck c Hq Hc (Hnr c))).
  destruct (waiter_poll_same ck) as (W1 & W2 & W3 & W4). pose proof (not_livesl_wp ck) as Wl. pose proof (wp_connected ck) as Wt.
  destruct (waiter_poll ck) as [w ck1]. cbn [fst snd] in *.
  assert (Hbase : forall ckx kp, k_conn ckx = k_conn ck -> (forall c, ~ livesl ckx c) ->
     (forall p, kp = KReady (inl p) -> hand_ok m0 s rid (fst p)) ->
     G4 true m0 s /\ hext s s /\ (forall c, ~ livesl ckx c) /\ (forall c, k_conn ckx = Some c -> noff m0 s c)
     /\ (kp = KPending -> get_req s rid = Some (RCheckout ck) /\ forall c, k_conn ckx = Some c -> k_conn ck = Some c)
     /\ (forall p, kp = KReady (inl p) -> hand_ok m0 s rid (fst p))).
  { intros ckx kp Hkx Hlx Hk. split; [exact H|]. split; [apply hext_refl|]. split; [exact Hlx|]. split; [intros c Hc; apply Hj2; congruence|].
    split; [intros _; split; [exact Hq|intros c Hc; congruence]|exact Hk]. }
  destruct w; cbn [fst snd].
  - apply Hbase; auto. discriminate.
  - apply Hbase; auto. intros p0 E. inversion E; subst p0. intros i0 Ho.
    apply (r4_j1 _ _ _ HR rid ck (fst p) Hq (Wt p eq_refl) (Hnr (fst p)) i0 Ho).
  - (* WContinue: the connector branch, shared by the inner states that own a connector *)
    assert (Hconn : ckp4 m0 rid ck s
              (let '(r, s0) := connector_poll rid ByReq s in
               match r with
               | CPending => (KPending, ck1, s0)
               | CReady res =>
                   let '(ck0, s1) := rx_drop ck1 s0 in
                   let ck2 := k_set_inner IConnected ck0 in
                   let s2 := set_req rid (RCheckout ck2) s1 in
                   match res with
                   | inl c => let '(p, s3) := register cfg (k_token ck2) c s2 in (KReady (inl p), ck2, s3)
                   | inr e => (KReady (inr e), ck2, s2)
                   end
               end)).
    { unfold ckp4.
      pose proof (hf_connector_poll rid ByReq s) as F1. pose proof (connector_poll_reqs rid ByReq s) as Q1.
      pose proof (connector_poll_new_off m0 rid ByReq s) as N1.
      destruct (connector_poll rid ByReq s) as [r s1]. cbn [fst snd] in *.
      assert (H1 : G4 true m0 s1) by (eapply G4_hf; eauto).
      assert (Hq1 : get_req s1 rid = Some (RCheckout ck)) by (unfold get_req in *; rewrite Q1; exact Hq).
      destruct r as [|res]; cbn [fst snd].
      { split; [exact H1|]. split; [apply hext_hf; exact F1|]. split; [exact Wl|]. split.
        - intros c Hc. eapply noff_hext; [apply hext_hf; exact F1|apply Hj2; congruence].
        - split; [intros _; split; [exact Hq1|intros c Hc; congruence]|discriminate]. }
      pose proof (hf_rx_drop ck1 s1) as F2. pose proof (not_livesl_rx ck1 s1) as L2. pose proof (rx_drop_reqs ck1 s1) as Q2.
      destruct (rx_drop_same ck1 s1) as (_ & _ & R3 & _).
      destruct (rx_drop ck1 s1) as [ck2 s2]. cbn [fst snd] in *.
      assert (H2 : G4 true m0 s2) by (eapply G4_hf; eauto).
      set (ck3 := k_set_inner IConnected ck2).
      assert (L3 : forall c, ~ livesl ck3 c) by (apply not_livesl_inner; exact L2).
      assert (Hq2 : get_req s2 rid = Some (RCheckout ck)) by (unfold get_req in *; rewrite Q2; exact Hq1).
      assert (F3 : hf s2 (set_req rid (RCheckout ck3) s2)).
      { apply hf_set_req. intros ck' E. inversion E; subst ck'. exists ck. split; [exact Hq2|]. split.
        - intros c Hl. exfalso. apply (L3 c Hl).
        - intros c Hc. cbn in Hc. congruence. }
      assert (H3 : G4 true m0 (set_req rid (RCheckout ck3) s2)) by (eapply G4_hf; eauto).
      assert (X3 : hext s (set_req rid (RCheckout ck3) s2)).
      { eapply hext_trans; [apply hext_hf; exact F1|]. eapply hext_trans; [apply hext_hf; exact F2|apply hext_hf; exact F3]. }
      assert (Hc3 : forall c, k_conn ck3 = Some c -> noff m0 (set_req rid (RCheckout ck3) s2) c).
      { intros c Hc. eapply noff_hext; [exact X3|]. apply Hj2. cbn in Hc. congruence. }
      destruct res as [c|e]; cbn [fst snd].
      - assert (Hoc : off (cur m0 (set_req rid (RCheckout ck3) s2)) c = None).
        { destruct (cur_hext m0 s1 (set_req rid (RCheckout ck3) s2)) as [Ho _].
          - eapply hext_trans; [apply hext_hf; exact F2|apply hext_hf; exact F3].
          - rewrite Ho. apply (N1 c Hnc eq_refl). }
        pose proof (register_fst cfg (k_token ck3) c (set_req rid (RCheckout ck3) s2)) as Rf.
        pose proof (hext_register cfg (k_token ck3) c (set_req rid (RCheckout ck3) s2)) as X4.
        assert (H4 : G4 true m0 (snd (register cfg (k_token ck3) c (set_req rid (RCheckout ck3) s2))))
          by (apply G4_register; [exact H3|intros _ _; exact Hoc]).
        destruct (register cfg (k_token ck3) c (set_req rid (RCheckout ck3) s2)) as [p s4]. cbn [fst snd] in *.
        split; [exact H4|]. split; [eapply hext_trans; eauto|]. split; [exact L3|]. split.
        + intros c0 Hc0. eapply noff_hext; [exact X4|apply Hc3; exact Hc0].
        + split; [discriminate|]. intros p0 E. inversion E; subst p0. rewrite Rf. apply hand_ok_none.
          destruct (cur_hext m0 _ s4 X4) as [Ho _]. rewrite Ho. exact Hoc.
      - split; [exact H3|]. split; [exact X3|]. split; [exact L3|]. split; [exact Hc3|]. split; discriminate. }
    destruct (k_inner ck1) eqn:Ei; cbn [fst snd]; try exact Hconn.
    + apply Hbase; auto. discriminate.
    + (* IConnected *)
      destruct (k_conn ck1) as [c|] eqn:Ek; cbn [fst snd]; [|apply Hbase; [congruence|exact Wl|discriminate]].
      pose proof (hf_rx_drop (k_set_conn None ck1) s) as F2. pose proof (not_livesl_rx (k_set_conn None ck1) s) as L2.
      pose proof (rx_drop_reqs (k_set_conn None ck1) s) as Q2. destruct (rx_drop_same (k_set_conn None ck1) s) as (_ & _ & R3 & _).
      destruct (rx_drop (k_set_conn None ck1) s) as [ck2 s2]. cbn [fst snd] in *.
      assert (H2 : G4 true m0 s2) by (eapply G4_hf; eauto).
      assert (Hq2 : get_req s2 rid = Some (RCheckout ck)) by (unfold get_req in *; rewrite Q2; exact Hq).
      assert (F3 : hf s2 (set_req rid (RCheckout ck2) s2)).
      { apply hf_set_req. intros ck' E. inversion E; subst ck'. exists ck. split; [exact Hq2|]. split.
        - intros c0 Hl. exfalso. apply (L2 c0 Hl).
        - intros c0 Hc0. rewrite R3 in Hc0. discriminate Hc0. }
      assert (H3 : G4 true m0 (set_req rid (RCheckout ck2) s2)) by (eapply G4_hf; eauto).
      assert (X3 : hext s (set_req rid (RCheckout ck2) s2)) by (eapply hext_trans; [apply hext_hf; exact F2|apply hext_hf; exact F3]).
      assert (Hc : noff m0 (set_req rid (RCheckout ck2) s2) c) by (eapply noff_hext; [exact X3|apply Hj2; congruence]).
      pose proof (register_fst cfg (k_token ck2) c (set_req rid (RCheckout ck2) s2)) as Rf.
      pose proof (hext_register cfg (k_token ck2) c (set_req rid (RCheckout ck2) s2)) as X4.
      assert (H4 : G4 true m0 (snd (register cfg (k_token ck2) c (set_req rid (RCheckout ck2) s2))))
        by (apply G4_register; [exact H3|intros _; exact Hc]).
      destruct (register cfg (k_token ck2) c (set_req rid (RCheckout ck2) s2)) as [p s4]. cbn [fst snd] in *.
      split; [exact H4|]. split; [eapply hext_trans; eauto|]. split; [exact L2|]. split.
      * intros c0 Hc0. rewrite R3 in Hc0. discriminate Hc0.
      * split; [discriminate|]. intros p0 E. inversion E; subst p0. rewrite Rf. apply hand_ok_none.
        pose proof (noff_hext m0 _ s4 c X4 Hc) as Hc4. apply Hc4. apply rdy_none. apply (r4_nr _ _ _ (proj2 H4) eq_refl).
Qed.

(* ------------------------------------------------------------------ emissions at G4 level *)
Lemma G4_emit_harmless nr m0 e s : harmless e -> G4 nr m0 s -> G4 nr m0 (emit e s).
Proof. intros He H. eapply G4_hf; [exact H|apply hf_emit; exact He]. Qed.

Lemma G4_step nr m0 s e : G4 nr m0 s -> cA2 (cur m0 s) e = true -> R4 nr (track_ev (cur m0 s) e) (emit e s) -> G4 nr m0 (emit e s).
Proof.
  intros [H1 H2] Hc HR. split.
  - cbn [out emit set_out rev]. rewrite evs_ok_snoc, H1. exact Hc.
  - rewrite cur_emit. exact HR.
Qed.

Lemma G4_emit_pend nr m0 r s : G4 nr m0 s -> (forall ck c, get_req s r = Some (RCheckout ck) -> livesl ck c -> False) ->
  G4 nr m0 (emit (EPend r) s).
Proof. intros H Hn. apply G4_step; [exact H|reflexivity|]. apply R4_pend; [apply H|exact Hn]. Qed.

Lemma cA2_hand m r c a b d h x y : nth_error (m_conns m) c = Some x -> nth_error (m_reqs m) r = Some y ->
  (forall i0, off m c = Some i0 -> lp m r <= S i0) -> cA2 m (EHand r c a b d h) = true.
Proof.
  intros Hx Hy Hb. cbn [cA2]. rewrite Hx, Hy. unfold off, lp in Hb. rewrite Hx, Hy in Hb.
  destruct (ci_offer x) as [i0|]; [|reflexivity]. apply Nat.leb_le. apply Hb. reflexivity.
Qed.

Lemma G4_emit_hand nr m0 r c a b d h s : G4 nr m0 s -> c < List.length (m_conns (cur m0 s)) -> r < List.length (m_reqs (cur m0 s)) ->
  hand_ok m0 s r c -> G4 nr m0 (emit (EHand r c a b d h) s).
Proof.
  intros H Hc Hr Hk. destruct (nth_error_ex _ _ Hc) as [x Hx]. destruct (nth_error_ex _ _ Hr) as [y Hy].
  apply G4_step; [exact H|eapply cA2_hand; eauto|]. apply R4_hand. apply H.
Qed.

Lemma mreqs_len_track_ev m e : List.length (m_reqs (track_ev m e)) = List.length (m_reqs m).
Proof.
  destruct e as [r k|c0 sh r|r c0 a b d h|r|r x|r c0|c0|c0 okb]; cbn [track_ev]; unfold ri_upd, ci_upd; cbn [m_reqs set_m_reqs set_m_conns];
    rewrite ?upd_nth_len; try reflexivity.
  - destruct x as [|[]]; unfold ri_upd; cbn [m_reqs set_m_reqs]; rewrite ?upd_nth_len; reflexivity.
  - destruct okb; reflexivity.
Qed.
Lemma mreqs_len_fold es : forall m, List.length (m_reqs (fold_left track_ev es m)) = List.length (m_reqs m).
Proof. induction es as [|e es IH]; intros m; cbn [fold_left]; [reflexivity|]. rewrite IH. apply mreqs_len_track_ev. Qed.
Lemma mreqs_len_ext m0 s s' : (exists es, out s' = es ++ out s) -> List.length (m_reqs (cur m0 s')) = List.length (m_reqs (cur m0 s)).
Proof. intros [es Ho]. unfold cur. rewrite Ho, rev_app_distr, fold_left_app. apply mreqs_len_fold. Qed.
Lemma hext_ext s s' : hext s s' -> exists es, out s' = es ++ out s.
Proof. intros (es & Ho & _). eauto. Qed.

(* ------------------------------------------------------------------ Poll *)
Lemma hf_hold_release r p s : hf s (hold_release r p s).
Proof.
  unfold hold_release.
  set (s1 := upd_conn (fst p) (fun cn => c_set_holders (pred (c_holders cn)) cn) s).
  apply (hf_trans s s1); [apply hf_upd_conn; reflexivity|].
  apply (hf_trans s1 (emit (ERel r (fst p)) s1)); [apply hf_emit; exact I|apply hf_pooled_drop].
Qed.

Lemma noff_hand m0 r c a b d h s c0 : noff m0 s c0 -> noff m0 (emit (EHand r c a b d h) s) c0.
Proof.
  intros Hc Hn. rewrite cur_emit, off_track_ev. destruct (Nat.eqb c c0); [reflexivity|]. apply Hc. intros Hr. apply Hn. right. exact Hr.
Qed.

Lemma isck_checkout_drop cfg rid ck s r : isck (checkout_drop cfg rid ck s) r -> isck s r.
Proof.
  unfold checkout_drop.
  set (s1 := match k_conn ck with
             | Some c => if is_open s c && (g_pool cfg && negb (k_token ck =? 0)) then pool_push (g_max_idle cfg) (k_token ck) c s else drop_conn c s
             | None => s end).
  assert (F1 : mdf s s1).
  { subst s1. destruct (k_conn ck) as [c|]; [|apply mdf_refl].
    match goal with |- context [if ?b then pool_push _ _ _ _ else _] => destruct b end; [apply mdf_pool_push|apply mdf_drop_conn]. }
  match goal with |- context [rx_drop ck ?x] => set (s2 := x) end.
  assert (F2 : forall r0, isck s2 r0 -> isck s1 r0).
  { subst s2. destruct (match k_inner ck with IDelayDrop => _ | _ => false end); [intros r0 H; exact H|].
    match goal with |- context [if ?b then pool_cancel _ _ _ else _] => destruct b end; [|intros r0 H; exact H].
    intros r0 H. apply (rel_req_isck _ _ r0 (mf_req _ _ (mdf_pool_cancel (k_token ck) rid s1) r0)). exact H. }
  pose proof (mdf_rx_drop ck s2) as F3. destruct (rx_drop ck s2) as [ck' s3]. cbn [snd] in F3.
  assert (H3 : isck s3 r -> isck s r).
  { intros H. apply (rel_req_isck _ _ r (mf_req _ _ F1 r)). apply F2. apply (rel_req_isck _ _ r (mf_req _ _ F3 r)). exact H. }
  destruct (k_inner ck); try exact H3. destruct (match get_dial s1 rid with Some d => _ | None => false end); exact H3.
Qed.

Lemma no_slot_not_ck s r : ~ isck s r -> forall ck c, get_req s r = Some (RCheckout ck) -> livesl ck c -> False.
Proof. intros Hn ck c Hq _. apply Hn. exists ck. exact Hq. Qed.

Lemma checkout_poll_rlen cfg rid ck s : List.length (reqs (snd (checkout_poll cfg rid ck s))) = List.length (reqs s).
Proof.
  unfold checkout_poll. destruct (waiter_poll ck) as [w ck1]. destruct w; cbn [snd]; try reflexivity.
  assert (Hconn : List.length (reqs (snd (let '(r, s0) := connector_poll rid ByReq s in
               match r with
               | CPending => (KPending, ck1, s0)
               | CReady res =>
                   let '(ck0, s1) := rx_drop ck1 s0 in
                   let ck2 := k_set_inner IConnected ck0 in
                   let s2 := set_req rid (RCheckout ck2) s1 in
                   match res with
                   | inl c => let '(p, s3) := register cfg (k_token ck2) c s2 in (KReady (inl p), ck2, s3)
                   | inr e => (KReady (inr e), ck2, s2)
                   end
               end))) = List.length (reqs s)).
  { pose proof (connector_poll_reqs rid ByReq s) as Q1. destruct (connector_poll rid ByReq s) as [r s1]. cbn [snd] in Q1.
    destruct r as [|res]; cbn [snd]; [rewrite Q1; reflexivity|].
    pose proof (rx_drop_reqs ck1 s1) as Q2. destruct (rx_drop ck1 s1) as [ck2 s2]. cbn [snd] in Q2.
    destruct res as [c|e]; cbn [snd].
    - pose proof (pf_rlen _ _ (pf_register cfg (k_token (k_set_inner IConnected ck2)) c (set_req rid (RCheckout (k_set_inner IConnected ck2)) s2))) as Q3.
      destruct (register _ _ _ _) as [p s3]. cbn [snd] in *. rewrite Q3. cbn. rewrite upd_nth_len, Q2, Q1. reflexivity.
    - cbn. rewrite upd_nth_len, Q2, Q1. reflexivity. }
  destruct (k_inner ck1); cbn [snd]; try reflexivity; try exact Hconn.
  destruct (k_conn ck1) as [c|]; cbn [snd]; [|reflexivity].
  pose proof (rx_drop_reqs (k_set_conn None ck1) s) as Q2. destruct (rx_drop (k_set_conn None ck1) s) as [ck2 s2]. cbn [snd] in Q2.
  pose proof (pf_rlen _ _ (pf_register cfg (k_token ck2) c (set_req rid (RCheckout ck2) s2))) as Q3.
  destruct (register _ _ _ _) as [p s3]. cbn [snd] in *. rewrite Q3. cbn. rewrite upd_nth_len, Q2. reflexivity.
Qed.

(* what the linearity invariant (pool/ProofsC02.v) provides; discharged in pool/ProofsC14.v *)
Definition BndP (cfg : config) (r : nat) (ck : checkout) (s : state) : Prop :=
  forall p, fst (fst (checkout_poll cfg r ck s)) = KReady (inl p) -> fst p < List.length (conns (snd (checkout_poll cfg r ck s))).
Definition LinK (s : state) : Prop :=
  forall tid c t r ck, nth tid (tasks s) None = Some (TWhenReady c t) -> share_of s c = false ->
    get_req s r = Some (RCheckout ck) -> k_conn ck <> Some c.

Lemma G4_do_poll m0 cfg r s : G4 true m0 s -> NC (cur m0 s) = List.length (conns s) ->
  List.length (reqs s) <= List.length (m_reqs (cur m0 s)) ->
  (forall ck, get_req s r = Some (RCheckout ck) ->
     BndP cfg r ck (unwake_req r s) /\ NC (cur m0 (snd (checkout_poll cfg r ck (unwake_req r s)))) = List.length (conns (snd (checkout_poll cfg r ck (unwake_req r s))))) ->
  G4 true m0 (do_poll cfg r s).
Proof.
  intros H Hnc Hrl Hb. unfold do_poll. destruct (get_req s r) as [[|ck|p fin pl| |]|] eqn:Er; try exact H.
  - eapply G4_hf; [|apply hf_set_req_nock; discriminate]. apply G4_emit_harmless; [exact I|]. eapply G4_hf; [exact H|apply hf_unwake_req].
  - (* RCheckout *)
    assert (H0 : G4 true m0 (unwake_req r s)) by (eapply G4_hf; [exact H|apply hf_unwake_req]).
    destruct (Hb ck eq_refl) as [Hbp Hnc1].
    destruct (G4_checkout_poll m0 cfg r ck (unwake_req r s) H0 Er Hnc) as (H1 & X1 & L1 & C1 & P1 & K1).
    pose proof (checkout_poll_rlen cfg r ck (unwake_req r s)) as Hl1. unfold BndP in Hbp.
    destruct (checkout_poll cfg r ck (unwake_req r s)) as [[res ck1] s1]. cbn [fst snd] in *.
    assert (Hin : r < List.length (reqs s)) by (eapply nth_error_lt; exact Er).
    assert (Hr1 : r < List.length (m_reqs (cur m0 s1))).
    { rewrite (mreqs_len_ext m0 (unwake_req r s) s1 (hext_ext _ _ X1)). change (cur m0 (unwake_req r s)) with (cur m0 s). lia. }
    assert (Hnot : forall v s2, (forall ck', v <> RCheckout ck') -> r < List.length (reqs s2) -> ~ isck (set_req r v s2) r).
    { intros v s2 Hv Hl [ck' Hc]. destruct (nth_error_ex _ _ Hl) as [q Eq]. rewrite (isck_set_req_same s2 r q v Eq) in Hc.
      inversion Hc. eapply Hv; eauto. }
    assert (Hl1' : r < List.length (reqs s1)) by (rewrite Hl1; exact Hin).
    destruct res as [|[p|e]].
    + destruct (P1 eq_refl) as [Hq1 Hk1].
      apply G4_emit_pend.
      * eapply G4_hf; [exact H1|]. apply hf_set_req. intros ck' E. inversion E; subst ck'. exists ck. split; [exact Hq1|].
        split; [intros c Hl; exfalso; apply (L1 c Hl)|exact Hk1].
      * intros ck' c Hq Hl. rewrite (isck_set_req_same s1 r _ (RCheckout ck1) Hq1) in Hq. inversion Hq; subst ck'. apply (L1 c Hl).
    + destruct p as [c t]. cbn [fst snd] in *.
      assert (Hc1 : c < List.length (m_conns (cur m0 s1))) by (fold (NC (cur m0 s1)); rewrite Hnc1; apply (Hbp (c, t) eq_refl)).
      destruct (match get_conn s1 c with Some cn => _ | None => _ end) as [[[sh op_] rd] hs].
      set (e := EHand r c (t =? 0) op_ rd hs).
      assert (H2 : G4 true m0 (emit e s1)) by (apply G4_emit_hand; auto; apply (K1 (c, t) eq_refl)).
      match goal with |- G4 _ _ (emit _ (checkout_drop _ _ _ ?sx)) => set (s2 := sx) end.
      assert (H3 : G4 true m0 s2).
      { eapply G4_hf; [|apply hf_set_req_nock; discriminate]. eapply G4_hf; [exact H2|]. apply hf_upd_conn. intros cn0. destruct sh; reflexivity. }
      apply G4_emit_pend.
      * apply G4_checkout_drop; [exact H3|]. intros c0 Hc0. eapply noff_same; [|apply noff_hand; apply C1; exact Hc0]. reflexivity.
      * apply no_slot_not_ck. intros Hi. apply isck_checkout_drop in Hi. revert Hi. apply Hnot; [discriminate|].
        exact Hl1'.
    + apply G4_emit_harmless; [exact I|]. apply G4_checkout_drop.
      * eapply G4_hf; [exact H1|apply hf_set_req_nock; discriminate].
      * intros c0 Hc0. eapply noff_same; [|apply C1; exact Hc0]. reflexivity.
  - (* RHolding *)
    destruct fin.
    + apply G4_emit_harmless; [exact I|]. eapply G4_hf; [|apply hf_hold_release].
      eapply G4_hf; [|apply hf_set_req_nock; discriminate]. eapply G4_hf; [exact H|apply hf_unwake_req].
    + apply G4_emit_pend.
      * eapply G4_hf; [|apply hf_set_req_nock; discriminate]. eapply G4_hf; [exact H|apply hf_unwake_req].
      * intros ck' c Hq _. rewrite (isck_set_req_same (unwake_req r s) r _ _ Er) in Hq. discriminate.
Qed.

(* ------------------------------------------------------------------ the tracker's reading of the operation *)
Lemma R4_tv nr m m' s : (forall c, off m' c = off m c) -> (forall r, lp m' r = lp m r) -> m_i m' = m_i m ->
  (forall c, shr m' c = shr m c) -> R4 nr m s -> R4 nr m' s.
Proof.
  intros Eo El Ei Es [A1 A2 A3 A4 A5 A6 A7]. constructor; intros; rewrite ?Eo, ?El, ?Ei, ?Es in *; eauto.
Qed.

Section ATrk.
Variable cfg : config.

Lemma shr_ci_upd f c0 m c : (forall x, ci_share (f x) = ci_share x) -> shr (ci_upd f c0 m) c = shr m c.
Proof.
  intros Hf. unfold shr, ci_upd. cbn [m_conns set_m_conns]. rewrite nth_error_upd. destruct (Nat.eqb c0 c); [|reflexivity].
  destruct (nth_error (m_conns m) c); cbn; [apply Hf|reflexivity].
Qed.

Lemma track_op_tv m o ob : match o with Issue _ _ => False | _ => True end ->
  (forall c, off (track_op cfg m o ob) c = off m c) /\ (forall r, lp (track_op cfg m o ob) r = lp m r)
  /\ m_i (track_op cfg m o ob) = m_i m /\ (forall c, shr (track_op cfg m o ob) c = shr m c).
Proof.
  intros Ho. destruct o; try contradiction; cbn [track_op]; try (repeat split; reflexivity).
  - destruct (nth_error (m_reqs m) r) as [x|]; [|repeat split; reflexivity].
    set (f := fun y => set_ri_pend false (set_ri_stat SCancelled
         (match ri_stat y, ri_dial y with SLive, DsFlying => set_ri_aband true y | _, _ => y end))).
    assert (Hpre : forall mi, (forall c, off mi c = off m c) -> (forall r0, lp mi r0 = lp m r0) -> m_i mi = m_i m -> (forall c, shr mi c = shr m c) ->
              (forall c, off (ri_upd f r mi) c = off m c) /\ (forall r0, lp (ri_upd f r mi) r0 = lp m r0)
              /\ m_i (ri_upd f r mi) = m_i m /\ (forall c, shr (ri_upd f r mi) c = shr m c)).
    { intros mi E1 E2 E3 E4. repeat split; auto. intros r0. rewrite <- E2. apply lp_ri_upd_keep. intros y. unfold f. destruct (ri_stat y), (ri_dial y); reflexivity. }
    assert (Hself : (forall c, off m c = off m c) /\ (forall r0, lp m r0 = lp m r0) /\ m_i m = m_i m /\ (forall c, shr m c = shr m c)) by (repeat split).
    destruct Hself as (S1 & S2 & S3 & S4).
    destruct (ri_stat x); try (repeat split; reflexivity); [|apply Hpre; auto].
    destruct (ri_popx x) as [c|]; [|apply Hpre; auto]. destruct (nth_error (m_conns m) c) as [y|]; [|apply Hpre; auto].
    destruct (ci_share y); [apply Hpre; auto|]. apply Hpre; try reflexivity.
    + intros c0. apply off_ci_upd_keep. reflexivity.
    + intros c0. apply shr_ci_upd. reflexivity.
  - destruct (holder_conn m r); [|repeat split; reflexivity]. repeat split; try reflexivity.
    + intros c0. apply off_ci_upd_keep. reflexivity.
    + intros c0. apply shr_ci_upd. reflexivity.
  - repeat split; try reflexivity. intros r0. apply lp_ri_upd_keep. intros y. destruct (ri_dial y), (ri_resolved y); reflexivity.
  - repeat split; try reflexivity.
    + intros c0. apply off_ci_upd_keep. reflexivity.
    + intros c0. apply shr_ci_upd. reflexivity.
Qed.

Lemma G4_start nr m0 s : out s = [] -> R4 nr m0 s -> G4 nr m0 s.
Proof. intros Ho H. unfold G4, cur. rewrite Ho. cbn. auto. Qed.

Lemma R4_nr_weaken m s : R4 true m s -> R4 false m s.
Proof. intros [A1 A2 A3 A4 A5 A6 A7]. constructor; auto; discriminate. Qed.

(* Cancel *)
Lemma G4_op_cancel m r s ob : R4 true m s -> out s = [] -> G4 true (track_op cfg m (Cancel r) ob) (do_cancel cfg r s).
Proof.
  intros H Ho. destruct (track_op_tv m (Cancel r) ob I) as (T1 & T2 & T3 & T4).
  assert (H0 : G4 true (track_op cfg m (Cancel r) ob) s) by (apply G4_start; [exact Ho|]; eapply R4_tv; eauto).
  unfold do_cancel. destruct (get_req s r) as [[|ck|p fin pl| |]|] eqn:Er; try (eapply G4_hf; [exact H0|apply hf_unwake_req]); try exact H0.
  - eapply G4_hf; [|apply hf_unwake_req]. eapply G4_hf; [exact H0|apply hf_set_req_nock; discriminate].
  - eapply G4_hf; [|apply hf_unwake_req]. apply G4_checkout_drop.
    + eapply G4_hf; [exact H0|apply hf_set_req_nock; discriminate].
    + intros c Hc. eapply noff_same; [reflexivity|]. intros Hn. apply (r4_j2 _ _ _ (proj2 H0) r ck c Er Hc Hn).
  - eapply G4_hf; [|apply hf_unwake_req]. eapply G4_hf; [|apply hf_hold_release].
    eapply G4_hf; [exact H0|apply hf_set_req_nock; discriminate].
Qed.

(* Issue *)
Lemma R4_add_req m s q d : R4 true m s ->
  (forall ck, q = RCheckout ck -> k_slot ck = None /\ forall c, k_conn ck = Some c -> off m c = None) ->
  R4 true m (add_req q d s).
Proof.
  intros [A1 A2 A3 A4 A5 A6 A7] Hq. unfold add_req.
  assert (Hold : forall r ck, get_req (set_dials (dials s ++ [d]) (set_reqs (reqs s ++ [q]) s)) r = Some (RCheckout ck) ->
            get_req s r = Some (RCheckout ck) \/ q = RCheckout ck).
  { intros r ck. unfold get_req. cbn [reqs set_dials set_reqs]. rewrite nth_error_snoc.
    destruct (Nat.ltb_spec r (List.length (reqs s))); [auto|]. destruct (Nat.eqb r (List.length (reqs s))); [|discriminate].
    intros E. inversion E. auto. }
  constructor; auto.
  - intros r ck c H Hl Hn i0 Ho. destruct (Hold r ck H) as [H0| ->]; [eapply A2; eauto|].
    destruct (Hq ck eq_refl) as [Hs _]. destruct Hl as (_ & t & Hl). congruence.
  - intros r ck c H Hc Hn. destruct (Hold r ck H) as [H0| ->]; [eapply A3; eauto|]. destruct (Hq ck eq_refl) as [_ Hk]. auto.
  - intros c Hr. exfalso. apply (A7 eq_refl c true Hr).
Qed.

Lemma issue_tv m u p ob : (forall c, off (issue_m cfg m u p ob) c = off m c) /\ m_i (issue_m cfg m u p ob) = m_i m
  /\ (forall c, shr (issue_m cfg m u p ob) c = shr m c)
  /\ (forall r, lp (issue_m cfg m u p ob) r = if Nat.ltb r (List.length (m_reqs m)) then lp m r else 0).
Proof.
  unfold issue_m. cbn [track_op]. repeat split; try reflexivity. intros r. unfold lp. cbn [m_reqs set_m_keys set_m_reqs].
  rewrite nth_error_snoc. destruct (Nat.ltb_spec r (List.length (m_reqs m))) as [Hl|Hg]; [reflexivity|].
  destruct (Nat.eqb r (List.length (m_reqs m))); reflexivity.
Qed.

Lemma R4_issue_start m u p ob s : R4 true m s -> R4 true (issue_m cfg m u p ob) s.
Proof.
  intros [A1 A2 A3 A4 A5 A6 A7]. destruct (issue_tv m u p ob) as (T1 & T2 & T3 & T4).
  assert (Hl : forall r, lp (issue_m cfg m u p ob) r <= lp m r).
  { intros r. rewrite T4. destruct (r <? List.length (m_reqs m)); lia. }
  constructor; intros; rewrite ?T1, ?T2, ?T3 in *; eauto.
  - specialize (Hl r). specialize (A1 r). lia.
  - specialize (Hl r). assert (lp m r <= S i0) by eauto. lia.
Qed.

Lemma G4_op_issue m u p s ob : R4 true m s -> out s = [] -> G4 true (issue_m cfg m u p ob) (do_issue cfg u p s).
Proof.
  intros H Ho. set (m1 := issue_m cfg m u p ob). set (s0 := set_woken (woken s ++ [false]) s).
  assert (H0 : G4 true m1 s0).
  { eapply G4_hf; [apply G4_start; [exact Ho|apply R4_issue_start; exact H]|]. apply hf_same; try reflexivity; [intros c Hc; exact Hc|apply harmless_nil; reflexivity]. }
  assert (Hadd : forall sx q d, G4 true m1 sx ->
            (forall ck, q = RCheckout ck -> k_slot ck = None /\ forall c, k_conn ck = Some c -> noff m1 sx c) -> G4 true m1 (add_req q d sx)).
  { intros sx q d Hx Hq. eapply G4_same; [exact Hx|reflexivity|]. apply R4_add_req; [apply Hx|].
    intros ck E. destruct (Hq ck E) as [A B]. split; [exact A|]. intros c Hc. apply (B c Hc). apply rdy_none. apply (r4_nr _ _ _ (proj2 Hx) eq_refl). }
  unfold do_issue. fold s0.
  destruct (nth u (g_uris cfg) None) as [k|]; [|apply Hadd; [exact H0|discriminate]].
  destruct (negb (g_pool cfg)).
  { apply Hadd; [exact H0|]. intros ck E. inversion E; subst ck. split; [reflexivity|discriminate]. }
  pose proof (hf_key_insert k s0) as F1. destruct (key_insert k s0) as [t s1]. cbn [snd] in F1.
  assert (H1 : G4 true m1 s1) by (eapply G4_hf; eauto).
  destruct (hf_pool_pop (g_timeout cfg) t s1) as [F2 P2]. destruct (pool_pop (g_timeout cfg) t s1) as [found s2]. cbn [fst snd] in F2, P2.
  assert (H2 : G4 true m1 s2) by (eapply G4_hf; eauto).
  destruct found as [c|].
  { apply Hadd; [exact H2|]. intros ck E. inversion E; subst ck. split; [reflexivity|]. intros c0 Hc0. inversion Hc0; subst c0.
    eapply noff_hext; [apply hext_hf; exact F2|]. intros Hn. apply (r4_j3 _ _ _ (proj2 H1) t c (P2 c eq_refl) Hn). }
  set (pend := match p_marker (get_tok s2 t) with Some _ => true | None => false end).
  set (s3 := upd_tok t (fun q => set_waiting (p_waiting q ++ [(List.length (reqs s0), pend)]) q) s2).
  assert (H3 : G4 true m1 s3) by (eapply G4_hf; [exact H2|apply hf_upd_tok; intros c Hc; exact Hc]).
  destruct pend.
  { apply Hadd; [exact H3|]. intros ck E. inversion E; subst ck. split; [reflexivity|discriminate]. }
  set (own := match p with H2 => true | H1 => false end).
  set (s4 := if own then upd_tok t (set_marker (Some (List.length (reqs s0)))) s3 else s3).
  assert (H4 : G4 true m1 s4) by (subst s4; destruct own; [eapply G4_hf; [exact H3|apply hf_upd_tok; intros c Hc; exact Hc]|exact H3]).
  apply Hadd; [exact H4|]. intros ck E. inversion E; subst ck. split; [reflexivity|discriminate].
Qed.


(* background tasks *)
Lemma G4_emit_rdy m0 c b s : G4 false m0 s ->
  (b = true -> share_of s c = false -> forall r ck, get_req s r = Some (RCheckout ck) -> k_conn ck <> Some c) ->
  G4 false m0 (emit (ERdy c b) s).
Proof. intros H Hk. apply G4_step; [exact H|reflexivity|]. apply R4_rdy; [apply H|exact Hk]. Qed.

Lemma noff_rdy m0 c s : noff m0 (emit (ERdy c true) s) c.
Proof. intros Hn. exfalso. apply Hn. left. reflexivity. Qed.

Lemma G4_run_task m0 tid s : G4 false m0 s -> LinK s -> NC (cur m0 s) = List.length (conns s) -> G4 false m0 (run_task cfg tid s).
Proof.
  intros H HL Hnc. unfold run_task. destruct (nth tid (tasks s) None) as [[c t|rid t own]|] eqn:Et; [| |exact H].
  - destruct (get_conn s c) as [cn|] eqn:Ec; [|eapply G4_hf; [exact H|apply hf_finish_task]].
    assert (Hk : share_of s c = false -> forall r ck, get_req s r = Some (RCheckout ck) -> k_conn ck <> Some c)
      by (intros Hs r ck Hq; apply (HL tid c t r ck Et Hs Hq)).
    destruct (negb (c_open cn)) eqn:Eo.
    + assert (Hop : is_open s c = false).
      { unfold is_open. rewrite Ec. apply negb_true_iff in Eo. rewrite Eo. destruct (c_share cn); reflexivity. }
      change (is_open (finish_task tid (emit (ERdy c false) s)) c) with (is_open s c). rewrite Hop. cbn [andb].
      eapply G4_hf; [|apply hf_drop_conn]. eapply G4_hf; [|apply hf_finish_task]. apply G4_emit_rdy; [exact H|discriminate].
    + destruct (c_share cn || c_ready cn).
      * assert (H1 : G4 false m0 (finish_task tid (emit (ERdy c true) s))).
        { eapply G4_hf; [|apply hf_finish_task]. apply G4_emit_rdy; [exact H|intros _; exact Hk]. }
        destruct (_ && _); [|eapply G4_hf; [exact H1|apply hf_drop_conn]].
        apply G4_pool_push; [exact H1|]. eapply noff_same; [|apply noff_rdy]. reflexivity.
      * eapply G4_hf; [exact H|apply hf_upd_conn; reflexivity].
  - pose proof (hf_connector_poll rid (ByTask tid) s) as F1. pose proof (connector_poll_new_off m0 rid (ByTask tid) s) as N1.
    destruct (connector_poll rid (ByTask tid) s) as [r s1]. cbn [fst snd] in *.
    assert (H1 : G4 false m0 s1) by (eapply G4_hf; eauto).
    destruct r as [|[c|e]]; [exact H1| |].
    + assert (H2 : G4 false m0 (snd (register cfg t c s1))) by (apply G4_register; [exact H1|intros _ _; apply (N1 c Hnc eq_refl)]).
      destruct (register cfg t c s1) as [p s2]. cbn [snd] in H2.
      eapply G4_hf; [|apply hf_pooled_drop]. eapply G4_hf; [|apply hf_finish_task].
      destruct (_ && _); [eapply G4_hf; [exact H2|apply hf_pool_cancel]|exact H2].
    + eapply G4_hf; [|apply hf_finish_task]. destruct (_ && _); [eapply G4_hf; [exact H1|apply hf_pool_cancel]|exact H1].
Qed.

Lemma G4_bg_loop m0 (P : state -> Prop) :
  (forall s tid rest, runq s = tid :: rest -> P s -> P (run_task cfg tid (set_runq rest s))) ->
  (forall s, P s -> LinK s /\ NC (cur m0 s) = List.length (conns s)) ->
  forall fuel s, P s -> G4 false m0 s -> G4 false m0 (bg_loop cfg fuel s).
Proof.
  intros HP HPl. induction fuel as [|f IH]; intros s Ps H; cbn [bg_loop]; [exact H|].
  destruct (runq s) as [|tid rest] eqn:Hq; [exact H|]. apply IH; [apply HP; assumption|].
  destruct (HPl s Ps) as [HL Hn]. apply G4_run_task; [eapply G4_hf; [exact H|apply hf_set_runq]|exact HL|exact Hn].
Qed.

(* the remaining operations *)
Lemma hf_drain c s : hf s (drain_conn_waiters c s).
Proof.
  unfold drain_conn_waiters. destruct (get_conn s c); [|apply hf_refl].
  eapply hf_trans; [apply (hf_upd_conn c (c_set_waiters [])); reflexivity|apply hf_wake_tasks].
Qed.

Lemma G4_op_other m o s ob : R4 true m s -> out s = [] ->
  match o with Issue _ _ | Cancel _ | Bg | Poll _ => False | _ => True end ->
  G4 true (track_op cfg m o ob) (match o with
                                 | Finish r => do_finish r s | Upgrade r => do_upgrade r s | DialDone r x => do_dial_done r x s
                                 | ConnReady c => do_conn_ready c s | ConnClose c => do_conn_close c s
                                 | Tick dt => set_now (now s + dt)%N s | _ => s end).
Proof.
  intros H Ho Hk. assert (Hv : match o with Issue _ _ => False | _ => True end) by (destruct o; auto).
  destruct (track_op_tv m o ob Hv) as (T1 & T2 & T3 & T4).
  assert (H0 : G4 true (track_op cfg m o ob) s) by (apply G4_start; [exact Ho|]; eapply R4_tv; eauto).
  destruct o; try contradiction.
  - unfold do_finish. destruct (get_req s r) as [[|ck|p fin pl| |]|]; try exact H0.
    assert (H1 : G4 true (track_op cfg m (Finish r) ob) (set_req r (RHolding p true false) s))
      by (eapply G4_hf; [exact H0|apply hf_set_req_nock; discriminate]).
    destruct pl; [eapply G4_hf; [exact H1|apply hf_wake_req]|exact H1].
  - unfold do_upgrade. destruct (get_req s r) as [[|ck|p fin pl| |]|]; try exact H0.
    eapply G4_hf; [|apply hf_drain]. eapply G4_hf; [exact H0|apply hf_upd_conn; reflexivity].
  - unfold do_dial_done. destruct (get_dial s r) as [d|]; [|exact H0]. destruct (d_stage d); try exact H0.
    eapply G4_hf; [|apply hf_wake_poller]. eapply G4_hf; [exact H0|apply hf_upd_dial].
  - unfold do_conn_ready. destruct (get_conn s c); [|exact H0].
    eapply G4_hf; [|apply hf_drain]. eapply G4_hf; [exact H0|apply hf_upd_conn; reflexivity].
  - unfold do_conn_close. destruct (get_conn s c); [|exact H0].
    eapply G4_hf; [|apply hf_drain]. eapply G4_hf; [exact H0|apply hf_upd_conn; reflexivity].
  - eapply G4_hf; [exact H0|]. apply hf_same; try reflexivity; [intros c Hc; exact Hc|apply harmless_nil; reflexivity].
Qed.


Lemma ev_eq_dec : forall a b : ev, {a = b} + {a <> b}.
Proof. repeat decide equality. Defined.

(* ------------------------------------------------------------------ the end of an operation: offers are recorded *)
Definition foff (ob : opobs) (m : mst) (c : nat) : option nat :=
  match nth_error (m_conns m) c with
  | Some x => if mem c (idle_of (o_snap ob) (key_tok m (conn_key m c))) || ci_dropped x || ci_share x then None else Some (m_i m)
  | None => None
  end.

Lemma conn_key_ci_upd f c0 m c : (forall x, ci_origin (f x) = ci_origin x) -> conn_key (ci_upd f c0 m) c = conn_key m c.
Proof.
  intros Hf. unfold conn_key, ci_upd. cbn [m_conns set_m_conns]. rewrite nth_error_upd. destruct (Nat.eqb c0 c); [|reflexivity].
  destruct (nth_error (m_conns m) c); cbn; [rewrite Hf; reflexivity|reflexivity].
Qed.

Lemma foff_set_offer ob v c0 m c : foff ob (ci_upd (set_ci_offer v) c0 m) c = foff ob m c.
Proof.
  unfold foff. rewrite (conn_key_ci_upd (set_ci_offer v) c0 m c) by reflexivity.
  unfold ci_upd at 1. cbn [m_conns set_m_conns]. rewrite nth_error_upd.
  change (key_tok (ci_upd (set_ci_offer v) c0 m)) with (key_tok m). change (m_i (ci_upd (set_ci_offer v) c0 m)) with (m_i m).
  destruct (Nat.eqb c0 c); [|reflexivity]. destruct (nth_error (m_conns m) c); reflexivity.
Qed.

Lemma track_offer_spec ob m e c :
  foff ob (track_offer ob m e) c = foff ob m c /\
  off (track_offer ob m e) c = match e with ERdy c0 true => if Nat.eqb c0 c then foff ob m c else off m c | _ => off m c end.
Proof.
  destruct e as [r k|c0 sh r|r c0 a b d h|r|r x|r c0|c0|c0 okb]; cbn [track_offer]; try (split; reflexivity).
  destruct okb; [|split; reflexivity]. destruct (nth_error (m_conns m) c0) as [x|] eqn:Ex.
  - split; [apply foff_set_offer|]. rewrite off_ci_upd. destruct (Nat.eqb_spec c0 c) as [->|]; [|reflexivity].
    unfold foff. rewrite Ex. reflexivity.
  - split; [reflexivity|]. destruct (Nat.eqb_spec c0 c) as [->|]; [|reflexivity]. unfold foff, off. rewrite Ex. reflexivity.
Qed.

Lemma off_fold_offer ob evs : forall m c,
  foff ob (fold_left (track_offer ob) evs m) c = foff ob m c /\
  ((In (ERdy c true) evs -> off (fold_left (track_offer ob) evs m) c = foff ob m c) /\
   (~ In (ERdy c true) evs -> off (fold_left (track_offer ob) evs m) c = off m c)).
Proof.
  induction evs as [|e evs IH]; intros m c; cbn [fold_left]; [split; [reflexivity|split; [intros []|reflexivity]]|].
  destruct (track_offer_spec ob m e c) as [F1 O1]. destruct (IH (track_offer ob m e) c) as (F2 & I2 & N2).
  split; [congruence|]. split.
  - intros [E|Hin].
    + subst e. destruct (in_dec ev_eq_dec (ERdy c true) evs) as [Hi|Hn]; [rewrite (I2 Hi); exact F1|].
      rewrite (N2 Hn), O1, Nat.eqb_refl. reflexivity.
    + rewrite (I2 Hin). exact F1.
  - intros Hn. rewrite N2 by (intros Hi; apply Hn; right; exact Hi). rewrite O1. destruct e; try reflexivity.
    destruct ok; [|reflexivity]. destruct (Nat.eqb_spec c0 c) as [->|]; [exfalso; apply Hn; left; reflexivity|reflexivity].
Qed.


Lemma tv_idle_stamp prev : forall sn m, (forall c, off (track_idle_stamp prev m sn) c = off m c)
  /\ (forall r, lp (track_idle_stamp prev m sn) r = lp m r) /\ m_i (track_idle_stamp prev m sn) = m_i m
  /\ (forall c, shr (track_idle_stamp prev m sn) c = shr m c).
Proof.
  intros sn. unfold track_idle_stamp. generalize (sn_idle sn). induction l as [|c0 l IH]; intros m; cbn [fold_left]; [repeat split|].
  destruct (IH (if mem c0 (idle_of prev (sn_token sn)) then m else ci_upd (set_ci_idle_time (m_time m)) c0 m)) as (A & B & C & D).
  destruct (mem c0 (idle_of prev (sn_token sn))); [repeat split; assumption|].
  repeat split.
  - intros c. rewrite A. apply off_ci_upd_keep. reflexivity.
  - intros r. rewrite B. reflexivity.
  - rewrite C. reflexivity.
  - intros c. rewrite D. apply shr_ci_upd. reflexivity.
Qed.
Lemma tv_idle_stamps prev : forall l m, (forall c, off (fold_left (track_idle_stamp prev) l m) c = off m c)
  /\ (forall r, lp (fold_left (track_idle_stamp prev) l m) r = lp m r) /\ m_i (fold_left (track_idle_stamp prev) l m) = m_i m
  /\ (forall c, shr (fold_left (track_idle_stamp prev) l m) c = shr m c).
Proof.
  induction l as [|sn l IH]; intros m; cbn [fold_left]; [repeat split|].
  destruct (IH (track_idle_stamp prev m sn)) as (A & B & C & D). destruct (tv_idle_stamp prev sn m) as (A' & B' & C' & D').
  repeat split; intros; congruence.
Qed.
Lemma tv_fold_offer ob evs : forall m, (forall r, lp (fold_left (track_offer ob) evs m) r = lp m r)
  /\ m_i (fold_left (track_offer ob) evs m) = m_i m /\ (forall c, shr (fold_left (track_offer ob) evs m) c = shr m c).
Proof.
  induction evs as [|e evs IH]; intros m; cbn [fold_left]; [repeat split|].
  destruct (IH (track_offer ob m e)) as (A & B & C).
  assert (Hs : (forall r, lp (track_offer ob m e) r = lp m r) /\ m_i (track_offer ob m e) = m_i m /\ (forall c, shr (track_offer ob m e) c = shr m c)).
  { destruct e; try (repeat split; reflexivity). cbn [track_offer]. destruct ok; [|repeat split; reflexivity].
    destruct (nth_error (m_conns m) c); [|repeat split; reflexivity]. repeat split; try reflexivity. intros c1. apply shr_ci_upd. reflexivity. }
  destruct Hs as (A' & B' & C'). repeat split; intros; congruence.
Qed.

(* the relation after [track], for the next operation *)
Lemma R4_finish nr m ob mc s' : R4 nr mc s' -> ob = observe s' ->
  (forall t c, In c (idl s' t) -> rdy s' c -> foff ob mc c = None) ->
  (forall c x, nth_error (m_conns mc) c = Some x -> ci_share x = false -> share_of s' c = false) ->
  let m2 := fold_left (track_offer ob) (rev (out s')) mc in
  let m3 := fold_left (track_idle_stamp (o_snap (m_prev m))) (o_snap ob) m2 in
  R4 true (set_m_prev ob (set_m_i (S (m_i m3)) m3)) (set_out [] s').
Proof.
  intros [A1 A2 A3 A4 A5 A6 A7] Eob Hpark Hshare m2 m3.
  destruct (tv_idle_stamps (o_snap (m_prev m)) (o_snap ob) m2) as (S1 & S2 & S3 & S4).
  destruct (tv_fold_offer ob (rev (out s')) mc) as (O2 & O3 & O4).
  fold m2 in O2, O3, O4. fold m3 in S1, S2, S3, S4.
  assert (Hoff : forall c, (rdy s' c -> off m3 c = foff ob mc c) /\ (~ rdy s' c -> off m3 c = off mc c)).
  { intros c. destruct (off_fold_offer ob (rev (out s')) mc c) as (_ & I1 & N1). fold m2 in I1, N1. unfold rdy. split; intros Hc; rewrite S1.
    - apply I1. apply -> in_rev. exact Hc.
    - apply N1. intros Hi. apply Hc. apply in_rev. exact Hi. }
  assert (Hlp : forall r, lp m3 r = lp mc r) by (intros r; rewrite S2; apply O2).
  assert (Hmi : m_i m3 = m_i mc) by (rewrite S3; exact O3).
  assert (Hshr : forall c, shr m3 c = shr mc c) by (intros c; rewrite S4; apply O4).
  assert (Hfo : forall c i0, foff ob mc c = Some i0 -> i0 = m_i mc).
  { intros c i0. unfold foff. destruct (nth_error (m_conns mc) c) as [x|]; [|discriminate]. destruct (_ || _); [discriminate|]. intros E. inversion E. reflexivity. }
  assert (Hdec : forall c, rdy s' c \/ ~ rdy s' c) by (intros c; unfold rdy; destruct (in_dec ev_eq_dec (ERdy c true) (out s')); auto).
  constructor.
  - intros r. change (lp m3 r <= S (S (m_i m3))). rewrite Hlp, Hmi. specialize (A1 r). lia.
  - intros r ck c Hq Hl _ i0 Ho. change (off m3 c = Some i0) in Ho. change (lp m3 r <= S i0). rewrite Hlp.
    destruct (Hoff c) as [Hr Hn]. destruct (Hdec c) as [Hc|Hc].
    + rewrite (Hr Hc) in Ho. rewrite (Hfo c i0 Ho). apply A1.
    + rewrite (Hn Hc) in Ho. eapply A2; eauto.
  - intros r ck c Hq Hk _. change (off m3 c = None). destruct (Hoff c) as [Hr Hn]. destruct (Hdec c) as [Hc|Hc].
    + rewrite (Hr Hc). unfold foff. destruct (nth_error (m_conns mc) c) as [x|] eqn:Ex; [|reflexivity].
      destruct (ci_share x) eqn:Es; [rewrite orb_true_r; reflexivity|]. exfalso. apply (A5 c Hc (Hshare c x Ex Es) r ck Hq Hk).
    + rewrite (Hn Hc). eapply A3; eauto.
  - intros t c Hi _. change (off m3 c = None). destruct (Hoff c) as [Hr Hn]. destruct (Hdec c) as [Hc|Hc].
    + rewrite (Hr Hc). apply (Hpark t c Hi Hc).
    + rewrite (Hn Hc). eapply A4; eauto.
  - intros c [].
  - intros c Hs. change (shr m3 c = true) in Hs. change (off m3 c = None). rewrite Hshr in Hs. destruct (Hoff c) as [Hr Hn]. destruct (Hdec c) as [Hc|Hc].
    + rewrite (Hr Hc). unfold foff. unfold shr in Hs. destruct (nth_error (m_conns mc) c) as [x|]; [|reflexivity]. rewrite Hs, orb_true_r. reflexivity.
    + rewrite (Hn Hc). apply A6. exact Hs.
  - intros _ c b [].
Qed.

End ATrk.
