(* C14 support, part 2 (clause (a1)): in every reachable state no token has both an idle connection and
   a queued waiter ([TD]); and what the snapshot shows of a token ([idle_of], [live_of]). *)
From HD Require Import common.Base http.Model pool.Model pool.Spec pool.Frames pool.BaseC14.
Local Open Scope list_scope.

Definition tdp (p : ptok) : Prop := p_idle p = [] \/ p_waiting p = [].
Definition TD (s : state) : Prop := Forall tdp (toks s).

Lemma Forall_upd {A} (P : A -> Prop) (f : A -> A) : forall l n,
  Forall P l -> (forall x, nth_error l n = Some x -> P x -> P (f x)) -> Forall P (upd_nth n f l).
Proof.
  induction l as [|x l IH]; intros [|n] H Hf; cbn [upd_nth]; auto; inversion H; subst; constructor; auto.
Qed.

Lemma TD_frame s s' : toks s' = toks s -> TD s -> TD s'.
Proof. unfold TD. intros ->. auto. Qed.

Lemma TD_get_tok s t : TD s -> tdp (get_tok s t).
Proof.
  intros H. destruct t as [|i]; cbn [get_tok]; [left; reflexivity|].
  unfold TD in H. rewrite Forall_forall in H.
  destruct (nth_in_or_default i (toks s) empty_tok) as [Hin|Hd]; [apply H, Hin|rewrite Hd; left; reflexivity].
Qed.

Lemma TD_upd_tok t f s : TD s -> (tdp (get_tok s t) -> tdp (f (get_tok s t))) -> TD (upd_tok t f s).
Proof.
  intros H Hf. destruct t as [|i]; [exact H|]. unfold TD. cbn [upd_tok toks set_toks].
  apply Forall_upd; [exact H|]. intros x Hx Hp. cbn [get_tok] in Hf. rewrite (nth_error_nth _ _ _ Hx) in Hf. auto.
Qed.

Lemma get_tok_upd_same t f s : t <> 0 -> t <= List.length (toks s) -> get_tok (upd_tok t f s) t = f (get_tok s t).
Proof.
  destruct t as [|i]; [contradiction|]. intros _ Hl. cbn [get_tok upd_tok toks set_toks].
  rewrite nth_upd, Nat.eqb_refl. destruct (Nat.ltb_spec i (List.length (toks s))); [reflexivity|lia].
Qed.

(* the waiter walk: if the connection was not moved, nothing is left in the queue *)
Lemma walk_not_moved t c sh ws : forall s, snd (fst (walk_waiters t c sh ws s)) = false -> fst (fst (walk_waiters t c sh ws s)) = [].
Proof.
  induction ws as [|[w b] ws IH]; intros s; cbn [walk_waiters]; [reflexivity|].
  destruct (rx_live s w); [destruct sh|]; cbn [fst snd]; try discriminate; apply IH.
Qed.

Lemma get_tok_upd t f s : get_tok (upd_tok t f s) t = f (get_tok s t) \/ get_tok (upd_tok t f s) t = empty_tok.
Proof.
  destruct t as [|i]; [right; reflexivity|]. cbn [get_tok upd_tok toks set_toks]. rewrite nth_upd, Nat.eqb_refl.
  destruct (Nat.ltb_spec i (List.length (toks s))); auto.
Qed.

Lemma get_tok_frame s s' t : toks s' = toks s -> get_tok s' t = get_tok s t.
Proof. intros H. destruct t; cbn [get_tok]; [reflexivity|]. rewrite H. reflexivity. Qed.

Lemma TD_pool_push n t c s : TD s -> TD (pool_push n t c s).
Proof.
  intros H. unfold pool_push.
  set (s1 := if share_of s c then upd_tok t (set_marker None) s else s).
  assert (H1 : TD s1) by (subst s1; destruct (share_of s c); [apply TD_upd_tok; auto|exact H]).
  pose proof (toks_walk_waiters t c (share_of s1 c) (p_waiting (get_tok s1 t)) s1) as Hf.
  pose proof (walk_not_moved t c (share_of s1 c) (p_waiting (get_tok s1 t)) s1) as Hnm.
  destruct (walk_waiters t c (share_of s1 c) (p_waiting (get_tok s1 t)) s1) as [[rest moved] s2] eqn:Hw.
  cbn [fst snd] in Hf, Hnm.
  assert (H2 : TD s2) by (eapply TD_frame; eauto).
  assert (H3 : TD (upd_tok t (set_waiting rest) s2)).
  { apply TD_upd_tok; [exact H2|]. rewrite (get_tok_frame s1 s2 t Hf). intros [Hi|Hwt]; [left; exact Hi|].
    right. cbn [set_waiting p_waiting]. rewrite Hwt in Hw. cbn [walk_waiters] in Hw. inversion Hw; reflexivity. }
  destruct moved; [exact H3|]. specialize (Hnm eq_refl). subst rest.
  match goal with |- TD (if ?b then _ else _) => destruct b end.
  - apply TD_upd_tok; [exact H3|]. intros _. right. cbn [set_idle p_waiting].
    destruct (get_tok_upd t (set_waiting []) s2) as [-> | ->]; reflexivity.
  - eapply TD_frame; [apply toks_drop_conn|exact H3].
Qed.

Lemma release_pending_nil s : fst (release_pending [] s) = []. Proof. reflexivity. Qed.

Lemma TD_pool_cancel t rid s : TD s -> TD (pool_cancel t rid s).
Proof.
  intros H. unfold pool_cancel. destruct (p_marker (get_tok s t)) as [o|]; [|exact H].
  destruct (Nat.eqb o rid); [|exact H].
  set (s1 := upd_tok t (set_marker None) s).
  assert (H1 : TD s1) by (apply TD_upd_tok; auto).
  pose proof (toks_release_pending (p_waiting (get_tok s1 t)) s1) as Hf.
  destruct (release_pending (p_waiting (get_tok s1 t)) s1) as [rest s2] eqn:Hr. cbn [snd] in Hf.
  apply TD_upd_tok; [eapply TD_frame; eauto|]. rewrite (get_tok_frame s1 s2 t Hf).
  intros [Hi|Hwt]; [left; exact Hi|]. right. cbn [set_waiting p_waiting]. rewrite Hwt in Hr. cbn in Hr. inversion Hr; reflexivity.
Qed.

(* a pop that returns nothing has emptied the list *)
Lemma pop_loop_none thr rl : forall s rest s', pop_loop thr rl s = (None, rest, s') -> rest = [].
Proof.
  induction rl as [|[c a] rl IH]; intros s rest s' H; cbn [pop_loop] in H.
  - inversion H; reflexivity.
  - destruct (match thr with Some y => (a <? y)%N | None => false end); [inversion H; reflexivity|].
    destruct (is_open s c); [discriminate|]. eapply IH; eauto.
Qed.

Lemma TD_pool_pop to t s r s' : TD s -> pool_pop to t s = (r, s') ->
  TD s' /\ (r = None -> p_idle (get_tok s' t) = []).
Proof.
  intros H Hp. unfold pool_pop in Hp.
  pose proof (toks_pop_loop (expiry_threshold to (now s)) (rev (p_idle (get_tok s t))) s) as Hf.
  destruct (pop_loop (expiry_threshold to (now s)) (rev (p_idle (get_tok s t))) s) as [[r0 rest] s1] eqn:Hl.
  cbn [snd] in Hf. inversion Hp; subst; clear Hp. split.
  - apply TD_upd_tok; [eapply TD_frame; eauto|]. rewrite (get_tok_frame s s1 t Hf).
    intros [Hi|Hwt]; [|right; exact Hwt]. left. cbn [set_idle p_idle]. rewrite Hi in Hl. cbn in Hl. inversion Hl; reflexivity.
  - intros ->. apply pop_loop_none in Hl. subst rest.
    destruct (get_tok_upd t (set_idle (rev [])) s1) as [-> | ->]; reflexivity.
Qed.

Lemma TD_key_insert k s t s' : TD s -> key_insert k s = (t, s') -> TD s'.
Proof.
  intros H Hk. unfold key_insert in Hk. destruct (find_key k (keys s) 1).
  - inversion Hk; subst; exact H.
  - inversion Hk; subst. unfold TD in *. cbn. apply Forall_app. split; [exact H|]. constructor; [left; reflexivity|constructor].
Qed.

Lemma TD_register cfg t c s : TD s -> TD (snd (register cfg t c s)).
Proof.
  intros H. unfold register.
  destruct (g_pool cfg && negb (t =? 0)); [destruct (share_of s c)|]; cbn [snd]; auto.
  destruct (is_open s c); [|exact H]. apply TD_pool_push. eapply TD_frame; [apply toks_clone_conn|exact H].
Qed.
Lemma TD_rx_drop ck s : TD s -> TD (snd (rx_drop ck s)).
Proof. intros H. eapply TD_frame; [apply toks_rx_drop|exact H]. Qed.
Lemma TD_connector_poll rid b s : TD s -> TD (snd (connector_poll rid b s)).
Proof. intros H. eapply TD_frame; [apply toks_connector_poll|exact H]. Qed.

Lemma TD_checkout_poll cfg rid ck s : TD s -> TD (snd (checkout_poll cfg rid ck s)).
Proof.
  intros H. unfold checkout_poll.
  destruct (waiter_poll ck) as [w ck1]. destruct w; cbn [snd]; auto.
  destruct (k_inner ck1); cbn [snd]; auto.
  1: { destruct (k_conn ck1) as [c|]; cbn [snd]; auto.
    pose proof (TD_rx_drop (k_set_conn None ck1) s H) as H2.
    destruct (rx_drop (k_set_conn None ck1) s) as [ck2 s2]. cbn [snd] in H2.
    pose proof (TD_register cfg (k_token ck2) c (set_req rid (RCheckout ck2) s2) H2) as H3.
    destruct (register cfg (k_token ck2) c (set_req rid (RCheckout ck2) s2)) as [p s3]. exact H3. }
  all: pose proof (TD_connector_poll rid ByReq s H) as H1;
      destruct (connector_poll rid ByReq s) as [r s1]; cbn [snd] in H1;
      destruct r as [|res]; cbn [snd]; auto;
      pose proof (TD_rx_drop ck1 s1 H1) as H2;
      destruct (rx_drop ck1 s1) as [ck2 s2]; cbn [snd] in H2;
      destruct res as [c|e]; cbn [snd]; auto;
      pose proof (TD_register cfg (k_token (k_set_inner IConnected ck2)) c (set_req rid (RCheckout (k_set_inner IConnected ck2)) s2) H2) as H3;
      destruct (register cfg (k_token (k_set_inner IConnected ck2)) c (set_req rid (RCheckout (k_set_inner IConnected ck2)) s2)) as [p s3];
      exact H3.
Qed.

Lemma TD_checkout_drop cfg rid ck s : TD s -> TD (checkout_drop cfg rid ck s).
Proof.
  intros H. unfold checkout_drop.
  set (s1 := match k_conn ck with
             | Some c => if is_open s c && (g_pool cfg && negb (k_token ck =? 0)) then pool_push (g_max_idle cfg) (k_token ck) c s else drop_conn c s
             | None => s end).
  assert (H1 : TD s1).
  { subst s1. destruct (k_conn ck) as [c|]; [|exact H].
    destruct (is_open s c && (g_pool cfg && negb (k_token ck =? 0))); [apply TD_pool_push; exact H|].
    eapply TD_frame; [apply toks_drop_conn|exact H]. }
  set (started := match get_dial s1 rid with Some d => match d_stage d with DNew => false | _ => true end | None => false end).
  set (delayed := match k_inner ck with IDelayDrop => started | _ => false end).
  set (s2 := if delayed then spawn (TDelayed rid (k_token ck) (k_owner ck)) s1
             else if g_pool cfg && negb (k_token ck =? 0) && k_owner ck then pool_cancel (k_token ck) rid s1 else s1).
  assert (H2 : TD s2).
  { subst s2. destruct delayed; [exact H1|].
    destruct (g_pool cfg && negb (k_token ck =? 0) && k_owner ck); [apply TD_pool_cancel|]; exact H1. }
  pose proof (TD_rx_drop ck s2 H2) as H3. destruct (rx_drop ck s2) as [ck' s3]. cbn [snd] in H3.
  destruct (k_inner ck); try exact H3. destruct delayed; exact H3.
Qed.

Lemma TD_do_issue cfg u p s : TD s -> TD (do_issue cfg u p s).
Proof.
  intros H. unfold do_issue.
  destruct (nth u (g_uris cfg) None) as [k|]; [|exact H].
  destruct (negb (g_pool cfg)); [exact H|].
  destruct (key_insert k (set_woken (woken s ++ [false]) s)) as [t s1] eqn:Hk.
  assert (H1 : TD s1) by (eapply TD_key_insert; [|exact Hk]; exact H).
  destruct (pool_pop (g_timeout cfg) t s1) as [found s2] eqn:Hp.
  destruct (TD_pool_pop _ _ _ _ _ H1 Hp) as [H2 Hn].
  destruct found; [exact H2|]. specialize (Hn eq_refl).
  set (pend := match p_marker (get_tok s2 t) with Some _ => true | None => false end).
  set (s3 := upd_tok t (fun q => set_waiting (p_waiting q ++ [(List.length (reqs s), pend)]) q) s2).
  assert (H3 : TD s3) by (apply TD_upd_tok; [exact H2|]; intros _; left; exact Hn).
  destruct pend; [exact H3|].
  destruct p; cbn; [exact H3|]. apply TD_upd_tok; auto.
Qed.

Lemma TD_hold_release r p s : TD s -> TD (hold_release r p s).
Proof. intros H. unfold hold_release. eapply TD_frame; [rewrite toks_pooled_drop; reflexivity|exact H]. Qed.

Lemma TD_do_poll cfg r s : TD s -> TD (do_poll cfg r s).
Proof.
  intros H. unfold do_poll. destruct (get_req s r) as [[|ck|p fin pl| |]|]; try exact H.
  - pose proof (TD_checkout_poll cfg r ck (unwake_req r s) H) as H1.
    destruct (checkout_poll cfg r ck (unwake_req r s)) as [[res ck1] s1]. cbn [snd] in H1.
    destruct res as [|[p|e]]; [exact H1| |].
    + destruct (get_conn s1 (fst p)) as [cn|]; apply (TD_checkout_drop cfg r ck1); auto.
    + apply (TD_checkout_drop cfg r ck1); auto.
  - destruct fin; [|exact H]. apply (TD_hold_release r p (set_req r RDone (unwake_req r s))). exact H.
Qed.

Lemma TD_do_cancel cfg r s : TD s -> TD (do_cancel cfg r s).
Proof.
  intros H. unfold do_cancel. destruct (get_req s r) as [[|ck|p fin pl| |]|]; try exact H.
  - apply (TD_checkout_drop cfg r ck (set_req r RCancelled s)); auto.
  - apply (TD_hold_release r p (set_req r RCancelled s)). exact H.
Qed.

Lemma TD_run_task cfg tid s : TD s -> TD (run_task cfg tid s).
Proof.
  intros H. unfold run_task. destruct (nth tid (tasks s) None) as [[c t|rid t own]|]; [| |exact H].
  - destruct (get_conn s c) as [cn|]; [|exact H].
    assert (Hfin : forall s0, TD s0 ->
              TD (if is_open (finish_task tid s0) c && negb (t =? 0) && g_pool cfg
                    then pool_push (g_max_idle cfg) t c (finish_task tid s0) else drop_conn c (finish_task tid s0))).
    { intros s0 H0. destruct (is_open (finish_task tid s0) c && negb (t =? 0) && g_pool cfg).
      - apply TD_pool_push. exact H0.
      - eapply TD_frame; [apply toks_drop_conn|exact H0]. }
    destruct (negb (c_open cn)); [apply Hfin; exact H|].
    destruct (c_share cn || c_ready cn); [apply Hfin; exact H|exact H].
  - pose proof (TD_connector_poll rid (ByTask tid) s H) as H1.
    destruct (connector_poll rid (ByTask tid) s) as [r s1]. cbn [snd] in H1.
    destruct r as [|[c|e]]; [exact H1| |].
    + pose proof (TD_register cfg t c s1 H1) as H2. destruct (register cfg t c s1) as [p s2]. cbn [snd] in H2.
      eapply TD_frame; [apply toks_pooled_drop|].
      destruct (g_pool cfg && negb (t =? 0) && own); [apply (TD_pool_cancel t rid s2 H2)|exact H2].
    + destruct (g_pool cfg && negb (t =? 0) && own); [apply (TD_pool_cancel t rid s1 H1)|exact H1].
Qed.

Lemma TD_bg_loop cfg fuel : forall s, TD s -> TD (bg_loop cfg fuel s).
Proof.
  induction fuel as [|f IH]; intros s H; cbn [bg_loop]; [exact H|].
  destruct (runq s) as [|tid rest]; [exact H|]. apply IH. apply TD_run_task. exact H.
Qed.

Lemma TD_step cfg s o : TD s -> TD (step cfg s o).
Proof.
  intros H. unfold step. assert (H0 : TD (set_out [] s)) by exact H.
  destruct o.
  - apply TD_do_issue; auto.
  - apply TD_do_poll; auto.
  - apply TD_do_cancel; auto.
  - unfold do_finish. destruct (get_req (set_out [] s) r) as [[|ck|p fin pl| |]|]; try exact H0. destruct pl; exact H0.
  - unfold do_upgrade. destruct (get_req (set_out [] s) r) as [[|ck|p fin pl| |]|]; try exact H0.
    eapply TD_frame; [apply toks_drain_conn_waiters|exact H0].
  - unfold do_dial_done. destruct (get_dial (set_out [] s) r) as [d|]; [|exact H0].
    destruct (d_stage d); try exact H0. eapply TD_frame; [apply toks_wake_poller|exact H0].
  - unfold do_conn_ready. destruct (get_conn (set_out [] s) c); [|exact H0]. eapply TD_frame; [apply toks_drain_conn_waiters|exact H0].
  - unfold do_conn_close. destruct (get_conn (set_out [] s) c); [|exact H0]. eapply TD_frame; [apply toks_drain_conn_waiters|exact H0].
  - unfold do_bg. apply TD_bg_loop; auto.
  - exact H0.
Qed.

Lemma TD_init : TD init. Proof. constructor. Qed.

(* ------------------------------------------------------------------ what the snapshot shows *)
Definition snap_at (s : state) (t : nat) (p : ptok) : snap :=
  mkSnap t (map fst (p_idle p)) (count_live s (p_waiting p)) (List.length (p_waiting p) - count_live s (p_waiting p))
         (match p_marker p with Some _ => true | None => false end).
Definition triv (p : ptok) : bool :=
  match p_idle p, p_waiting p, p_marker p with [], [], None => true | _, _, _ => false end.

Lemma snaps_from_cons s t p rest :
  snaps_from s t (p :: rest) = if triv p then snaps_from s (S t) rest else snap_at s t p :: snaps_from s (S t) rest.
Proof. cbn [snaps_from]. unfold triv, snap_at. destruct (p_idle p), (p_waiting p), (p_marker p); reflexivity. Qed.

Lemma snap_of_from s : forall l t0 t,
  snap_of (snaps_from s t0 l) t =
  if Nat.leb t0 t then match nth_error l (t - t0) with
                       | Some p => if triv p then None else Some (snap_at s t p)
                       | None => None end
  else None.
Proof.
  induction l as [|p rest IH]; intros t0 t.
  - cbn. destruct (t0 <=? t); [destruct (t - t0)|]; reflexivity.
  - rewrite snaps_from_cons.
    assert (Htail : snap_of (snaps_from s (S t0) rest) t =
                    if S t0 <=? t then match nth_error rest (t - S t0) with
                                       | Some p => if triv p then None else Some (snap_at s t p) | None => None end else None) by apply IH.
    destruct (Nat.leb_spec t0 t) as [Hle|Hgt].
    + destruct (Nat.eq_dec t t0) as [->|Hne].
      * rewrite Nat.sub_diag. cbn [nth_error]. destruct (triv p) eqn:Et.
        -- rewrite Htail. destruct (Nat.leb_spec (S t0) t0); [lia|reflexivity].
        -- unfold snap_of. cbn [find snap_at sn_token]. rewrite Nat.eqb_refl. reflexivity.
      * assert (Hs : t - t0 = S (t - S t0)) by lia. rewrite Hs. cbn [nth_error].
        destruct (Nat.leb_spec (S t0) t) as [_|]; [|lia].
        destruct (triv p); [exact Htail|].
        unfold snap_of in *. cbn [find snap_at sn_token]. destruct (Nat.eqb_spec t0 t); [lia|]. exact Htail.
    + destruct (Nat.leb_spec (S t0) t) as [|_]; [lia|].
      destruct (triv p); [exact Htail|].
      unfold snap_of in *. cbn [find snap_at sn_token]. destruct (Nat.eqb_spec t0 t); [lia|]. exact Htail.
Qed.

Lemma snap_of_snapshot s t :
  snap_of (snapshot s) t = if triv (get_tok s t) then None else Some (snap_at s t (get_tok s t)).
Proof.
  unfold snapshot. rewrite snap_of_from. destruct t as [|i]; [reflexivity|].
  cbn [Nat.leb]. replace (S i - 1) with i by lia. cbn [get_tok].
  destruct (nth_error (toks s) i) as [p|] eqn:E.
  - rewrite (nth_error_nth _ _ _ E). reflexivity.
  - rewrite nth_overflow by (apply nth_error_None; exact E). reflexivity.
Qed.

Lemma triv_idle p : triv p = true -> p_idle p = [] /\ p_waiting p = [].
Proof. unfold triv. destruct (p_idle p), (p_waiting p), (p_marker p); try discriminate; auto. Qed.

Lemma idle_of_snapshot s t : idle_of (snapshot s) t = map fst (p_idle (get_tok s t)).
Proof.
  unfold idle_of. rewrite snap_of_snapshot. destruct (triv (get_tok s t)) eqn:E; [|reflexivity].
  destruct (triv_idle _ E) as [-> _]. reflexivity.
Qed.
Lemma live_of_snapshot s t : live_of (snapshot s) t = count_live s (p_waiting (get_tok s t)).
Proof.
  unfold live_of. rewrite snap_of_snapshot. destruct (triv (get_tok s t)) eqn:E; [|reflexivity].
  destruct (triv_idle _ E) as [_ ->]. reflexivity.
Qed.

(* clause (a1), state level: nothing is parked while somebody waits *)
Lemma TD_a1 s c t : TD s -> mem c (idle_of (snapshot s) t) && Nat.ltb 0 (live_of (snapshot s) t) = false.
Proof.
  intros H. rewrite idle_of_snapshot, live_of_snapshot. destruct (TD_get_tok s t H) as [-> | ->]; [reflexivity|].
  cbn. apply andb_false_r.
Qed.
