(* Frame lemmas for M-POOL: which state components each primitive leaves alone. *)
From HD Require Import common.Base http.Model pool.Model.
Local Open Scope list_scope.

Ltac dm :=
  repeat match goal with
         | |- context [match ?x with _ => _ end] => destruct x eqn:?
         | |- context [if ?x then _ else _] => destruct x eqn:?
         end.

(* ---------------------------------------------------------------- toks *)
Lemma toks_emit e s : toks (emit e s) = toks s. Proof. reflexivity. Qed.
Lemma toks_upd_conn c f s : toks (upd_conn c f s) = toks s. Proof. reflexivity. Qed.
Lemma toks_set_req r v s : toks (set_req r v s) = toks s. Proof. reflexivity. Qed.
Lemma toks_upd_dial r f s : toks (upd_dial r f s) = toks s. Proof. reflexivity. Qed.
Lemma toks_wake_req r s : toks (wake_req r s) = toks s. Proof. reflexivity. Qed.
Lemma toks_unwake_req r s : toks (unwake_req r s) = toks s. Proof. reflexivity. Qed.
Lemma toks_spawn t s : toks (spawn t s) = toks s. Proof. reflexivity. Qed.
Lemma toks_finish_task t s : toks (finish_task t s) = toks s. Proof. reflexivity. Qed.
Lemma toks_wake_task t s : toks (wake_task t s) = toks s.
Proof. unfold wake_task. dm; reflexivity. Qed.
Lemma toks_wake_poller p r s : toks (wake_poller p r s) = toks s.
Proof. unfold wake_poller. dm; try reflexivity. apply toks_wake_task. Qed.
Lemma toks_drop_conn c s : toks (drop_conn c s) = toks s.
Proof. unfold drop_conn. dm; reflexivity. Qed.
Lemma toks_clone_conn c s : toks (clone_conn c s) = toks s. Proof. reflexivity. Qed.
Lemma toks_pooled_drop p s : toks (pooled_drop p s) = toks s.
Proof. unfold pooled_drop. destruct p. dm; [apply toks_drop_conn | reflexivity]. Qed.
Lemma toks_deliver w p s : toks (deliver w p s) = toks s.
Proof. unfold deliver. dm; reflexivity. Qed.
Lemma toks_drop_sender w s : toks (drop_sender w s) = toks s.
Proof. unfold drop_sender. dm; reflexivity. Qed.
Lemma toks_drop_all l : forall s, toks (drop_all l s) = toks s.
Proof. induction l as [|[c a] l IH]; intros s; cbn [drop_all]; [reflexivity|]. rewrite IH. apply toks_drop_conn. Qed.
Lemma toks_wake_tasks l : forall s, toks (wake_tasks l s) = toks s.
Proof. induction l as [|t l IH]; intros s; cbn [wake_tasks]; [reflexivity|]. rewrite IH. apply toks_wake_task. Qed.
Lemma toks_drain_conn_waiters c s : toks (drain_conn_waiters c s) = toks s.
Proof. unfold drain_conn_waiters. dm; [|reflexivity]. rewrite toks_wake_tasks. reflexivity. Qed.
Lemma toks_walk_waiters t c sh ws : forall s, toks (snd (walk_waiters t c sh ws s)) = toks s.
Proof.
  induction ws as [|[w b] ws IH]; intros s; cbn [walk_waiters]; [reflexivity|].
  destruct (rx_live s w); [destruct sh|].
  - rewrite IH, toks_deliver. reflexivity.
  - cbn [snd]. apply toks_deliver.
  - apply IH.
Qed.
Lemma toks_release_pending ws : forall s, toks (snd (release_pending ws s)) = toks s.
Proof.
  induction ws as [|[w b] ws IH]; intros s; cbn [release_pending]; [reflexivity|].
  destruct b.
  - rewrite IH. apply toks_drop_sender.
  - specialize (IH s). destruct (release_pending ws s). exact IH.
Qed.
Lemma toks_pop_loop thr rl : forall s, toks (snd (pop_loop thr rl s)) = toks s.
Proof.
  induction rl as [|[c a] rl IH]; intros s; cbn [pop_loop]; [reflexivity|].
  dm; cbn [snd].
  - rewrite toks_drop_all. apply toks_drop_conn.
  - reflexivity.
  - rewrite IH. apply toks_drop_conn.
Qed.
Lemma toks_connector_poll rid b s : toks (snd (connector_poll rid b s)) = toks s.
Proof. unfold connector_poll. dm; reflexivity. Qed.
Lemma toks_rx_drop ck s : toks (snd (rx_drop ck s)) = toks s.
Proof. unfold rx_drop. dm; cbn [snd]; try reflexivity; apply toks_pooled_drop. Qed.
