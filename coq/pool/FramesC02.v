(* C02 support: occupancy lists of connection ids, the tracker/model invariant [I] and the
   step relation [trans] with its preservation lemma.  See pool/ProofsC02.v. *)
From HD Require Import common.Base http.Model pool.Model pool.Spec.
Local Open Scope list_scope.

(* ---------------------------------------------------------------- upd_nth *)
Lemma upd_nth_length {A} (g : A -> A) : forall l r, List.length (upd_nth r g l) = List.length l.
Proof. induction l as [|a l IH]; intros [|r]; cbn [upd_nth List.length]; auto. Qed.

Lemma nth_error_upd_nth_eq {A} (g : A -> A) : forall l r q,
  nth_error l r = Some q -> nth_error (upd_nth r g l) r = Some (g q).
Proof.
  induction l as [|a l IH]; intros [|r] q H; cbn in *; try discriminate.
  - inversion H; reflexivity.
  - apply IH; exact H.
Qed.

Lemma nth_error_upd_nth_neq {A} (g : A -> A) : forall l r r',
  r <> r' -> nth_error (upd_nth r g l) r' = nth_error l r'.
Proof.
  induction l as [|a l IH]; intros [|r] [|r'] H; cbn; auto; try congruence.
Qed.

Lemma upd_nth_none {A} (g : A -> A) : forall l r, nth_error l r = None -> upd_nth r g l = l.
Proof.
  induction l as [|a l IH]; intros [|r] H; cbn in *; auto; try discriminate.
  f_equal. apply IH; exact H.
Qed.

Lemma upd_nth_twice {A} (g h : A -> A) : forall l r,
  upd_nth r g (upd_nth r h l) = upd_nth r (fun a => g (h a)) l.
Proof. induction l as [|a l IH]; intros [|r]; cbn; auto. f_equal. apply IH. Qed.

Lemma nth_error_upd_nth_inv {A} (g : A -> A) l r r' q' :
  nth_error (upd_nth r g l) r' = Some q' ->
  (r = r' /\ exists q, nth_error l r = Some q /\ q' = g q) \/ (r <> r' /\ nth_error l r' = Some q').
Proof.
  intros H. destruct (Nat.eq_dec r r') as [->|Hn].
  - left. split; [reflexivity|]. destruct (nth_error l r') as [q|] eqn:E.
    + exists q. split; [reflexivity|]. rewrite (nth_error_upd_nth_eq g l r' q E) in H. inversion H; reflexivity.
    + rewrite (upd_nth_none g l r' E), E in H. discriminate.
  - right. split; [exact Hn|]. rewrite nth_error_upd_nth_neq in H by exact Hn. exact H.
Qed.

(* ---------------------------------------------------------------- counting *)
Definition cnt (l : list nat) (c : nat) : nat := count_occ Nat.eq_dec l c.

Lemma cnt_app l1 l2 c : cnt (l1 ++ l2) c = cnt l1 c + cnt l2 c.
Proof. apply count_occ_app. Qed.
Lemma cnt_nil c : cnt [] c = 0. Proof. reflexivity. Qed.
Lemma cnt_cons a l c : cnt (a :: l) c = (if Nat.eq_dec a c then 1 else 0) + cnt l c.
Proof. unfold cnt. cbn. destruct (Nat.eq_dec a c); reflexivity. Qed.
Lemma cnt_one a c : cnt [a] c = if Nat.eq_dec a c then 1 else 0.
Proof. rewrite cnt_cons, cnt_nil. lia. Qed.
Lemma cnt_pos_In l c : 0 < cnt l c <-> In c l.
Proof. unfold cnt. split; intros H; apply (count_occ_In Nat.eq_dec); exact H. Qed.

Lemma cnt_flat_map_app {A} (f : A -> list nat) l1 l2 c :
  cnt (flat_map f (l1 ++ l2)) c = cnt (flat_map f l1) c + cnt (flat_map f l2) c.
Proof. rewrite flat_map_app. apply cnt_app. Qed.

Lemma cnt_flat_map_upd {A} (f : A -> list nat) (g : A -> A) c : forall l r q,
  nth_error l r = Some q ->
  cnt (flat_map f (upd_nth r g l)) c + cnt (f q) c = cnt (flat_map f l) c + cnt (f (g q)) c.
Proof.
  induction l as [|a l IH]; intros [|r] q H; cbn in *; try discriminate.
  - inversion H; subst. rewrite !cnt_app. lia.
  - rewrite !cnt_app. specialize (IH r q H). lia.
Qed.

Lemma cnt_flat_map_nth {A} (f : A -> list nat) c : forall l r q,
  nth_error l r = Some q -> cnt (f q) c <= cnt (flat_map f l) c.
Proof.
  induction l as [|a l IH]; intros [|r] q H; cbn in *; try discriminate.
  - inversion H; subst. rewrite cnt_app. lia.
  - rewrite cnt_app. specialize (IH r q H). lia.
Qed.

(* ---------------------------------------------------------------- occupancy *)
Definition oconn (o : option nat) : list nat := match o with Some c => [c] | None => [] end.
Definition oslot (o : option pooled) : list nat := match o with Some p => [fst p] | None => [] end.
Definition ck_conns (ck : checkout) : list nat := oslot (k_slot ck) ++ oconn (k_conn ck).
Definition reqA (q : req) : list nat := match q with RCheckout ck => ck_conns ck | _ => [] end.
Definition reqH (q : req) : list nat := match q with RHolding p _ _ => [fst p] | _ => [] end.
Definition taskT (t : option task) : list nat := match t with Some (TWhenReady c _) => [c] | _ => [] end.
Definition tokA (p : ptok) : list nat := map fst (p_idle p).
(* the request list with request [x] (the one being polled: its checkout is a local value) blanked *)
Definition reqs_x (x : option nat) (s : state) : list req :=
  match x with Some r => upd_nth r (fun _ => RDone) (reqs s) | None => reqs s end.
Definition LA x s : list nat := flat_map tokA (toks s) ++ flat_map reqA (reqs_x x s).   (* P1 P2 P3 *)
Definition LH x s : list nat := flat_map reqH (reqs_x x s).                           (* P4 *)
Definition LT s : list nat := flat_map taskT (tasks s).                               (* P5 *)

(* what a step may do to an existing connection record *)
Definition cle (a b : conn) : Prop :=
  c_share b = c_share a /\ c_holders b = c_holders a /\ (c_open b = true -> c_open a = true).
Lemma cle_refl a : cle a a. Proof. repeat split; auto. Qed.
Lemma cle_trans a b c : cle a b -> cle b c -> cle a c.
Proof. intros (A1 & A2 & A3) (B1 & B2 & B3). repeat split; try congruence. auto. Qed.

Definition rkind (q q' : req) : Prop :=
  match q with
  | RHolding p _ _ => exists f pl, q' = RHolding p f pl
  | RCheckout _ => exists ck, q' = RCheckout ck
  | _ => True
  end.
Lemma rkind_refl q : rkind q q.
Proof. destruct q; cbn; eauto. Qed.
Lemma rkind_trans a b c : rkind a b -> rkind b c -> rkind a c.
Proof. destruct a; cbn; auto; intros (x & y) H; subst; cbn in H; try destruct y as (y & ->); exact H. Qed.

(* events that cannot hurt the invariant and are not judged by the monitor *)
Definition soft (e : ev) : Prop :=
  match e with ENew _ _ _ | EHand _ _ _ _ _ _ => False | _ => True end.

(* availability of a connection (tracker and model) *)
Definition Av (m : mst) (s : state) (c : nat) : Prop :=
  exists ci cn, nth_error (m_conns m) c = Some ci /\ get_conn s c = Some cn /\
    c_holders cn = 0 /\ ci_holder ci = None /\ ci_rel_ready ci = true /\ ci_upgraded ci = false.
Definition Tv (m : mst) (s : state) (c : nat) : Prop :=
  exists ci cn, nth_error (m_conns m) c = Some ci /\ get_conn s c = Some cn /\
    c_holders cn = 0 /\ ci_holder ci = None.
Lemma Av_Tv m s c : Av m s c -> Tv m s c.
Proof. intros (ci & cn & H1 & H2 & H3 & H4 & _). exists ci, cn. auto. Qed.

Record I (x : option nat) (F : list nat) (m : mst) (s : state) : Prop := mkI {
  I_len : List.length (m_conns m) = List.length (conns s);
  I_share : forall c ci cn, nth_error (m_conns m) c = Some ci -> get_conn s c = Some cn -> ci_share ci = c_share cn;
  I_lin : forall c, share_of s c = false -> cnt (LA x s) c + cnt (LH x s) c + cnt (LT s) c + cnt F c <= 1;
  I_A : forall c, share_of s c = false -> 0 < cnt (LA x s) c + cnt F c -> Av m s c;
  I_H : forall c, share_of s c = false -> 0 < cnt (LH x s) c -> exists cn, get_conn s c = Some cn /\ c_holders cn = 1;
  I_T : forall c, share_of s c = false -> 0 < cnt (LT s) c -> Tv m s c;
  I_U : forall c ci cn, nth_error (m_conns m) c = Some ci -> get_conn s c = Some cn -> ci_upgraded ci = true -> c_open cn = false;
  I_HR : forall r ri c, nth_error (m_reqs m) r = Some ri -> ri_stat ri = SHeld c ->
           x <> Some r /\ exists t f p, get_req s r = Some (RHolding (c, t) f p);
  I_X : forall r, x = Some r -> r < List.length (reqs s)
}.

(* what soft events may do to the tracker *)
Record msoft (m m' : mst) : Prop := mkMs {
  ms_len : List.length (m_conns m') = List.length (m_conns m);
  ms_ci : forall c ci, nth_error (m_conns m) c = Some ci -> exists ci', nth_error (m_conns m') c = Some ci' /\
            ci_share ci' = ci_share ci /\ ci_upgraded ci' = ci_upgraded ci /\
            (ci_holder ci = None -> ci_holder ci' = None) /\ (ci_rel_ready ci = true -> ci_rel_ready ci' = true);
  ms_ri : forall r ri' c, nth_error (m_reqs m') r = Some ri' -> ri_stat ri' = SHeld c ->
            exists ri, nth_error (m_reqs m) r = Some ri /\ ri_stat ri = SHeld c
}.
Lemma msoft_refl m : msoft m m.
Proof. constructor; eauto. intros c ci H. exists ci. auto. Qed.
Lemma msoft_trans a b c : msoft a b -> msoft b c -> msoft a c.
Proof.
  intros [L1 C1 R1] [L2 C2 R2]. constructor.
  - congruence.
  - intros k ci H. destruct (C1 k ci H) as (ci1 & H1 & S1 & U1 & Ho1 & Rr1).
    destruct (C2 k ci1 H1) as (ci2 & H2 & S2 & U2 & Ho2 & Rr2). exists ci2. repeat split; try congruence; auto.
  - intros r ri' k H Hs. destruct (R2 r ri' k H Hs) as (ri1 & H1 & Hs1). eauto.
Qed.

Lemma msoft_ri_upd f r m :
  (forall x c, ri_stat (f x) = SHeld c -> ri_stat x = SHeld c) -> msoft m (ri_upd f r m).
Proof.
  intros Hf. constructor; cbn [ri_upd set_m_reqs m_conns m_reqs]; auto.
  - intros c ci H. exists ci. auto.
  - intros r' ri' c H Hs. apply nth_error_upd_nth_inv in H. destruct H as [(-> & q & Hq & ->)|(Hn & H)]; eauto.
Qed.

Lemma msoft_ci_upd f c m :
  (forall x, ci_share (f x) = ci_share x /\ ci_upgraded (f x) = ci_upgraded x /\
             (ci_holder x = None -> ci_holder (f x) = None) /\ (ci_rel_ready x = true -> ci_rel_ready (f x) = true)) ->
  msoft m (ci_upd f c m).
Proof.
  intros Hf. constructor; cbn [ci_upd set_m_conns m_conns m_reqs]; eauto.
  - apply upd_nth_length.
  - intros c' ci H. destruct (Nat.eq_dec c c') as [->|Hn].
    + exists (f ci). split; [apply nth_error_upd_nth_eq; exact H|]. apply Hf.
    + exists ci. rewrite nth_error_upd_nth_neq by exact Hn. auto.
Qed.

Lemma msoft_track_ev m e : soft e -> msoft m (track_ev m e).
Proof.
  destruct e; cbn [soft track_ev]; intros Hs; try contradiction.
  - apply msoft_ri_upd. auto.
  - apply msoft_ri_upd. auto.
  - assert (H1 : msoft m (ri_upd (fun y => set_ri_pend false (set_ri_stat SDone y)) r m))
      by (apply msoft_ri_upd; cbn; intros; discriminate).
    destruct x as [|[| | |]]; try exact H1; (eapply msoft_trans; [exact H1|apply msoft_ri_upd; auto]).
  - apply msoft_ci_upd. intros x. cbn. auto.
  - apply msoft_ci_upd. intros x. cbn. auto.
  - destruct ok; [|apply msoft_refl]. apply msoft_ci_upd. intros x. cbn. auto.
Qed.

Lemma msoft_fold es : forall m, Forall soft es -> msoft m (fold_left track_ev es m).
Proof.
  induction es as [|e es IH]; intros m H; cbn [fold_left]; [apply msoft_refl|].
  inversion H; subst. apply (msoft_trans _ (track_ev m e)); [apply msoft_track_ev; assumption|apply IH; assumption].
Qed.

(* tracker after the events emitted so far in this op *)
Definition tm (m0 : mst) (s : state) : mst := fold_left track_ev (rev (out s)) m0.

Lemma tm_app m0 s s' es : out s' = es ++ out s -> tm m0 s' = fold_left track_ev (rev es) (tm m0 s).
Proof. intros H. unfold tm. rewrite H, rev_app_distr, fold_left_app. reflexivity. Qed.

Lemma tm_soft m0 s s' es : out s' = es ++ out s -> Forall soft es -> msoft (tm m0 s) (tm m0 s').
Proof.
  intros H Hs. rewrite (tm_app m0 s s' es H). apply msoft_fold.
  apply Forall_forall. intros e He. rewrite Forall_forall in Hs. apply Hs. apply in_rev. exact He.
Qed.

Lemma evs_ok_app f es1 : forall m es2,
  evs_ok f m (es1 ++ es2) = evs_ok f m es1 && evs_ok f (fold_left track_ev es1 m) es2.
Proof.
  induction es1 as [|e es1 IH]; intros m es2; cbn [app evs_ok fold_left]; [reflexivity|].
  rewrite IH. apply andb_assoc.
Qed.

Lemma evs_ok_soft es : forall m, Forall soft es -> evs_ok chk_ev_C02 m es = true.
Proof.
  induction es as [|e es IH]; intros m H; cbn [evs_ok]; [reflexivity|]. inversion H; subst.
  rewrite IH by assumption. destruct e; cbn in *; try reflexivity; contradiction.
Qed.

Lemma msoft_bwd m m' c ci' : msoft m m' -> nth_error (m_conns m') c = Some ci' ->
  exists ci, nth_error (m_conns m) c = Some ci /\ ci_share ci' = ci_share ci /\ ci_upgraded ci' = ci_upgraded ci /\
    (ci_holder ci = None -> ci_holder ci' = None) /\ (ci_rel_ready ci = true -> ci_rel_ready ci' = true).
Proof.
  intros [L C R] H. destruct (nth_error (m_conns m) c) as [ci|] eqn:E.
  - destruct (C c ci E) as (ci2 & H2 & P). rewrite H in H2. inversion H2; subst. exists ci. auto.
  - apply nth_error_None in E. assert (c < List.length (m_conns m')) by (apply nth_error_Some; congruence). lia.
Qed.

Lemma Av_msoft m m' s c : msoft m m' -> Av m s c -> Av m' s c.
Proof.
  intros Hm (ci & cn & H1 & H2 & H3 & H4 & H5 & H6).
  destruct (ms_ci _ _ Hm c ci H1) as (ci' & G1 & G2 & G3 & G4 & G5).
  exists ci', cn. repeat split; auto. congruence.
Qed.
Lemma Tv_msoft m m' s c : msoft m m' -> Tv m s c -> Tv m' s c.
Proof.
  intros Hm (ci & cn & H1 & H2 & H3 & H4).
  destruct (ms_ci _ _ Hm c ci H1) as (ci' & G1 & G2 & G3 & G4 & G5).
  exists ci', cn. repeat split; auto.
Qed.

Lemma I_msoft x F m m' s : msoft m m' -> I x F m s -> I x F m' s.
Proof.
  intros Hm [L S Li A H T U HR X]. constructor; auto.
  - rewrite (ms_len _ _ Hm). exact L.
  - intros c ci' cn H1 H2. destruct (msoft_bwd _ _ _ _ Hm H1) as (ci & G1 & G2 & _). rewrite G2. eauto.
  - intros c Hs Hp. eapply Av_msoft; eauto.
  - intros c Hs Hp. eapply Tv_msoft; eauto.
  - intros c ci' cn H1 H2 H3. destruct (msoft_bwd _ _ _ _ Hm H1) as (ci & G1 & _ & G3 & _). rewrite G3 in H3. eauto.
  - intros r ri' c H1 H2. destruct (ms_ri _ _ Hm r ri' c H1 H2) as (ri & G1 & G2). eauto.
Qed.

Lemma I_F_mono x F F' m s : (forall c, cnt F' c <= cnt F c) -> I x F m s -> I x F' m s.
Proof.
  intros HF [L S Li A H T U HR X]. constructor; auto.
  - intros c Hs. specialize (Li c Hs). specialize (HF c). lia.
  - intros c Hs Hp. apply A; auto. specialize (HF c). lia.
Qed.

(* ---------------------------------------------------------------- Forall2 cle *)
Lemma F2_fwd : forall l l' c a, Forall2 cle l l' -> nth_error l c = Some a -> exists b, nth_error l' c = Some b /\ cle a b.
Proof.
  intros l l' c a H. revert c. induction H as [|a0 b0 l l' Hab H IH]; intros [|c] E; cbn in *; try discriminate.
  - inversion E; subst. eauto.
  - apply IH; exact E.
Qed.
Lemma F2_bwd : forall l l' c b, Forall2 cle l l' -> nth_error l' c = Some b -> exists a, nth_error l c = Some a /\ cle a b.
Proof.
  intros l l' c b H. revert c. induction H as [|a0 b0 l l' Hab H IH]; intros [|c] E; cbn in *; try discriminate.
  - inversion E; subst. eauto.
  - apply IH; exact E.
Qed.
Lemma F2_refl l : Forall2 cle l l.
Proof. induction l; constructor; auto using cle_refl. Qed.
Lemma F2_trans l1 : forall l2 l3, Forall2 cle l1 l2 -> Forall2 cle l2 l3 -> Forall2 cle l1 l3.
Proof.
  induction l1 as [|a l1 IH]; intros l2 l3 H1 H2; inversion H1; subst; inversion H2; subst; constructor.
  - eapply cle_trans; eauto.
  - eapply IH; eauto.
Qed.
Lemma F2_upd f c : (forall a, cle a (f a)) -> forall l, Forall2 cle l (upd_nth c f l).
Proof.
  intros Hf l. revert c. induction l as [|a l IH]; intros [|c]; cbn [upd_nth]; try constructor; auto using F2_refl, cle_refl.
Qed.

Lemma F2_length l l' : Forall2 cle l l' -> List.length l = List.length l'.
Proof. induction 1; cbn; auto. Qed.
Lemma share_of_F2 s s' c : Forall2 cle (conns s) (conns s') -> share_of s' c = share_of s c.
Proof.
  intros H. unfold share_of, get_conn. destruct (nth_error (conns s) c) as [a|] eqn:E.
  - destruct (F2_fwd _ _ _ _ H E) as (b & -> & (Hs & _)). exact Hs.
  - destruct (nth_error (conns s') c) as [b|] eqn:E'; [|reflexivity].
    destruct (F2_bwd _ _ _ _ H E') as (a & Ha & _). congruence.
Qed.

(* ---------------------------------------------------------------- the step relation *)
(* [R]: ids taken out of P1-P3 (now in flight); [A]: in-flight ids stored into P1-P3; [B]: in-flight ids
   stored into a hand-back task *)
Record trans (x : option nat) (R A B : list nat) (s s' : state) : Prop := mkT {
  t_conns : Forall2 cle (conns s) (conns s');
  t_A : forall c, share_of s c = false -> cnt (LA x s') c + cnt R c <= cnt (LA x s) c + cnt A c;
  t_H : forall c, share_of s c = false -> cnt (LH x s') c <= cnt (LH x s) c;
  t_T : forall c, share_of s c = false -> cnt (LT s') c <= cnt (LT s) c + cnt B c;
  t_req : forall r q, x <> Some r -> get_req s r = Some q -> exists q', get_req s' r = Some q' /\ rkind q q';
  t_out : exists es, out s' = es ++ out s /\ Forall soft es;
  t_rlen : List.length (reqs s') = List.length (reqs s)
}.

Lemma Av_cle m s s' c : Forall2 cle (conns s) (conns s') -> Av m s c -> Av m s' c.
Proof.
  intros HF (ci & cn & H1 & H2 & H3 & H4). destruct (F2_fwd _ _ _ _ HF H2) as (cn' & G1 & (_ & G2 & _)).
  exists ci, cn'. repeat split; try tauto. congruence.
Qed.
Lemma Tv_cle m s s' c : Forall2 cle (conns s) (conns s') -> Tv m s c -> Tv m s' c.
Proof.
  intros HF (ci & cn & H1 & H2 & H3 & H4). destruct (F2_fwd _ _ _ _ HF H2) as (cn' & G1 & (_ & G2 & _)).
  exists ci, cn'. repeat split; try tauto. congruence.
Qed.

Lemma I_trans_state x R A B F m s s' :
  I x (A ++ B ++ F) m s -> trans x R A B s s' -> I x (R ++ F) m s'.
Proof.
  intros [L S Li IA IH IT U HR X] [TC TA TH TT TR TO TL].
  assert (Hsh : forall c, share_of s' c = false -> share_of s c = false)
    by (intros c; rewrite (share_of_F2 s s' c TC); auto).
  constructor.
  - rewrite L. apply F2_length; exact TC.
  - intros c ci cn' H1 H2. destruct (F2_bwd _ _ _ _ TC H2) as (cn & G1 & (G2 & _)). rewrite G2. eauto.
  - intros c Hs. apply Hsh in Hs. specialize (Li c Hs). specialize (TA c Hs). specialize (TH c Hs). specialize (TT c Hs).
    rewrite !cnt_app in *. lia.
  - intros c Hs Hp. apply Hsh in Hs. apply (Av_cle m s s' c TC). apply IA; [exact Hs|].
    specialize (TA c Hs). rewrite !cnt_app in *. lia.
  - intros c Hs Hp. apply Hsh in Hs. destruct (IH c Hs) as (cn & G1 & G2); [specialize (TH c Hs); lia|].
    destruct (F2_fwd _ _ _ _ TC G1) as (cn' & G3 & (_ & G4 & _)). exists cn'. split; [exact G3|congruence].
  - intros c Hs Hp. apply Hsh in Hs. apply (Tv_cle m s s' c TC). specialize (TT c Hs).
    destruct (Nat.eq_dec (cnt (LT s) c) 0) as [Hz|Hz].
    + apply Av_Tv. apply IA; [exact Hs|]. rewrite !cnt_app. lia.
    + apply IT; [exact Hs|lia].
  - intros c ci cn' H1 H2 H3. destruct (F2_bwd _ _ _ _ TC H2) as (cn & G1 & (_ & _ & G2)).
    specialize (U c ci cn H1 G1 H3). destruct (c_open cn') eqn:E; [|reflexivity]. rewrite G2 in U by reflexivity. discriminate.
  - intros r ri c H1 H2. destruct (HR r ri c H1 H2) as (Hx & t & f & p & G). split; [exact Hx|]. destruct (TR r _ Hx G) as (q' & G1 & (f' & pl' & ->)). eauto.
  - intros r Hr. rewrite TL. auto.
Qed.

Definition G (m0 : mst) (x : option nat) (F : list nat) (s : state) : Prop :=
  evs_ok chk_ev_C02 m0 (rev (out s)) = true /\ I x F (tm m0 s) s.

Lemma G_trans m0 x R A B F s s' : G m0 x (A ++ B ++ F) s -> trans x R A B s s' -> G m0 x (R ++ F) s'.
Proof.
  intros [Hev HI] HT. destruct (t_out _ _ _ _ _ _ HT) as (es & Ho & Hs). split.
  - rewrite Ho, rev_app_distr, evs_ok_app, Hev. cbn [andb]. apply evs_ok_soft.
    apply Forall_forall. intros e He. rewrite Forall_forall in Hs. apply Hs, in_rev, He.
  - eapply I_msoft; [eapply tm_soft; eauto|]. eapply I_trans_state; eauto.
Qed.

Lemma G_F_mono m0 x F F' s : (forall c, cnt F' c <= cnt F c) -> G m0 x F s -> G m0 x F' s.
Proof. intros H [A B]. split; [exact A|]. eapply I_F_mono; eauto. Qed.

(* ---------------------------------------------------------------- algebra of [trans] *)
Lemma trans_comp x R1 A1 B1 R2 A2 B2 s s' s'' :
  trans x R1 A1 B1 s s' -> trans x R2 A2 B2 s' s'' -> trans x (R1 ++ R2) (A1 ++ A2) (B1 ++ B2) s s''.
Proof.
  intros [C1 TA1 TH1 TT1 TR1 (es1 & O1 & S1) L1] [C2 TA2 TH2 TT2 TR2 (es2 & O2 & S2) L2].
  assert (Hsh : forall c, share_of s c = false -> share_of s' c = false)
    by (intros c; rewrite (share_of_F2 s s' c C1); auto).
  constructor.
  - eapply F2_trans; eauto.
  - intros c Hs. specialize (TA1 c Hs). specialize (TA2 c (Hsh c Hs)). rewrite !cnt_app. lia.
  - intros c Hs. specialize (TH1 c Hs). specialize (TH2 c (Hsh c Hs)). lia.
  - intros c Hs. specialize (TT1 c Hs). specialize (TT2 c (Hsh c Hs)). rewrite !cnt_app. lia.
  - intros r q Hx Hq. destruct (TR1 r q Hx Hq) as (q1 & G1 & K1). destruct (TR2 r q1 Hx G1) as (q2 & G2 & K2).
    exists q2. split; [exact G2|]. eapply rkind_trans; eauto.
  - exists (es2 ++ es1). split; [rewrite O2, O1, app_assoc; reflexivity|]. apply Forall_app. auto.
  - congruence.
Qed.

Lemma trans_weak x R A B R' A' B' s s' :
  (forall c, cnt R' c <= cnt R c) -> (forall c, cnt A c <= cnt A' c) -> (forall c, cnt B c <= cnt B' c) ->
  trans x R A B s s' -> trans x R' A' B' s s'.
Proof.
  intros HR HA HB [C TA TH TT TR TO TL]. constructor; auto.
  - intros c Hs. specialize (TA c Hs). specialize (HR c). specialize (HA c). lia.
  - intros c Hs. specialize (TT c Hs). specialize (HB c). lia.
Qed.

Notation quiet x := (trans x [] [] []).

Lemma quiet_refl x s : quiet x s s.
Proof.
  constructor; auto using F2_refl; try (intros c _; lia).
  - intros r q _ H. exists q. split; [exact H|apply rkind_refl].
  - exists []. split; [reflexivity|constructor].
Qed.

Lemma quiet_comp x s s' s'' : quiet x s s' -> quiet x s' s'' -> quiet x s s''.
Proof. intros H1 H2. exact (trans_comp x [] [] [] [] [] [] s s' s'' H1 H2). Qed.

Lemma quiet_trans x R A B s s' s'' : quiet x s s' -> trans x R A B s' s'' -> trans x R A B s s''.
Proof. intros H1 H2. exact (trans_comp x [] [] [] R A B s s' s'' H1 H2). Qed.

Lemma trans_quiet x R A B s s' s'' : trans x R A B s s' -> quiet x s' s'' -> trans x R A B s s''.
Proof.
  intros H1 H2. pose proof (trans_comp x R A B [] [] [] s s' s'' H1 H2) as H. rewrite !app_nil_r in H. exact H.
Qed.

(* a step that touches only connection records (monotonically) and emits soft events *)
Lemma quiet_frame x s s' :
  toks s' = toks s -> reqs s' = reqs s -> tasks s' = tasks s -> Forall2 cle (conns s) (conns s') ->
  (exists es, out s' = es ++ out s /\ Forall soft es) -> quiet x s s'.
Proof.
  intros Ht Hr Hk Hc Ho. constructor; auto.
  - intros c _. unfold LA, reqs_x. rewrite Ht, Hr. lia.
  - intros c _. unfold LH, reqs_x. rewrite Hr. lia.
  - intros c _. unfold LT. rewrite Hk. lia.
  - intros r q _ H. exists q. unfold get_req in *. rewrite Hr. split; [exact H|apply rkind_refl].
  - rewrite Hr. reflexivity.
Qed.

Lemma out_same s s' : out s' = out s -> exists es, out s' = es ++ out s /\ Forall soft es.
Proof. intros H. exists []. split; [exact H|constructor]. Qed.

(* a trans whose stored ids are all shareable is quiet *)
Lemma trans_shared_quiet x A B s s' :
  trans x [] A B s s' -> (forall c, In c (A ++ B) -> share_of s c = true) -> quiet x s s'.
Proof.
  intros [C TA TH TT TR TO TL] Hsh. constructor; auto.
  - intros c Hs. specialize (TA c Hs). assert (cnt A c = 0); [|lia].
    destruct (Nat.eq_dec (cnt A c) 0) as [|Hn]; [assumption|]. assert (Hin : In c A) by (apply cnt_pos_In; lia).
    rewrite Hsh in Hs by (apply in_or_app; auto). discriminate.
  - intros c Hs. specialize (TT c Hs). assert (cnt B c = 0); [|lia].
    destruct (Nat.eq_dec (cnt B c) 0) as [|Hn]; [assumption|]. assert (Hin : In c B) by (apply cnt_pos_In; lia).
    rewrite Hsh in Hs by (apply in_or_app; auto). discriminate.
Qed.

(* ---------------------------------------------------------------- quiet primitives *)
Ltac qframe := apply quiet_frame; try reflexivity; [apply F2_refl | apply out_same; reflexivity].

Lemma quiet_emit x e s : soft e -> quiet x s (emit e s).
Proof.
  intros He. apply quiet_frame; try reflexivity; [apply F2_refl|].
  exists [e]. split; [reflexivity|constructor; [exact He|constructor]].
Qed.
Lemma quiet_upd_conn x c f s : (forall a, cle a (f a)) -> quiet x s (upd_conn c f s).
Proof. intros Hf. apply quiet_frame; try reflexivity; [apply F2_upd; exact Hf|apply out_same; reflexivity]. Qed.
Lemma quiet_upd_dial x r f s : quiet x s (upd_dial r f s). Proof. qframe. Qed.
Lemma quiet_wake_req x r s : quiet x s (wake_req r s). Proof. qframe. Qed.
Lemma quiet_unwake_req x r s : quiet x s (unwake_req r s). Proof. qframe. Qed.
Lemma quiet_set_now x v s : quiet x s (set_now v s). Proof. qframe. Qed.
Lemma quiet_set_woken x v s : quiet x s (set_woken v s). Proof. qframe. Qed.
Lemma quiet_set_runq x v s : quiet x s (set_runq v s). Proof. qframe. Qed.
Lemma quiet_set_out_nil x s : out s = [] -> quiet x s (set_out [] s).
Proof. intros H. apply quiet_frame; try reflexivity; [apply F2_refl|apply out_same; cbn; auto]. Qed.
Lemma quiet_wake_task x t s : quiet x s (wake_task t s).
Proof. unfold wake_task. destruct (existsb (Nat.eqb t) (runq s)); [apply quiet_refl|qframe]. Qed.
Lemma quiet_wake_poller x p r s : quiet x s (wake_poller p r s).
Proof. unfold wake_poller. destruct p as [[|tid]|]; [apply quiet_wake_req|apply quiet_wake_task|apply quiet_refl]. Qed.
Lemma cle_set_refs v a : cle a (c_set_refs v a). Proof. repeat split; auto. Qed.
Lemma cle_set_ready v a : cle a (c_set_ready v a). Proof. repeat split; auto. Qed.
Lemma cle_set_waiters v a : cle a (c_set_waiters v a). Proof. repeat split; auto. Qed.
Lemma cle_set_open_false a : cle a (c_set_open false a). Proof. repeat split; auto. cbn. discriminate. Qed.
Lemma quiet_clone_conn x c s : quiet x s (clone_conn c s).
Proof. apply quiet_upd_conn. intros a. apply cle_set_refs. Qed.
Lemma quiet_drop_conn x c s : quiet x s (drop_conn c s).
Proof.
  unfold drop_conn. destruct (get_conn s c) as [cn|]; [|apply quiet_refl].
  assert (H : quiet x s (upd_conn c (c_set_refs (pred (c_refs cn))) s)) by (apply quiet_upd_conn; intros a; apply cle_set_refs).
  destruct (Nat.eqb (pred (c_refs cn)) 0); [|exact H]. eapply quiet_comp; [exact H|apply quiet_emit; exact Logic.I].
Qed.
Lemma quiet_wake_tasks x l : forall s, quiet x s (wake_tasks l s).
Proof.
  induction l as [|t l IH]; intros s; cbn [wake_tasks]; [apply quiet_refl|].
  eapply quiet_comp; [apply quiet_wake_task|apply IH].
Qed.
Lemma quiet_drain_conn_waiters x c s : quiet x s (drain_conn_waiters c s).
Proof.
  unfold drain_conn_waiters. destruct (get_conn s c); [|apply quiet_refl].
  eapply quiet_comp; [apply quiet_upd_conn; intros a; apply cle_set_waiters|apply quiet_wake_tasks].
Qed.
Lemma quiet_drop_all x l : forall s, quiet x s (drop_all l s).
Proof.
  induction l as [|[c a] l IH]; intros s; cbn [drop_all]; [apply quiet_refl|].
  eapply quiet_comp; [apply quiet_drop_conn|apply IH].
Qed.

(* ---------------------------------------------------------------- tasks *)
Lemma trans_spawn x tk s : trans x [] [] (taskT (Some tk)) s (spawn tk s).
Proof.
  constructor; try (intros c _; cbn; lia); auto using F2_refl.
  - intros c _. unfold LT, spawn. cbn [tasks set_runq set_tasks]. rewrite cnt_flat_map_app. cbn [flat_map]. rewrite app_nil_r. lia.
  - intros r q _ H. exists q. split; [exact H|apply rkind_refl].
  - apply out_same. reflexivity.
Qed.

Lemma quiet_finish_task x tid s : quiet x s (finish_task tid s).
Proof.
  constructor; try (intros c _; cbn; lia); auto using F2_refl.
  - intros c _. unfold LT, finish_task. cbn [tasks set_tasks]. rewrite cnt_nil.
    destruct (nth_error (tasks s) tid) as [q|] eqn:E.
    + pose proof (cnt_flat_map_upd taskT (fun _ => None) c (tasks s) tid q E) as H. cbn [taskT] in H. rewrite cnt_nil in H. lia.
    + rewrite (upd_nth_none _ _ _ E). lia.
  - intros r q _ H. exists q. split; [exact H|apply rkind_refl].
  - apply out_same. reflexivity.
Qed.

(* ---------------------------------------------------------------- requests *)
Lemma upd_nth_comm {A} (g h : A -> A) : forall l r w, r <> w -> upd_nth r g (upd_nth w h l) = upd_nth w h (upd_nth r g l).
Proof. induction l as [|a l IH]; intros [|r] [|w] H; cbn; auto; try congruence. f_equal. apply IH. congruence. Qed.

Lemma reqs_x_set_req_same w v s : reqs_x (Some w) (set_req w v s) = reqs_x (Some w) s.
Proof. unfold reqs_x, set_req. cbn [reqs set_reqs]. apply upd_nth_twice. Qed.

Lemma cnt_reqs_x_set_req (f : req -> list nat) x w v q s c :
  get_req s w = Some q -> x <> Some w ->
  cnt (flat_map f (reqs_x x (set_req w v s))) c + cnt (f q) c = cnt (flat_map f (reqs_x x s)) c + cnt (f v) c.
Proof.
  unfold get_req. intros Hq Hx. destruct x as [r|]; unfold reqs_x, set_req; cbn [reqs set_reqs].
  - assert (r <> w) by congruence. rewrite upd_nth_comm by assumption.
    apply (cnt_flat_map_upd f (fun _ => v) c (upd_nth r (fun _ => RDone) (reqs s)) w q).
    rewrite nth_error_upd_nth_neq by assumption. exact Hq.
  - apply (cnt_flat_map_upd f (fun _ => v) c (reqs s) w q Hq).
Qed.

Lemma get_req_set_req_eq s w v q : get_req s w = Some q -> get_req (set_req w v s) w = Some v.
Proof. unfold get_req, set_req. cbn [reqs set_reqs]. intros H. apply (nth_error_upd_nth_eq (fun _ => v) _ _ _ H). Qed.
Lemma get_req_set_req_neq s w v r : w <> r -> get_req (set_req w v s) r = get_req s r.
Proof. unfold get_req, set_req. cbn [reqs set_reqs]. intros H. apply nth_error_upd_nth_neq. exact H. Qed.

(* overwriting the polled request *)
Lemma quiet_set_req_x w v s : quiet (Some w) s (set_req w v s).
Proof.
  constructor; auto using F2_refl.
  - intros c _. unfold LA. rewrite reqs_x_set_req_same. cbn [toks set_req set_reqs]. lia.
  - intros c _. unfold LH. rewrite reqs_x_set_req_same. lia.
  - intros c _. unfold LT. cbn [tasks set_req set_reqs]. lia.
  - intros r q Hx H. exists q. rewrite get_req_set_req_neq by congruence. split; [exact H|apply rkind_refl].
  - apply out_same. reflexivity.
  - unfold set_req. cbn [reqs set_reqs]. apply upd_nth_length.
Qed.

(* replacing a checkout by a checkout *)
Lemma trans_set_req_ck x A w ck ck' s :
  get_req s w = Some (RCheckout ck) -> (forall c, cnt (ck_conns ck') c <= cnt (ck_conns ck) c + cnt A c) ->
  trans x [] A [] s (set_req w (RCheckout ck') s).
Proof.
  intros Hq Hc. assert (Hd : x = Some w \/ x <> Some w) by (destruct x as [r|]; [destruct (Nat.eq_dec r w); [left|right]; congruence|right; discriminate]).
  destruct Hd as [->|Hx].
  - eapply trans_weak; [| | |apply quiet_set_req_x]; intros c; cbn; lia.
  - constructor; auto using F2_refl.
    + intros c _. unfold LA. cbn [toks set_req set_reqs]. fold (set_req w (RCheckout ck') s). rewrite !cnt_app.
      pose proof (cnt_reqs_x_set_req reqA x w (RCheckout ck') _ s c Hq Hx) as H. cbn [reqA] in H. specialize (Hc c). rewrite cnt_nil. lia.
    + intros c _. unfold LH. pose proof (cnt_reqs_x_set_req reqH x w (RCheckout ck') _ s c Hq Hx) as H. cbn [reqH] in H. lia.
    + intros c _. unfold LT. cbn [tasks set_req set_reqs]. lia.
    + intros r q _ H. destruct (Nat.eq_dec w r) as [->|Hn].
      * rewrite (get_req_set_req_eq _ _ _ _ Hq). rewrite Hq in H. inversion H; subst. eexists. split; [reflexivity|cbn; eauto].
      * rewrite get_req_set_req_neq by exact Hn. exists q. split; [exact H|apply rkind_refl].
    + apply out_same. reflexivity.
    + unfold set_req. cbn [reqs set_reqs]. apply upd_nth_length.
Qed.

Lemma trans_of_quiet x A B s s' : quiet x s s' -> trans x [] A B s s'.
Proof. apply trans_weak; intros c; cbn; lia. Qed.

Lemma trans_pooled_drop x p s : trans x [] [] [fst p] s (pooled_drop p s).
Proof.
  destruct p as [c t]. unfold pooled_drop. cbn [fst]. destruct (share_of s c).
  - apply trans_of_quiet, quiet_drop_conn.
  - apply (trans_spawn x (TWhenReady c t) s).
Qed.

Lemma trans_deliver x w p s : trans x [] [fst p] [] s (deliver w p s).
Proof.
  unfold deliver. destruct (get_req s w) as [[|ck|? ? ?| |]|] eqn:E; try (apply trans_of_quiet, quiet_refl).
  assert (H : trans x [] [fst p] [] s (set_req w (RCheckout (k_set_slot (Some p) ck)) s)).
  { apply (trans_set_req_ck x [fst p] w ck _ s E). intros c. unfold ck_conns. cbn [k_set_slot k_slot k_conn oslot]. rewrite !cnt_app. lia. }
  destruct (k_rxpolled ck); [|exact H]. eapply trans_quiet; [exact H|apply quiet_wake_req].
Qed.

Lemma quiet_drop_sender x w s : quiet x s (drop_sender w s).
Proof.
  unfold drop_sender. destruct (get_req s w) as [[|ck|? ? ?| |]|] eqn:E; try apply quiet_refl.
  assert (H : quiet x s (set_req w (RCheckout (k_set_txdropped true ck)) s)).
  { apply (trans_set_req_ck x [] w ck _ s E). intros c. unfold ck_conns. cbn [k_set_txdropped k_slot k_conn]. lia. }
  destruct (k_waiter ck); try apply quiet_refl; (destruct (k_rxpolled ck); [|exact H]; eapply quiet_comp; [exact H|apply quiet_wake_req]).
Qed.

(* ---------------------------------------------------------------- tokens *)
Lemma reqs_x_frame x s s' : reqs s' = reqs s -> reqs_x x s' = reqs_x x s.
Proof. intros H. unfold reqs_x. rewrite H. reflexivity. Qed.
Lemma trans_upd_tok x A t f s :
  (forall p c, cnt (tokA (f p)) c <= cnt (tokA p) c + cnt A c) -> trans x [] A [] s (upd_tok t f s).
Proof.
  intros Hf. destruct t as [|i]; [apply trans_of_quiet, quiet_refl|]. unfold upd_tok.
  constructor; auto using F2_refl.
  - intros c _. unfold LA. rewrite (reqs_x_frame x s (set_toks (upd_nth i f (toks s)) s)) by reflexivity.
    cbn [toks set_toks]. rewrite !cnt_app, cnt_nil.
    destruct (nth_error (toks s) i) as [p|] eqn:E.
    + pose proof (cnt_flat_map_upd tokA f c (toks s) i p E) as H. specialize (Hf p c). lia.
    + rewrite (upd_nth_none _ _ _ E). lia.
  - intros c _. unfold LT. cbn [tasks set_toks]. lia.
  - intros r q _ H. exists q. split; [exact H|apply rkind_refl].
  - apply out_same. reflexivity.
Qed.

Lemma quiet_upd_tok x t f s : (forall p, p_idle (f p) = p_idle p) -> quiet x s (upd_tok t f s).
Proof. intros Hf. apply trans_upd_tok. intros p c. unfold tokA. rewrite Hf. lia. Qed.

(* ---------------------------------------------------------------- push *)
Lemma walk_nonshared x t c ws : forall s,
  let '(_, moved, s') := walk_waiters t c false ws s in
  if moved then trans x [] [c] [] s s' else quiet x s s'.
Proof.
  induction ws as [|[w b] ws IH]; intros s; cbn [walk_waiters]; [apply quiet_refl|].
  destruct (rx_live s w).
  - apply (trans_deliver x w (c, t) s).
  - apply IH.
Qed.

Lemma walk_shared x t c sh ws : forall s, share_of s c = true -> quiet x s (snd (walk_waiters t c sh ws s)).
Proof.
  induction ws as [|[w b] ws IH]; intros s Hs; cbn [walk_waiters]; [apply quiet_refl|].
  destruct (rx_live s w); [destruct sh|].
  - assert (H1 : quiet x s (deliver w (c, 0) (clone_conn c s))).
    { eapply quiet_comp; [apply quiet_clone_conn|]. eapply trans_shared_quiet; [apply (trans_deliver x w (c, 0))|].
      intros c' [<-|[]]. cbn [fst]. rewrite (share_of_F2 s (clone_conn c s) c (t_conns _ _ _ _ _ _ (quiet_clone_conn x c s))). exact Hs. }
    eapply quiet_comp; [exact H1|]. apply IH. rewrite (share_of_F2 _ _ c (t_conns _ _ _ _ _ _ H1)). exact Hs.
  - cbn [snd]. eapply trans_shared_quiet; [apply (trans_deliver x w (c, t))|]. intros c' [<-|[]]. exact Hs.
  - apply IH. exact Hs.
Qed.

Lemma trans_idle_app x t c a s : trans x [] [c] [] s (upd_tok t (fun p => set_idle (p_idle p ++ [(c, a)]) p) s).
Proof.
  apply trans_upd_tok. intros p c'. unfold tokA. cbn [set_idle p_idle]. rewrite map_app, cnt_app. cbn [map fst]. lia.
Qed.

Lemma trans_pool_push x n t c s : trans x [] [c] [] s (pool_push n t c s).
Proof.
  unfold pool_push. destruct (share_of s c) eqn:Hsh.
  - set (s1 := upd_tok t (set_marker None) s).
    assert (Q1 : quiet x s s1) by (apply quiet_upd_tok; reflexivity).
    assert (Hs1 : share_of s1 c = true) by (rewrite (share_of_F2 _ _ c (t_conns _ _ _ _ _ _ Q1)); exact Hsh).
    rewrite Hs1. pose proof (walk_shared x t c true (p_waiting (get_tok s1 t)) s1 Hs1) as Q2.
    destruct (walk_waiters t c true (p_waiting (get_tok s1 t)) s1) as [[rest moved] s2]. cbn [snd] in Q2.
    assert (Q3 : quiet x s (upd_tok t (set_waiting rest) s2)).
    { eapply quiet_comp; [exact Q1|]. eapply quiet_comp; [exact Q2|]. apply quiet_upd_tok. reflexivity. }
    destruct moved; [apply trans_of_quiet; exact Q3|].
    destruct (Nat.ltb _ n).
    + eapply quiet_trans; [exact Q3|apply trans_idle_app].
    + apply trans_of_quiet. eapply quiet_comp; [exact Q3|apply quiet_drop_conn].
  - rewrite Hsh. pose proof (walk_nonshared x t c (p_waiting (get_tok s t)) s) as Q2.
    destruct (walk_waiters t c false (p_waiting (get_tok s t)) s) as [[rest moved] s2].
    assert (Q3 : quiet x s2 (upd_tok t (set_waiting rest) s2)) by (apply quiet_upd_tok; reflexivity).
    destruct moved; [eapply trans_quiet; eauto|].
    assert (Q4 : quiet x s (upd_tok t (set_waiting rest) s2)) by (eapply quiet_comp; eauto).
    destruct (Nat.ltb _ n).
    + eapply quiet_trans; [exact Q4|apply trans_idle_app].
    + apply trans_of_quiet. eapply quiet_comp; [exact Q4|apply quiet_drop_conn].
Qed.

(* ---------------------------------------------------------------- cancel, keys *)
Lemma quiet_release_pending x ws : forall s, quiet x s (snd (release_pending ws s)).
Proof.
  induction ws as [|[w b] ws IH]; intros s; cbn [release_pending]; [apply quiet_refl|]. destruct b.
  - eapply quiet_comp; [apply quiet_drop_sender|apply IH].
  - specialize (IH s). destruct (release_pending ws s). exact IH.
Qed.

Lemma quiet_pool_cancel x t rid s : quiet x s (pool_cancel t rid s).
Proof.
  unfold pool_cancel. destruct (p_marker (get_tok s t)) as [o|]; [|apply quiet_refl].
  destruct (Nat.eqb o rid); [|apply quiet_refl].
  set (s1 := upd_tok t (set_marker None) s). assert (Q1 : quiet x s s1) by (apply quiet_upd_tok; reflexivity).
  pose proof (quiet_release_pending x (p_waiting (get_tok s1 t)) s1) as Q2.
  destruct (release_pending (p_waiting (get_tok s1 t)) s1) as [rest s2]. cbn [snd] in Q2.
  eapply quiet_comp; [exact Q1|]. eapply quiet_comp; [exact Q2|]. apply quiet_upd_tok. reflexivity.
Qed.

Lemma quiet_key_insert x k s : quiet x s (snd (key_insert k s)).
Proof.
  unfold key_insert. destruct (find_key k (keys s) 1); cbn [snd]; [apply quiet_refl|].
  constructor; auto using F2_refl; try (intros c _; lia).
  - intros c _. unfold LA. rewrite (reqs_x_frame x s) by reflexivity. cbn [toks set_toks set_keys].
    rewrite !cnt_app, cnt_flat_map_app. cbn. lia.
  - intros c _. unfold LT. cbn [tasks set_toks set_keys]. lia.
  - intros r q _ H. exists q. split; [exact H|apply rkind_refl].
  - apply out_same. reflexivity.
Qed.

(* ---------------------------------------------------------------- pop *)
Lemma cnt_rev l c : cnt (rev l) c = cnt l c.
Proof. induction l as [|a l IH]; [reflexivity|]. cbn [rev]. rewrite cnt_app, IH. rewrite !cnt_cons, cnt_nil. lia. Qed.

Lemma pop_loop_spec x thr rl : forall s r rest s', pop_loop thr rl s = (r, rest, s') ->
  quiet x s s' /\ forall c, cnt (map fst rest) c + cnt (oconn r) c <= cnt (map fst rl) c.
Proof.
  induction rl as [|[c0 a] rl IH]; intros s r rest s' H; cbn [pop_loop] in H.
  - inversion H; subst. split; [apply quiet_refl|intros c; cbn; lia].
  - destruct (match thr with Some y => (a <? y)%N | None => false end).
    + inversion H; subst. split; [eapply quiet_comp; [apply quiet_drop_conn|apply quiet_drop_all]|intros c; cbn; lia].
    + destruct (is_open s c0).
      * inversion H; subst. split; [apply quiet_refl|]. intros c. cbn [map fst oconn]. rewrite !cnt_cons, cnt_nil. lia.
      * apply IH in H. destruct H as [Q Hc]. split; [eapply quiet_comp; [apply quiet_drop_conn|exact Q]|].
        intros c. specialize (Hc c). cbn [map]. rewrite cnt_cons. lia.
Qed.

Lemma trans_upd_tok_R x R t f s :
  (forall c, cnt (tokA (f (get_tok s t))) c + cnt R c <= cnt (tokA (get_tok s t)) c) ->
  trans x R [] [] s (upd_tok t f s).
Proof.
  intros Hf.
  assert (Hid : (forall c, cnt R c = 0) -> trans x R [] [] s s).
  { intros Hz. eapply trans_weak; [| | |apply quiet_refl]; intros c; try lia. rewrite Hz. cbn; lia. }
  destruct t as [|i]; [apply Hid; intros c; specialize (Hf c); cbn in Hf; lia|].
  cbn [get_tok] in Hf. unfold upd_tok. destruct (nth_error (toks s) i) as [p|] eqn:E.
  - rewrite (nth_error_nth _ _ empty_tok E) in Hf. constructor; auto using F2_refl; try (intros c _; lia).
    + intros c _. unfold LA. rewrite (reqs_x_frame x s (set_toks (upd_nth i f (toks s)) s)) by reflexivity.
      cbn [toks set_toks]. rewrite !cnt_app, cnt_nil.
      pose proof (cnt_flat_map_upd tokA f c (toks s) i p E) as H. specialize (Hf c). lia.
    + intros c _. unfold LT. cbn [tasks set_toks]. lia.
    + intros r q _ H. exists q. split; [exact H|apply rkind_refl].
    + apply out_same. reflexivity.
  - rewrite (upd_nth_none _ _ _ E). replace (set_toks (toks s) s) with s by (destruct s; reflexivity).
    apply Hid. intros c. specialize (Hf c). rewrite nth_overflow in Hf by (apply nth_error_None; exact E). cbn in Hf. lia.
Qed.

Lemma toks_pop_loop' thr rl : forall s, toks (snd (pop_loop thr rl s)) = toks s.
Proof.
  assert (Hd : forall c s, toks (drop_conn c s) = toks s).
  { intros c s. unfold drop_conn. destruct (get_conn s c); [|reflexivity]. destruct (Nat.eqb _ 0); reflexivity. }
  assert (Ha : forall l s, toks (drop_all l s) = toks s).
  { induction l as [|[c a] l IH]; intros s; cbn [drop_all]; [reflexivity|]. rewrite IH. apply Hd. }
  induction rl as [|[c a] rl IH]; intros s; cbn [pop_loop]; [reflexivity|].
  destruct (match thr with Some y => (a <? y)%N | None => false end); cbn [snd]; [rewrite Ha; apply Hd|].
  destruct (is_open s c); cbn [snd]; [reflexivity|]. rewrite IH. apply Hd.
Qed.

Lemma trans_pool_pop x to t s r s' : pool_pop to t s = (r, s') -> trans x (oconn r) [] [] s s'.
Proof.
  unfold pool_pop. intros H.
  pose proof (toks_pop_loop' (expiry_threshold to (now s)) (rev (p_idle (get_tok s t))) s) as Ht.
  destruct (pop_loop (expiry_threshold to (now s)) (rev (p_idle (get_tok s t))) s) as [[r0 rest] s1] eqn:Hl.
  inversion H; subst. clear H. cbn [snd] in Ht.
  destruct (pop_loop_spec x _ _ _ _ _ _ Hl) as [Q Hc].
  eapply quiet_trans; [exact Q|]. apply trans_upd_tok_R.
  assert (Hg : get_tok s1 t = get_tok s t) by (destruct t; cbn [get_tok]; [reflexivity|rewrite Ht; reflexivity]).
  rewrite Hg. intros c. specialize (Hc c). unfold tokA. cbn [set_idle p_idle].
  rewrite map_rev, cnt_rev in *. exact Hc.
Qed.

Lemma register_spec x cfg t c s : fst (fst (register cfg t c s)) = c /\ quiet x s (snd (register cfg t c s)).
Proof.
  unfold register. destruct (g_pool cfg && negb (Nat.eqb t 0)); [|split; [reflexivity|apply quiet_refl]].
  destruct (share_of s c) eqn:Hs; cbn [fst snd]; split; try reflexivity; try apply quiet_refl.
  destruct (is_open s c); [|apply quiet_refl].
  assert (Q1 := quiet_clone_conn x c s).
  eapply quiet_comp; [exact Q1|]. eapply trans_shared_quiet; [apply (trans_pool_push x (g_max_idle cfg) t c)|].
  intros c' [<-|[]]. rewrite (share_of_F2 _ _ c (t_conns _ _ _ _ _ _ Q1)). exact Hs.
Qed.
