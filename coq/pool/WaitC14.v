(* C14 support, part 9 (clause (a3)): with the pool on, a checkout whose receiver is open, empty and whose
   sender has not been dropped is still queued under its token ([wq]); a checkout that owns a connector
   keeps its receiver ([wok]); only waiters for somebody else's attempt are queued as "pending" ([wq_p]).
   Model only. *)
From HD Require Import common.Base http.Model pool.Model pool.Spec pool.Frames pool.BaseC14 pool.FramesC14 pool.TokC14
  pool.DialC14 pool.BgC14 pool.OblC14.
Local Open Scope list_scope.

Definition wq (s : state) (r : nat) (ck : checkout) : Prop :=
  k_waiter ck <> WNoPool -> k_slot ck = None -> k_txdropped ck = false -> In r (map fst (wtg s (k_token ck))).
Definition wok (ck : checkout) : Prop :=
  match k_inner ck with
  | IWaiting => True
  | IConnected => k_conn ck <> None
  | _ => k_waiter ck = WIdle /\ k_txdropped ck = false
  end.

Record WQ (x : option nat) (s : state) : Prop := mkWQ {
  wq_q : forall r ck, x <> Some r -> get_req s r = Some (RCheckout ck) -> wq s r ck /\ wok ck;
  wq_p : forall t w ck, x <> Some w -> In (w, true) (wtg s t) -> get_req s w = Some (RCheckout ck) -> k_inner ck = IWaiting;
  wq_b : forall t w b, In (w, b) (wtg s t) -> w < List.length (reqs s)
}.

(* a checkout that only had its slot filled *)
Definition ckeq (ck ck' : checkout) : Prop :=
  k_token ck' = k_token ck /\ k_inner ck' = k_inner ck /\ k_conn ck' = k_conn ck /\ k_waiter ck' = k_waiter ck
  /\ k_txdropped ck' = k_txdropped ck /\ (k_slot ck' = None -> k_slot ck = None).
Lemma ckeq_refl ck : ckeq ck ck. Proof. repeat split; auto. Qed.
Lemma ckeq_trans a b c : ckeq a b -> ckeq b c -> ckeq a c.
Proof. intros (A1 & A2 & A3 & A4 & A5 & A6) (B1 & B2 & B3 & B4 & B5 & B6). repeat split; try congruence. auto. Qed.
Lemma wok_ckeq ck ck' : ckeq ck ck' -> wok ck -> wok ck'.
Proof. intros (A1 & A2 & A3 & A4 & A5 & A6). unfold wok. rewrite A2, A3, A4, A5. auto. Qed.

(* requests only change by having slots filled *)
Definition rback (s s' : state) : Prop :=
  forall r ck', get_req s' r = Some (RCheckout ck') -> exists ck, get_req s r = Some (RCheckout ck) /\ ckeq ck ck'.
Lemma rback_refl s : rback s s. Proof. intros r ck H. exists ck. split; [exact H|apply ckeq_refl]. Qed.
Lemma rback_trans a b c : rback a b -> rback b c -> rback a c.
Proof.
  intros H1 H2 r ck'' H. destruct (H2 r ck'' H) as (ck' & H' & E'). destruct (H1 r ck' H') as (ck & H0 & E0).
  exists ck. split; [exact H0|eapply ckeq_trans; eauto].
Qed.
Lemma rback_reqs s s' : reqs s' = reqs s -> rback s s'.
Proof. intros E r ck H. exists ck. unfold get_req in *. rewrite <- E. split; [exact H|apply ckeq_refl]. Qed.

(* the frame: requests move by [rback], every queue keeps the entries of the requests that are still waiting *)
Lemma WQ_frame x s s' : rback s s' ->
  (forall r ck ck', x <> Some r -> get_req s r = Some (RCheckout ck) -> get_req s' r = Some (RCheckout ck') ->
     k_waiter ck' <> WNoPool -> k_slot ck' = None -> k_txdropped ck' = false ->
     In r (map fst (wtg s (k_token ck))) -> In r (map fst (wtg s' (k_token ck)))) ->
  (forall t w b, In (w, b) (wtg s' t) -> In (w, b) (wtg s t)) -> List.length (reqs s') = List.length (reqs s) ->
  WQ x s -> WQ x s'.
Proof.
  intros Hb Hq Hp Hlen [Q P B]. constructor.
  - intros r ck' Hx Hr. destruct (Hb r ck' Hr) as (ck & H0 & E). destruct (Q r ck Hx H0) as [Q1 Q2].
    split; [|eapply wok_ckeq; eauto]. destruct E as (E1 & E2 & E3 & E4 & E5 & E6). intros Hw Hs Ht. rewrite E1.
    apply (Hq r ck ck' Hx H0 Hr Hw Hs Ht). apply Q1; [rewrite <- E4; exact Hw|apply E6; exact Hs|rewrite <- E5; exact Ht].
  - intros t w ck' Hx Hin Hr. destruct (Hb w ck' Hr) as (ck & H0 & (_ & E2 & _)). rewrite E2. eapply P; eauto.
  - intros t w b Hin. rewrite Hlen. eapply B; eauto.
Qed.

Lemma WQ_same x s s' : reqs s' = reqs s -> (forall t, wtg s' t = wtg s t) -> WQ x s -> WQ x s'.
Proof.
  intros E1 E2. apply WQ_frame.
  - apply rback_reqs. exact E1.
  - intros r ck ck' _ _ _ _ _ _ H. rewrite E2. exact H.
  - intros t w b. rewrite E2. auto.
  - rewrite E1. reflexivity.
Qed.
Lemma WQ_toks x s s' : reqs s' = reqs s -> toks s' = toks s -> WQ x s -> WQ x s'.
Proof. intros E1 E2. apply WQ_same; [exact E1|]. intros t. unfold wtg. rewrite (get_tok_frame s s' t E2). reflexivity. Qed.

(* ------------------------------------------------------------------ delivering *)
Lemma get_req_wake_req r w s : get_req (wake_req w s) r = get_req s r. Proof. reflexivity. Qed.

Lemma deliver_spec w p s :
  rback s (deliver w p s) /\ toks (deliver w p s) = toks s /\
  (rx_live s w = true -> forall ck', get_req (deliver w p s) w = Some (RCheckout ck') -> k_slot ck' <> None).
Proof.
  unfold deliver. destruct (get_req s w) as [[|ck| | |]|] eqn:E; try (split; [apply rback_refl|split; [reflexivity|]]; unfold rx_live; rewrite E; discriminate).
  assert (H : rback s (set_req w (RCheckout (k_set_slot (Some p) ck)) s) /\
              forall ck', get_req (set_req w (RCheckout (k_set_slot (Some p) ck)) s) w = Some (RCheckout ck') -> k_slot ck' <> None).
  { split.
    - intros r ck'. rewrite get_req_set_req. destruct (Nat.eqb_spec w r) as [<-|]; [|intros H; exists ck'; split; [exact H|apply ckeq_refl]].
      rewrite E. cbn. intros H. inversion H; subst ck'. exists ck. split; [reflexivity|]. repeat split; auto. cbn. discriminate.
    - intros ck'. rewrite get_req_set_req, Nat.eqb_refl, E. cbn. intros H. inversion H. cbn. discriminate. }
  destruct H as [H1 H2]. destruct (k_rxpolled ck); (split; [exact H1|split; [reflexivity|intros _; exact H2]]).
Qed.

Lemma rback_clone c s : rback s (clone_conn c s). Proof. apply rback_reqs. reflexivity. Qed.

(* the waiter walk: a live queued request either got the connection or is still queued *)
Lemma walk_spec t c sh ws : forall s,
  rback s (snd (walk_waiters t c sh ws s)) /\ toks (snd (walk_waiters t c sh ws s)) = toks s /\
  (forall r ck', In r (map fst ws) -> rx_live s r = true -> get_req (snd (walk_waiters t c sh ws s)) r = Some (RCheckout ck') ->
     k_slot ck' = None -> In r (map fst (fst (fst (walk_waiters t c sh ws s))))) /\
  subq (fst (fst (walk_waiters t c sh ws s))) ws.
Proof.
  induction ws as [|[w b] ws IH]; intros s; cbn [walk_waiters].
  - cbn [fst snd map]. split; [apply rback_refl|]. split; [reflexivity|]. split; [intros r ck' []|intros x []].
  - destruct (rx_live s w) eqn:El; [destruct sh|].
    + (* shared: deliver and go on *)
      set (s1 := deliver w (c, 0) (clone_conn c s)).
      destruct (deliver_spec w (c, 0) (clone_conn c s)) as (D1 & D2 & D3). fold s1 in D1, D2, D3.
      destruct (IH s1) as (I1 & I2 & I3 & I4).
      assert (Hl : forall r, rx_live s1 r = rx_live s r).
      { intros r. unfold s1. rewrite (rxl_deliver w (c, 0) (clone_conn c s) r). apply rxl_clone_conn. }
      split; [eapply rback_trans; [eapply rback_trans; [apply rback_clone|exact D1]|exact I1]|]. split; [rewrite I2; exact D2|]. split.
      * intros r ck' Hin Hr Hq Hs. cbn [map fst] in Hin. destruct Hin as [<-|Hin].
        -- exfalso. destruct (I1 w ck' Hq) as (ck1 & Hq1 & (_ & _ & _ & _ & _ & E6)). apply (D3 El ck1 Hq1). apply E6. exact Hs.
        -- apply (I3 r ck' Hin); [rewrite Hl; exact Hr|exact Hq|exact Hs].
      * intros x Hx. right. apply I4. exact Hx.
    + (* not shared: the first live waiter takes it *)
      cbn [fst snd]. destruct (deliver_spec w (c, t) s) as (D1 & D2 & D3).
      split; [exact D1|]. split; [exact D2|]. split; [|intros x Hx; right; exact Hx].
      intros r ck' Hin Hr Hq Hs. cbn [map fst] in Hin. destruct Hin as [<-|Hin]; [|exact Hin].
      exfalso. apply (D3 El ck' Hq). exact Hs.
    + (* closed receiver: skipped *)
      destruct (IH s) as (I1 & I2 & I3 & I4). split; [exact I1|]. split; [exact I2|]. split.
      * intros r ck' Hin Hr Hq Hs. cbn [map fst] in Hin. destruct Hin as [<-|Hin]; [congruence|]. apply (I3 r ck' Hin Hr Hq Hs).
      * intros x Hx. right. apply I4. exact Hx.
Qed.

Lemma rx_live_ck s r ck : get_req s r = Some (RCheckout ck) -> k_waiter ck <> WNoPool -> rx_live s r = true.
Proof. intros H Hw. unfold rx_live. rewrite H. destruct (k_waiter ck); auto; contradiction. Qed.

Lemma wtg_upd_tok_other t f s t' : (forall p, p_waiting (f p) = p_waiting p) -> wtg (upd_tok t f s) t' = wtg s t'.
Proof. intros Hf. unfold wtg. destruct (get_tok_upd_cases t f s t') as [->|[-> ->]]; auto. Qed.

Lemma WQ_pool_push x n t c s : WQ x s -> WQ x (pool_push n t c s).
Proof.
  intros H. pose proof (tkf_pool_push n t c s) as Htk. pose proof (pf_rlen _ _ (pf_pool_push n t c s)) as Hlen. revert Htk Hlen. unfold pool_push.
  set (s1 := if share_of s c then upd_tok t (set_marker None) s else s).
  assert (R1 : reqs s1 = reqs s) by (subst s1; destruct (share_of s c); [destruct t|]; reflexivity).
  assert (W1 : forall t', wtg s1 t' = wtg s t') by (intros t'; subst s1; destruct (share_of s c); [apply wtg_upd_tok_other; reflexivity|reflexivity]).
  destruct (walk_spec t c (share_of s1 c) (p_waiting (get_tok s1 t)) s1) as (B2 & T2 & I2 & _).
  destruct (walk_waiters t c (share_of s1 c) (p_waiting (get_tok s1 t)) s1) as [[rest moved] s2]. cbn [fst snd] in *.
  set (s3 := upd_tok t (set_waiting rest) s2).
  assert (R3 : reqs s3 = reqs s2) by (subst s3; destruct t; reflexivity).
  assert (Hgoal : forall s4, reqs s4 = reqs s3 -> (forall t', wtg s4 t' = wtg s3 t') -> tkf s s4 -> List.length (reqs s4) = List.length (reqs s) -> WQ x s4).
  { intros s4 R4 W4 Htk Hlen. eapply WQ_frame; [| | |exact Hlen|exact H].
    - intros r ck' Hr. unfold get_req in Hr. rewrite R4, R3 in Hr. destruct (B2 r ck' Hr) as (ck & H0 & E). exists ck. split; [|exact E].
      unfold get_req in *. rewrite <- R1. exact H0.
    - intros r ck ck' Hx H0 Hr Hw Hs Ht Hin. rewrite W4. unfold wtg, s3.
      destruct (get_tok_upd_cases t (set_waiting rest) s2 (k_token ck)) as [->|[Et ->]].
      + rewrite (get_tok_frame s1 s2 _ T2). fold (wtg s1 (k_token ck)). rewrite W1. exact Hin.
      + cbn [set_waiting p_waiting]. unfold get_req in Hr. rewrite R4, R3 in Hr. fold (get_req s2 r) in Hr.
        destruct (B2 r ck' Hr) as (ck1 & Hq1 & (_ & _ & _ & E4 & _)).
        apply (I2 r ck'); [|eapply rx_live_ck; [exact Hq1|rewrite <- E4; exact Hw]|exact Hr|exact Hs].
        rewrite Et in Hin. rewrite <- W1 in Hin. exact Hin.
    - intros t' w b Hin. apply (tk_sub _ _ Htk t'). exact Hin. }
  destruct moved; [intros Htk Hlen; apply Hgoal; auto|].
  match goal with |- context [if ?b then _ else _] => destruct b end; intros Htk Hlen; apply Hgoal; auto.
  - destruct t; reflexivity.
  - intros t'. apply wtg_upd_tok_other. reflexivity.
  - unfold drop_conn. destruct (get_conn s3 c); [|reflexivity]. destruct (Nat.eqb _ _); reflexivity.
  - intros t'. unfold wtg. rewrite (get_tok_frame s3 _ t' (toks_drop_conn c s3)). reflexivity.
Qed.

(* ------------------------------------------------------------------ releasing the waiters of a failed attempt *)
Definition ckeq_t (ck ck' : checkout) : Prop :=
  k_token ck' = k_token ck /\ k_inner ck' = k_inner ck /\ k_conn ck' = k_conn ck /\ k_waiter ck' = k_waiter ck /\ k_slot ck' = k_slot ck.

Lemma drop_sender_spec w s :
  toks (drop_sender w s) = toks s /\
  (forall r ck', get_req (drop_sender w s) r = Some (RCheckout ck') ->
     exists ck, get_req s r = Some (RCheckout ck) /\ ckeq_t ck ck' /\ (k_txdropped ck' = k_txdropped ck \/ r = w)) /\
  (forall ck', get_req (drop_sender w s) w = Some (RCheckout ck') -> k_waiter ck' <> WNoPool -> k_txdropped ck' = true).
Proof.
  unfold drop_sender.
  assert (Hid : forall s0, s0 = s -> toks s0 = toks s /\
     (forall r ck', get_req s0 r = Some (RCheckout ck') -> exists ck, get_req s r = Some (RCheckout ck) /\ ckeq_t ck ck' /\ (k_txdropped ck' = k_txdropped ck \/ r = w))).
  { intros s0 ->. split; [reflexivity|]. intros r ck' H. exists ck'. split; [exact H|]. split; [repeat split|left; reflexivity]. }
  destruct (get_req s w) as [[|ck| | |]|] eqn:E.
  1, 3, 4, 5, 6: destruct (Hid s eq_refl) as [A B]; split; [exact A|split; [exact B|intros ck' H; rewrite E in H; discriminate]].
  destruct (k_waiter ck) eqn:Ew.
  3: { destruct (Hid s eq_refl) as [A B]. split; [exact A|]. split; [exact B|]. intros ck' H. rewrite E in H. inversion H; subst ck'. congruence. }
  all: assert (Hs : toks (set_req w (RCheckout (k_set_txdropped true ck)) s) = toks s /\
     (forall r ck', get_req (set_req w (RCheckout (k_set_txdropped true ck)) s) r = Some (RCheckout ck') ->
        exists ck0, get_req s r = Some (RCheckout ck0) /\ ckeq_t ck0 ck' /\ (k_txdropped ck' = k_txdropped ck0 \/ r = w)) /\
     (forall ck', get_req (set_req w (RCheckout (k_set_txdropped true ck)) s) w = Some (RCheckout ck') -> k_waiter ck' <> WNoPool -> k_txdropped ck' = true));
    [split; [reflexivity|]; split;
      [intros r ck'; rewrite get_req_set_req; destruct (Nat.eqb_spec w r) as [<-|];
        [rewrite E; cbn; intros H; inversion H; subst ck'; exists ck; split; [reflexivity|]; split; [repeat split|right; reflexivity]
        |intros H; exists ck'; split; [exact H|]; split; [repeat split|left; reflexivity]]
      |intros ck'; rewrite get_req_set_req, Nat.eqb_refl, E; cbn; intros H; inversion H; reflexivity]
    |destruct (k_rxpolled ck); exact Hs].
Qed.

Lemma release_spec ws : forall s,
  toks (snd (release_pending ws s)) = toks s /\
  (forall r ck', get_req (snd (release_pending ws s)) r = Some (RCheckout ck') ->
     exists ck, get_req s r = Some (RCheckout ck) /\ ckeq_t ck ck' /\ (k_txdropped ck' = k_txdropped ck \/ In (r, true) ws)) /\
  (forall r ck', In (r, true) ws -> get_req (snd (release_pending ws s)) r = Some (RCheckout ck') -> k_waiter ck' <> WNoPool -> k_txdropped ck' = true) /\
  (forall w b, In (w, b) (fst (release_pending ws s)) <-> In (w, b) ws /\ b = false).
Proof.
  induction ws as [|[w b] ws IH]; intros s; cbn [release_pending].
  - cbn [fst snd]. split; [reflexivity|]. split; [intros r ck' H; exists ck'; split; [exact H|]; split; [repeat split|left; reflexivity]|].
    split; [intros r ck' []|intros w b; split; [intros []|intros [[] _]]].
  - destruct b.
    + destruct (drop_sender_spec w s) as (D1 & D2 & D3). destruct (IH (drop_sender w s)) as (I1 & I2 & I3 & I4).
      split; [rewrite I1; exact D1|]. split; [|split].
      * intros r ck' H. destruct (I2 r ck' H) as (ck1 & H1 & E1 & T1). destruct (D2 r ck1 H1) as (ck0 & H0 & E0 & T0).
        exists ck0. split; [exact H0|]. split.
        -- destruct E1 as (a1 & a2 & a3 & a4 & a5), E0 as (b1 & b2 & b3 & b4 & b5). repeat split; congruence.
        -- destruct T1 as [T1|T1]; [|right; right; exact T1]. destruct T0 as [T0|T0]; [left; congruence|right; left; subst; reflexivity].
      * intros r ck' [E|Hin] H Hw.
        -- inversion E; subst r. destruct (I2 w ck' H) as (ck1 & H1 & (a1 & a2 & a3 & a4 & a5) & T1).
           assert (Ht1 : k_txdropped ck1 = true) by (apply (D3 ck1 H1); congruence).
           destruct T1 as [T1|T1]; [congruence|]. apply (I3 w ck' T1 H Hw).
        -- apply (I3 r ck' Hin H Hw).
      * intros w0 b0. rewrite I4. split; [intros [A B]; split; [right; exact A|exact B]|].
        intros [[E|A] B]; [inversion E; subst; discriminate|split; assumption].
    + destruct (IH s) as (I1 & I2 & I3 & I4). destruct (release_pending ws s) as [rest s']. cbn [fst snd] in *.
      split; [exact I1|]. split; [|split].
      * intros r ck' H. destruct (I2 r ck' H) as (ck & H0 & E0 & T0). exists ck. split; [exact H0|]. split; [exact E0|].
        destruct T0 as [T0|T0]; [left; exact T0|right; right; exact T0].
      * intros r ck' [E|Hin] H Hw; [discriminate E|apply (I3 r ck' Hin H Hw)].
      * intros w0 b0. split.
        -- intros [E|A]; [inversion E; subst; split; [left; reflexivity|reflexivity]|]. apply I4 in A. destruct A as [A B]. split; [right; exact A|exact B].
        -- intros [[E|A] B]; [left; exact E|right; apply I4; split; assumption].
Qed.

Lemma In_fst_ex (r : nat) (l : list (nat * bool)) : In r (map fst l) -> exists b, In (r, b) l.
Proof. intros H. apply in_map_iff in H. destruct H as ([r0 b] & E & H). cbn in E. subst r0. eauto. Qed.
Lemma In_fst_in (r : nat) b (l : list (nat * bool)) : In (r, b) l -> In r (map fst l).
Proof. intros H. apply in_map_iff. exists (r, b). auto. Qed.

Lemma WQ_pool_cancel x t rid s : WQ x s -> WQ x (pool_cancel t rid s).
Proof.
  intros H. unfold pool_cancel. destruct (p_marker (get_tok s t)) as [o|]; [|exact H]. destruct (Nat.eqb o rid); [|exact H].
  set (s1 := upd_tok t (set_marker None) s).
  assert (H1 : WQ x s1) by (apply (WQ_same x s); [destruct t; reflexivity|intros t'; apply wtg_upd_tok_other; reflexivity|exact H]).
  destruct H1 as [Q P B].
  pose proof (pf_rlen _ _ (pf_release_pending (p_waiting (get_tok s1 t)) s1)) as Hlen. fold (wtg s1 t) in Hlen.
  destruct (release_spec (p_waiting (get_tok s1 t)) s1) as (T2 & I2 & I3 & I4). fold (wtg s1 t) in T2, I2, I3, I4 |- *.
  destruct (release_pending (wtg s1 t) s1) as [rest s2]. cbn [fst snd] in *.
  set (s3 := upd_tok t (set_waiting rest) s2).
  assert (R3 : forall r, get_req s3 r = get_req s2 r) by (intros r; subst s3; destruct t; reflexivity).
  assert (W3 : forall t', wtg s3 t' = wtg s1 t' \/ (t' = t /\ wtg s3 t' = rest)).
  { intros t'. unfold wtg, s3. destruct (get_tok_upd_cases t (set_waiting rest) s2 t') as [->|[-> ->]]; [left|right; split; reflexivity].
    rewrite (get_tok_frame s1 s2 t' T2). reflexivity. }
  constructor.
  - intros r ck' Hx Hr. rewrite R3 in Hr. destruct (I2 r ck' Hr) as (ck & H0 & (a1 & a2 & a3 & a4 & a5) & Tx).
    destruct (Q r ck Hx H0) as [Q1 Q2].
    assert (Hnp : In (r, true) (wtg s1 t) -> k_inner ck = IWaiting) by (intros Hi; eapply P; eauto).
    split.
    + intros Hw Hs Ht.
      assert (Ht0 : k_txdropped ck = false) by (destruct Tx as [Tx|Tx]; [congruence|rewrite (I3 r ck' Tx Hr Hw) in Ht; discriminate]).
      assert (Hin : In r (map fst (wtg s1 (k_token ck)))) by (apply Q1; congruence).
      rewrite a1. destruct (W3 (k_token ck)) as [->|[Et ->]]; [exact Hin|].
      rewrite Et in Hin. destruct (In_fst_ex _ _ Hin) as [b Hb]. destruct b.
      * rewrite (I3 r ck' Hb Hr Hw) in Ht. discriminate.
      * eapply In_fst_in. apply I4. split; [exact Hb|reflexivity].
    + unfold wok in *. rewrite a2, a3, a4. destruct (k_inner ck) eqn:Ei; auto;
        (destruct Q2 as [Qa Qb]; split; [exact Qa|]; destruct Tx as [Tx|Tx]; [congruence|specialize (Hnp Tx); discriminate]).
  - intros t' w ck' Hx Hin Hr. rewrite R3 in Hr. destruct (I2 w ck' Hr) as (ck & H0 & (a1 & a2 & a3 & a4 & a5) & _). rewrite a2.
    destruct (W3 t') as [E|[Et E]]; rewrite E in Hin; [eapply P; eauto|]. apply I4 in Hin. destruct Hin as [_ Hb]. discriminate.
  - intros t' w b Hin. assert (Hl3 : List.length (reqs s3) = List.length (reqs s1)) by (subst s3; destruct t; exact Hlen).
    rewrite Hl3. destruct (W3 t') as [E|[Et E]]; rewrite E in Hin; [eapply B; eauto|]. apply I4 in Hin. destruct Hin as [Hin _]. eapply B; eauto.
Qed.

(* ------------------------------------------------------------------ primitives that touch neither requests nor queues *)
Lemma reqs_drop_conn c s : reqs (drop_conn c s) = reqs s.
Proof. unfold drop_conn. destruct (get_conn s c); [|reflexivity]. destruct (Nat.eqb _ _); reflexivity. Qed.
Lemma reqs_drop_all l : forall s, reqs (drop_all l s) = reqs s.
Proof. induction l as [|[c a] l IH]; intros s; cbn [drop_all]; [reflexivity|]. rewrite IH. apply reqs_drop_conn. Qed.
Lemma reqs_pop_loop thr rl : forall s, reqs (snd (pop_loop thr rl s)) = reqs s.
Proof.
  induction rl as [|[c a] rl IH]; intros s; cbn [pop_loop]; [reflexivity|].
  destruct (match thr with Some y => (a <? y)%N | None => false end); cbn [snd]; [rewrite reqs_drop_all; apply reqs_drop_conn|].
  destruct (is_open s c); cbn [snd]; [reflexivity|]. rewrite IH. apply reqs_drop_conn.
Qed.
Lemma reqs_pooled_drop p s : reqs (pooled_drop p s) = reqs s.
Proof. destruct p as [c t]. unfold pooled_drop. destruct (share_of s c); [apply reqs_drop_conn|reflexivity]. Qed.

Lemma rx_drop_reqs' ck s : reqs (snd (rx_drop ck s)) = reqs s.
Proof. unfold rx_drop. destruct (k_waiter ck), (k_slot ck); cbn [snd]; try reflexivity; apply reqs_pooled_drop. Qed.

Lemma WQ_drop_conn x c s : WQ x s -> WQ x (drop_conn c s).
Proof. apply WQ_toks; [apply reqs_drop_conn|apply toks_drop_conn]. Qed.
Lemma WQ_pooled_drop x p s : WQ x s -> WQ x (pooled_drop p s).
Proof. apply WQ_toks; [apply reqs_pooled_drop|apply toks_pooled_drop]. Qed.
Lemma WQ_rx_drop x ck s : WQ x s -> WQ x (snd (rx_drop ck s)).
Proof. apply WQ_toks; [apply rx_drop_reqs'|apply toks_rx_drop]. Qed.
Lemma WQ_connector_poll x rid b s : WQ x s -> WQ x (snd (connector_poll rid b s)).
Proof. apply WQ_toks; [unfold connector_poll; dm; reflexivity|apply toks_connector_poll]. Qed.
Lemma WQ_pool_pop x to t s : WQ x s -> WQ x (snd (pool_pop to t s)).
Proof.
  intros H. unfold pool_pop.
  pose proof (reqs_pop_loop (expiry_threshold to (now s)) (rev (p_idle (get_tok s t))) s) as R.
  pose proof (toks_pop_loop (expiry_threshold to (now s)) (rev (p_idle (get_tok s t))) s) as T.
  destruct (pop_loop _ _ _) as [[r rest] s1]. cbn [snd] in *.
  apply (WQ_same x s1); [destruct t; reflexivity|intros t'; apply wtg_upd_tok_other; reflexivity|]. apply (WQ_toks x s); assumption.
Qed.
Lemma WQ_register x cfg t c s : WQ x s -> WQ x (snd (register cfg t c s)).
Proof.
  intros H. unfold register. destruct (g_pool cfg && negb (t =? 0)); [destruct (share_of s c)|]; cbn [snd]; try exact H.
  destruct (is_open s c); [|exact H]. apply WQ_pool_push. apply (WQ_toks x s); [reflexivity|reflexivity|exact H].
Qed.

(* the excepted request *)
Lemma WQ_weaken x s : WQ None s -> WQ x s.
Proof. intros [Q P B]. constructor; intros; [eapply Q|eapply P|eapply B]; eauto; discriminate. Qed.
Lemma WQ_set_req_x r v s : WQ (Some r) s -> WQ (Some r) (set_req r v s).
Proof.
  intros [Q P B]. constructor.
  - intros r' ck Hx. rewrite get_req_set_req. destruct (Nat.eqb_spec r r'); [congruence|]. apply Q. exact Hx.
  - intros t w ck Hx Hin. rewrite get_req_set_req. destruct (Nat.eqb_spec r w); [congruence|]. eapply P; eauto.
  - intros t w b Hin. cbn. rewrite upd_nth_len. eapply B; eauto.
Qed.
Lemma WQ_close r s : WQ (Some r) s ->
  (forall ck, get_req s r = Some (RCheckout ck) -> wq s r ck /\ wok ck /\ (forall t, In (r, true) (wtg s t) -> k_inner ck = IWaiting)) ->
  WQ None s.
Proof.
  intros [Q P B] Hr. constructor.
  - intros r' ck _ H. destruct (Nat.eq_dec r' r) as [->|Hn]; [destruct (Hr ck H) as (A & A' & _); auto|apply Q; congruence].
  - intros t w ck _ Hin H. destruct (Nat.eq_dec w r) as [->|Hn]; [destruct (Hr ck H) as (_ & _ & C); eauto|eapply P; eauto; congruence].
  - exact B.
Qed.

(* ------------------------------------------------------------------ composite functions *)
Lemma WQ_checkout_poll cfg rid ck s : WQ (Some rid) s -> WQ (Some rid) (snd (checkout_poll cfg rid ck s)).
Proof.
  intros H. unfold checkout_poll. destruct (waiter_poll ck) as [w ck1]. destruct w; cbn [snd]; auto.
  assert (Hconn : WQ (Some rid) (snd (let '(r, s0) := connector_poll rid ByReq s in
               match r with
               | CPending => (KPending, ck1, s0)
               | CReady res =>
                   let '(ck0, s1) := rx_drop ck1 s0 in
                   let ck2 := k_set_inner IConnected ck0 in
                   let s2 := set_req rid (RCheckout ck2) s1 in
                   match res with
                   | inl c => let '(p, s3) := register cfg (k_token ck2) c s2 in (KReady (inl p), ck2, s3)
                   | inr e => (KReady (inr e), ck2, s2)
                   end
               end))).
  { pose proof (WQ_connector_poll (Some rid) rid ByReq s H) as H1. destruct (connector_poll rid ByReq s) as [r s1]. cbn [snd] in H1.
    destruct r as [|res]; cbn [snd]; [exact H1|].
    pose proof (WQ_rx_drop (Some rid) ck1 s1 H1) as H2. destruct (rx_drop ck1 s1) as [ck2 s2]. cbn [snd] in H2.
    pose proof (WQ_set_req_x rid (RCheckout (k_set_inner IConnected ck2)) s2 H2) as H3.
    destruct res as [c|e]; cbn [snd]; [|exact H3].
    pose proof (WQ_register (Some rid) cfg (k_token (k_set_inner IConnected ck2)) c _ H3) as H4.
    destruct (register _ _ _ _) as [p s3]. exact H4. }
  destruct (k_inner ck1); cbn [snd]; auto.
  destruct (k_conn ck1) as [c|]; cbn [snd]; auto.
  pose proof (WQ_rx_drop (Some rid) (k_set_conn None ck1) s H) as H2. destruct (rx_drop (k_set_conn None ck1) s) as [ck2 s2]. cbn [snd] in H2.
  pose proof (WQ_set_req_x rid (RCheckout ck2) s2 H2) as H3.
  pose proof (WQ_register (Some rid) cfg (k_token ck2) c _ H3) as H4. destruct (register _ _ _ _) as [p s3]. exact H4.
Qed.

Lemma WQ_checkout_drop x cfg rid ck s : WQ x s -> WQ x (checkout_drop cfg rid ck s).
Proof.
  intros H. unfold checkout_drop.
  set (s1 := match k_conn ck with
             | Some c => if is_open s c && (g_pool cfg && negb (k_token ck =? 0)) then pool_push (g_max_idle cfg) (k_token ck) c s else drop_conn c s
             | None => s end).
  assert (H1 : WQ x s1).
  { subst s1. destruct (k_conn ck) as [c|]; [|exact H].
    match goal with |- context [if ?b then pool_push _ _ _ _ else _] => destruct b end; [apply WQ_pool_push|apply WQ_drop_conn]; exact H. }
  match goal with |- context [rx_drop ck ?y] => set (s2 := y) end.
  assert (H2 : WQ x s2).
  { subst s2. destruct (match k_inner ck with IDelayDrop => _ | _ => false end); [apply (WQ_toks x s1); [reflexivity|reflexivity|exact H1]|].
    match goal with |- context [if ?b then pool_cancel _ _ _ else _] => destruct b end; [apply WQ_pool_cancel|]; exact H1. }
  pose proof (WQ_rx_drop x ck s2 H2) as H3. destruct (rx_drop ck s2) as [ck' s3]. cbn [snd] in H3.
  assert (H4 : WQ x (upd_dial rid (d_set_stage DGone) s3)) by (apply (WQ_toks x s3); [reflexivity|reflexivity|exact H3]).
  destruct (k_inner ck); try exact H3; try exact H4. destruct (match get_dial s1 rid with Some d => _ | None => false end); assumption.
Qed.

(* what a pending poll leaves of the checkout *)
Lemma checkout_poll_pending cfg rid ck s : fst (fst (checkout_poll cfg rid ck s)) = KPending ->
  snd (fst (checkout_poll cfg rid ck s)) = snd (waiter_poll ck) /\ toks (snd (checkout_poll cfg rid ck s)) = toks s
  /\ reqs (snd (checkout_poll cfg rid ck s)) = reqs s /\ (forall p, fst (waiter_poll ck) <> WConnected p).
Proof.
  unfold checkout_poll. destruct (waiter_poll ck) as [w ck1]. destruct w; cbn [fst snd]; try discriminate.
  - intros _. repeat split; discriminate.
  - assert (Hconn : fst (fst (let '(r, s0) := connector_poll rid ByReq s in
               match r with
               | CPending => (KPending, ck1, s0)
               | CReady res =>
                   let '(ck0, s1) := rx_drop ck1 s0 in
                   let ck2 := k_set_inner IConnected ck0 in
                   let s2 := set_req rid (RCheckout ck2) s1 in
                   match res with
                   | inl c => let '(p, s3) := register cfg (k_token ck2) c s2 in (KReady (inl p), ck2, s3)
                   | inr e => (KReady (inr e), ck2, s2)
                   end
               end)) = KPending ->
             snd (fst (let '(r, s0) := connector_poll rid ByReq s in
               match r with
               | CPending => (KPending, ck1, s0)
               | CReady res =>
                   let '(ck0, s1) := rx_drop ck1 s0 in
                   let ck2 := k_set_inner IConnected ck0 in
                   let s2 := set_req rid (RCheckout ck2) s1 in
                   match res with
                   | inl c => let '(p, s3) := register cfg (k_token ck2) c s2 in (KReady (inl p), ck2, s3)
                   | inr e => (KReady (inr e), ck2, s2)
                   end
               end)) = ck1 /\
             toks (snd (let '(r, s0) := connector_poll rid ByReq s in
               match r with
               | CPending => (KPending, ck1, s0)
               | CReady res =>
                   let '(ck0, s1) := rx_drop ck1 s0 in
                   let ck2 := k_set_inner IConnected ck0 in
                   let s2 := set_req rid (RCheckout ck2) s1 in
                   match res with
                   | inl c => let '(p, s3) := register cfg (k_token ck2) c s2 in (KReady (inl p), ck2, s3)
                   | inr e => (KReady (inr e), ck2, s2)
                   end
               end)) = toks s /\
             reqs (snd (let '(r, s0) := connector_poll rid ByReq s in
               match r with
               | CPending => (KPending, ck1, s0)
               | CReady res =>
                   let '(ck0, s1) := rx_drop ck1 s0 in
                   let ck2 := k_set_inner IConnected ck0 in
                   let s2 := set_req rid (RCheckout ck2) s1 in
                   match res with
                   | inl c => let '(p, s3) := register cfg (k_token ck2) c s2 in (KReady (inl p), ck2, s3)
                   | inr e => (KReady (inr e), ck2, s2)
                   end
               end)) = reqs s /\ (forall p, WContinue <> WConnected p)).
    { pose proof (toks_connector_poll rid ByReq s) as T1.
      assert (R1 : reqs (snd (connector_poll rid ByReq s)) = reqs s) by (unfold connector_poll; dm; reflexivity).
      destruct (connector_poll rid ByReq s) as [r s1]. cbn [snd] in T1, R1.
      destruct r as [|res]; cbn [fst snd]; [intros _; repeat split; auto; discriminate|].
      destruct (rx_drop ck1 s1) as [ck2 s2]. destruct res as [c|e]; [destruct (register _ _ _ _) as [p s3]|]; cbn [fst snd]; discriminate. }
    destruct (k_inner ck1); cbn [fst snd]; try discriminate; try exact Hconn.
    destruct (k_conn ck1) as [c|]; cbn [fst snd]; [|intros _; repeat split; discriminate].
    destruct (rx_drop (k_set_conn None ck1) s) as [ck2 s2]. destruct (register _ _ _ _) as [p s3]. cbn [fst snd]. discriminate.
Qed.

Lemma wp_keep ck : (forall p, fst (waiter_poll ck) <> WConnected p) ->
  let ck1 := snd (waiter_poll ck) in
  k_token ck1 = k_token ck /\ k_inner ck1 = k_inner ck /\ k_conn ck1 = k_conn ck /\
  (k_waiter ck1 <> WNoPool -> k_waiter ck1 = k_waiter ck /\ k_slot ck = None /\ k_txdropped ck = false /\ k_txdropped ck1 = false /\ k_slot ck1 = None).
Proof.
  intros Hn. unfold waiter_poll in *. destruct (k_waiter ck) eqn:Ew; cbn in *.
  - destruct (k_slot ck) eqn:Es; cbn in *; [exfalso; eapply Hn; reflexivity|]. destruct (k_txdropped ck) eqn:Et; cbn; repeat split; auto; try contradiction; congruence.
  - destruct (k_slot ck) eqn:Es; cbn in *; [exfalso; eapply Hn; reflexivity|]. destruct (k_txdropped ck) eqn:Et; cbn; repeat split; auto; try contradiction; congruence.
  - repeat split; auto; contradiction.
Qed.

Lemma WQ_emit x e s : WQ x s -> WQ x (emit e s).
Proof. apply WQ_toks; reflexivity. Qed.
Lemma WQ_unwake x r s : WQ x s -> WQ x (unwake_req r s).
Proof. apply WQ_toks; reflexivity. Qed.
Lemma WQ_hold_release x r p s : WQ x s -> WQ x (hold_release r p s).
Proof. intros H. unfold hold_release. apply WQ_pooled_drop. apply WQ_emit. apply (WQ_toks x s); [reflexivity|reflexivity|exact H]. Qed.

Lemma WQ_close_nock r s : WQ (Some r) s -> ~ isck s r -> WQ None s.
Proof. intros H Hn. apply (WQ_close r s H). intros ck Hq. exfalso. apply Hn. exists ck. exact Hq. Qed.

Lemma not_isck_checkout_drop cfg rid ck s r : ~ isck s r -> ~ isck (checkout_drop cfg rid ck s) r.
Proof.
  intros Hn Hi. apply Hn. revert Hi. unfold checkout_drop.
  set (s1 := match k_conn ck with
             | Some c => if is_open s c && (g_pool cfg && negb (k_token ck =? 0)) then pool_push (g_max_idle cfg) (k_token ck) c s else drop_conn c s
             | None => s end).
  assert (F1 : mdf s s1).
  { subst s1. destruct (k_conn ck) as [c|]; [|apply mdf_refl].
    match goal with |- context [if ?b then pool_push _ _ _ _ else _] => destruct b end; [apply mdf_pool_push|apply mdf_drop_conn]. }
  match goal with |- context [rx_drop ck ?y] => set (s2 := y) end.
  assert (F2 : isck s2 r -> isck s1 r).
  { subst s2. destruct (match k_inner ck with IDelayDrop => _ | _ => false end); [intros H; exact H|].
    match goal with |- context [if ?b then pool_cancel _ _ _ else _] => destruct b end; [|intros H; exact H].
    intros H. apply (rel_req_isck _ _ r (mf_req _ _ (mdf_pool_cancel (k_token ck) rid s1) r)). exact H. }
  pose proof (mdf_rx_drop ck s2) as F3. destruct (rx_drop ck s2) as [ck' s3]. cbn [snd] in F3.
  assert (H3 : isck s3 r -> isck s r).
  { intros H. apply (rel_req_isck _ _ r (mf_req _ _ F1 r)). apply F2. apply (rel_req_isck _ _ r (mf_req _ _ F3 r)). exact H. }
  destruct (k_inner ck); try exact H3. destruct (match get_dial s1 rid with Some d => _ | None => false end); exact H3.
Qed.

Lemma MD_like_rlen cfg rid ck s : List.length (reqs (snd (checkout_poll cfg rid ck s))) = List.length (reqs s).
Proof.
  unfold checkout_poll. destruct (waiter_poll ck) as [w ck1]. destruct w; cbn [snd]; try reflexivity.
  assert (Hconn : List.length (reqs (snd (let '(r, s0) := connector_poll rid ByReq s in
               match r with
               | CPending => (KPending, ck1, s0)
               | CReady res =>
                   let '(ck0, s1) := rx_drop ck1 s0 in
                   let ck2 := k_set_inner IConnected ck0 in
                   let s2 := set_req rid (RCheckout ck2) s1 in
                   match res with
                   | inl c => let '(p, s3) := register cfg (k_token ck2) c s2 in (KReady (inl p), ck2, s3)
                   | inr e => (KReady (inr e), ck2, s2)
                   end
               end))) = List.length (reqs s)).
  { assert (Q1 : reqs (snd (connector_poll rid ByReq s)) = reqs s) by (unfold connector_poll; dm; reflexivity).
    destruct (connector_poll rid ByReq s) as [r s1]. cbn [snd] in Q1.
    destruct r as [|res]; cbn [snd]; [rewrite Q1; reflexivity|].
    pose proof (rx_drop_reqs' ck1 s1) as Q2. destruct (rx_drop ck1 s1) as [ck2 s2]. cbn [snd] in Q2.
    destruct res as [c|e]; cbn [snd].
    - pose proof (pf_rlen _ _ (pf_register cfg (k_token (k_set_inner IConnected ck2)) c (set_req rid (RCheckout (k_set_inner IConnected ck2)) s2))) as Q3.
      destruct (register _ _ _ _) as [p s3]. cbn [snd] in *. rewrite Q3. cbn. rewrite upd_nth_len, Q2, Q1. reflexivity.
    - cbn. rewrite upd_nth_len, Q2, Q1. reflexivity. }
  destruct (k_inner ck1); cbn [snd]; try reflexivity; try exact Hconn.
  destruct (k_conn ck1) as [c|]; cbn [snd]; [|reflexivity].
  pose proof (rx_drop_reqs' (k_set_conn None ck1) s) as Q2. destruct (rx_drop (k_set_conn None ck1) s) as [ck2 s2]. cbn [snd] in Q2.
  pose proof (pf_rlen _ _ (pf_register cfg (k_token ck2) c (set_req rid (RCheckout ck2) s2))) as Q3.
  destruct (register _ _ _ _) as [p s3]. cbn [snd] in *. rewrite Q3. cbn. rewrite upd_nth_len, Q2. reflexivity.
Qed.

Lemma not_isck_set_req r v s0 : (forall ck, v <> RCheckout ck) -> ~ isck (set_req r v s0) r.
Proof.
  intros Hv [ck Hc]. rewrite get_req_set_req, Nat.eqb_refl in Hc. destruct (get_req s0 r); [|discriminate]. cbn in Hc. inversion Hc. eapply Hv; eauto.
Qed.

Lemma wok_wp ck : (forall p, fst (waiter_poll ck) <> WConnected p) -> wok ck -> wok (snd (waiter_poll ck)).
Proof.
  intros Hn. unfold wok, waiter_poll in *.
  destruct (k_waiter ck) eqn:Ew, (k_slot ck) eqn:Es, (k_txdropped ck) eqn:Et; cbn in *;
    try (exfalso; eapply Hn; reflexivity); destruct (k_inner ck); cbn; rewrite ?Ew, ?Et; intros H; auto;
    destruct H as [Ha Hb]; try discriminate; auto.
Qed.

Lemma WQ_do_poll cfg r s : WQ None s -> WQ None (do_poll cfg r s).
Proof.
  intros H. unfold do_poll. destruct (get_req s r) as [[|ck|p fin pl| |]|] eqn:Er; try exact H.
  - apply (WQ_close_nock r); [apply WQ_set_req_x, WQ_emit, WQ_unwake, WQ_weaken, H|].
    apply not_isck_set_req. discriminate.
  - destruct (wq_q _ _ H r ck ltac:(discriminate) Er) as [Q1 Q2].
    assert (Qp : forall t, In (r, true) (wtg s t) -> k_inner ck = IWaiting) by (intros t Hin; eapply (wq_p _ _ H); eauto; discriminate).
    pose proof (WQ_checkout_poll cfg r ck (unwake_req r s) (WQ_unwake _ r s (WQ_weaken (Some r) s H))) as H1.
    pose proof (checkout_poll_pending cfg r ck (unwake_req r s)) as Hp.
    assert (Hl : List.length (reqs (snd (checkout_poll cfg r ck (unwake_req r s)))) = List.length (reqs s)).
    { apply (MD_like_rlen cfg r ck (unwake_req r s)). }
    destruct (checkout_poll cfg r ck (unwake_req r s)) as [[res ck1] s1]. cbn [fst snd] in *.
    assert (Hin : r < List.length (reqs s1)) by (rewrite Hl; eapply nth_error_lt; exact Er).
    destruct (nth_error_ex _ _ Hin) as [q1 Eq1].
    destruct res as [|[p|e]].
    + destruct (Hp eq_refl) as (-> & T1 & R1 & Hnc). destruct (wp_keep ck Hnc) as (K1 & K2 & K3 & K4).
      apply WQ_emit. apply (WQ_close r); [apply WQ_set_req_x; exact H1|].
      intros ck' Hq. rewrite (isck_set_req_same s1 r q1 _ Eq1) in Hq. inversion Hq; subst ck'. clear Hq.
      assert (Hw : forall t, wtg (set_req r (RCheckout (snd (waiter_poll ck))) s1) t = wtg s t)
        by (intros t; unfold wtg; change (get_tok (set_req r (RCheckout (snd (waiter_poll ck))) s1) t) with (get_tok s1 t);
            rewrite (get_tok_frame (unwake_req r s) s1 t T1); reflexivity).
      split; [|split].
      * intros A B C. destruct (K4 A) as (E1 & E2 & E3 & E4 & E5). rewrite Hw, K1. apply Q1; congruence.
      * apply wok_wp; assumption.
      * intros t Hi. rewrite Hw in Hi. rewrite K2. apply (Qp t Hi).
    + destruct (match get_conn s1 (fst p) with Some cn => _ | None => _ end) as [[[sh op_] rd] hs].
      apply WQ_emit. apply (WQ_close_nock r); [apply WQ_checkout_drop, WQ_set_req_x, (WQ_toks (Some r) s1); [reflexivity|reflexivity|exact H1]|].
      apply not_isck_checkout_drop. apply not_isck_set_req. discriminate.
    + apply WQ_emit. apply (WQ_close_nock r); [apply WQ_checkout_drop, WQ_set_req_x; exact H1|].
      apply not_isck_checkout_drop. apply not_isck_set_req. discriminate.
  - destruct fin.
    + apply WQ_emit, WQ_hold_release. apply (WQ_close_nock r); [apply WQ_set_req_x, WQ_unwake, WQ_weaken, H|].
      apply not_isck_set_req. discriminate.
    + apply WQ_emit. apply (WQ_close_nock r); [apply WQ_set_req_x, WQ_unwake, WQ_weaken, H|].
      apply not_isck_set_req. discriminate.
Qed.

Lemma WQ_do_cancel cfg r s : WQ None s -> WQ None (do_cancel cfg r s).
Proof.
  intros H. unfold do_cancel. destruct (get_req s r) as [[|ck|p fin pl| |]|] eqn:Er; try exact H; try (apply WQ_unwake; exact H).
  - apply WQ_unwake. apply (WQ_close_nock r); [apply WQ_set_req_x, WQ_weaken, H|apply not_isck_set_req; discriminate].
  - apply WQ_unwake. apply (WQ_close_nock r); [apply WQ_checkout_drop, WQ_set_req_x, WQ_weaken, H|].
    apply not_isck_checkout_drop, not_isck_set_req. discriminate.
  - apply WQ_unwake, WQ_hold_release. apply (WQ_close_nock r); [apply WQ_set_req_x, WQ_weaken, H|apply not_isck_set_req; discriminate].
Qed.

Lemma WQ_run_task cfg tid s : WQ None s -> WQ None (run_task cfg tid s).
Proof.
  intros H. unfold run_task. destruct (nth tid (tasks s) None) as [[c t|rid t own]|]; [| |exact H].
  - destruct (get_conn s c) as [cn|]; [|apply (WQ_toks None s); [reflexivity|reflexivity|exact H]].
    assert (Hfin : forall e, WQ None (let s1 := finish_task tid (emit e s) in
              if is_open s1 c && negb (t =? 0) && g_pool cfg then pool_push (g_max_idle cfg) t c s1 else drop_conn c s1)).
    { intros e. cbv zeta. assert (H1 : WQ None (finish_task tid (emit e s))) by (apply (WQ_toks None s); [reflexivity|reflexivity|exact H]).
      destruct (_ && _); [apply WQ_pool_push|apply WQ_drop_conn]; exact H1. }
    destruct (negb (c_open cn)); [apply Hfin|]. destruct (c_share cn || c_ready cn); [apply Hfin|].
    apply (WQ_toks None s); [reflexivity|reflexivity|exact H].
  - pose proof (WQ_connector_poll None rid (ByTask tid) s H) as H1. destruct (connector_poll rid (ByTask tid) s) as [r s1]. cbn [snd] in H1.
    destruct r as [|[c|e]]; [exact H1| |].
    + pose proof (WQ_register None cfg t c s1 H1) as H2. destruct (register cfg t c s1) as [p s2]. cbn [snd] in H2.
      apply WQ_pooled_drop. match goal with |- WQ None (finish_task tid ?y) => apply (WQ_toks None y); [reflexivity|reflexivity|] end.
      destruct (_ && _); [apply WQ_pool_cancel|]; exact H2.
    + match goal with |- WQ None (finish_task tid ?y) => apply (WQ_toks None y); [reflexivity|reflexivity|] end.
      destruct (_ && _); [apply WQ_pool_cancel|]; exact H1.
Qed.

Lemma WQ_bg_loop cfg fuel : forall s, WQ None s -> WQ None (bg_loop cfg fuel s).
Proof.
  induction fuel as [|f IH]; intros s H; cbn [bg_loop]; [exact H|].
  destruct (runq s) as [|tid rest]; [exact H|]. apply IH, WQ_run_task. apply (WQ_toks None s); [reflexivity|reflexivity|exact H].
Qed.

(* ------------------------------------------------------------------ Issue *)
Lemma get_req_add q d s r : get_req (add_req q d s) r = if Nat.ltb r (List.length (reqs s)) then get_req s r
                                                        else if Nat.eqb r (List.length (reqs s)) then Some q else None.
Proof. unfold get_req, add_req. cbn [reqs set_dials set_reqs]. apply nth_error_snoc. Qed.

Lemma WQ_add_nock q d s : WQ None s -> (forall ck, q <> RCheckout ck) -> WQ None (add_req q d s).
Proof.
  intros [Q P B] Hq. constructor.
  - intros r ck _. rewrite get_req_add. destruct (Nat.ltb_spec r (List.length (reqs s))); [apply Q; discriminate|].
    destruct (Nat.eqb r (List.length (reqs s))); [|discriminate]. intros E. inversion E. exfalso. eapply Hq; eauto.
  - intros t w ck _ Hin. rewrite get_req_add. destruct (Nat.ltb_spec w (List.length (reqs s))); [eapply P; eauto; discriminate|].
    destruct (Nat.eqb w (List.length (reqs s))); [|discriminate]. intros E. inversion E. exfalso. eapply Hq; eauto.
  - intros t w b Hin. cbn. rewrite app_length. cbn. specialize (B t w b Hin). lia.
Qed.

(* a new checkout that is queued under its token *)
Lemma WQ_enqueue s s5 t ck pend : WQ None s ->
  reqs s5 = reqs s ++ [RCheckout ck] -> wtg s5 t = wtg s t ++ [(List.length (reqs s), pend)] -> (forall t', t' <> t -> wtg s5 t' = wtg s t') ->
  k_token ck = t -> wok ck -> (pend = true -> k_inner ck = IWaiting) -> WQ None s5.
Proof.
  intros [Q P B] Hr Hw Ho Ht Hok Hp. set (rid := List.length (reqs s)) in *.
  assert (Hg : forall r, get_req s5 r = if Nat.ltb r rid then get_req s r else if Nat.eqb r rid then Some (RCheckout ck) else None)
    by (intros r; unfold get_req; rewrite Hr; apply nth_error_snoc).
  assert (Hsub : forall t' w b, In (w, b) (wtg s t') -> In (w, b) (wtg s5 t')).
  { intros t' w b Hin. destruct (Nat.eq_dec t' t) as [->|Hn]; [rewrite Hw; apply in_or_app; left; exact Hin|rewrite (Ho t' Hn); exact Hin]. }
  assert (Hnew : forall t' w b, In (w, b) (wtg s5 t') -> In (w, b) (wtg s t') \/ (t' = t /\ w = rid /\ b = pend)).
  { intros t' w b Hin. destruct (Nat.eq_dec t' t) as [->|Hn]; [|left; rewrite <- (Ho t' Hn); exact Hin].
    rewrite Hw in Hin. apply in_app_or in Hin. destruct Hin as [Hin|[E|[]]]; [left; exact Hin|right]. inversion E. auto. }
  constructor.
  - intros r ck' _. rewrite Hg. destruct (Nat.ltb_spec r rid) as [Hl|Hge].
    + intros H0. destruct (Q r ck' ltac:(discriminate) H0) as [Q1 Q2]. split; [|exact Q2]. intros A A' A''.
      destruct (In_fst_ex _ _ (Q1 A A' A'')) as [b Hb]. eapply In_fst_in. apply Hsub. exact Hb.
    + destruct (Nat.eqb_spec r rid) as [->|]; [|discriminate]. intros E. inversion E; subst ck'. split; [|exact Hok].
      intros _ _ _. rewrite Ht, Hw, map_app. apply in_or_app. right. left. reflexivity.
  - intros t' w ck' _ Hin. rewrite Hg. destruct (Hnew t' w true Hin) as [Hold|(-> & -> & Hb)].
    + pose proof (B t' w true Hold) as Hlt. fold rid in Hlt. destruct (Nat.ltb_spec w rid); [|lia]. intros H0. eapply P; eauto. discriminate.
    + destruct (Nat.ltb_spec rid rid); [lia|]. rewrite Nat.eqb_refl. intros E. inversion E; subst ck'. apply Hp. auto.
  - intros t' w b Hin. rewrite Hr, app_length. cbn. destruct (Hnew t' w b Hin) as [Hold|(_ & -> & _)]; [specialize (B t' w b Hold)|]; fold rid; lia.
Qed.

Lemma wtg_key_insert k s t : wtg (snd (key_insert k s)) t = wtg s t.
Proof.
  unfold key_insert. destruct (find_key k (keys s) 1); cbn [snd]; [reflexivity|]. unfold wtg. destruct t as [|i]; [reflexivity|].
  cbn [get_tok toks set_toks set_keys]. destruct (Nat.lt_ge_cases i (List.length (toks s))) as [Hl|Hg]; [rewrite app_nth1 by exact Hl; reflexivity|].
  rewrite app_nth2 by exact Hg. rewrite (nth_overflow (toks s)) by exact Hg. destruct (i - List.length (toks s)) as [|[|j]]; reflexivity.
Qed.

Lemma wtg_append t rid pend s : 1 <= t -> t <= List.length (toks s) ->
  let s3 := upd_tok t (fun q => set_waiting (p_waiting q ++ [(rid, pend)]) q) s in
  wtg s3 t = wtg s t ++ [(rid, pend)] /\ (forall t', t' <> t -> wtg s3 t' = wtg s t').
Proof.
  intros H1 H2. cbv zeta. split.
  - unfold wtg. rewrite (get_tok_upd_same t _ s) by lia. reflexivity.
  - intros t' Hn. unfold wtg. destruct (get_tok_upd_cases t (fun q => set_waiting (p_waiting q ++ [(rid, pend)]) q) s t') as [->|[E _]]; [reflexivity|contradiction].
Qed.

Lemma WQ_add_popped ck d s : WQ None s -> k_txdropped ck = true -> k_inner ck = IConnected -> k_conn ck <> None ->
  WQ None (add_req (RCheckout ck) d s).
Proof.
  intros [Q P B] Ht Hi Hc. constructor.
  - intros r ck' _. rewrite get_req_add. destruct (Nat.ltb_spec r (List.length (reqs s))); [apply Q; discriminate|].
    destruct (Nat.eqb r (List.length (reqs s))); [|discriminate]. intros E. inversion E; subst ck'.
    split; [intros _ _ E'; congruence|unfold wok; rewrite Hi; exact Hc].
  - intros t' w ck' _ Hin. rewrite get_req_add. pose proof (B t' w true Hin) as Hlt.
    destruct (Nat.ltb_spec w (List.length (reqs s))); [|lia]. eapply P; eauto. discriminate.
  - intros t' w b Hin. cbn. rewrite app_length. cbn. specialize (B t' w b Hin). lia.
Qed.

Lemma reqs_wake_tasks l : forall s, reqs (wake_tasks l s) = reqs s.
Proof. induction l as [|t l IH]; intros s; cbn [wake_tasks]; [reflexivity|]. rewrite IH. unfold wake_task. destruct (existsb _ _); reflexivity. Qed.

Lemma reqs_pool_pop to t s : reqs (snd (pool_pop to t s)) = reqs s.
Proof.
  unfold pool_pop. pose proof (reqs_pop_loop (expiry_threshold to (now s)) (rev (p_idle (get_tok s t))) s) as R.
  destruct (pop_loop _ _ _) as [[r rest] s1]. cbn [snd] in *. destruct t; exact R.
Qed.
Lemma reqs_key_insert k s : reqs (snd (key_insert k s)) = reqs s.
Proof. unfold key_insert. destruct (find_key k (keys s) 1); reflexivity. Qed.

Lemma WQ_do_issue cfg u p s : g_pool cfg = true -> MD cfg None s -> WQ None s -> WQ None (do_issue cfg u p s).
Proof.
  intros Hp HM H. unfold do_issue. set (s0 := set_woken (woken s ++ [false]) s).
  assert (H0 : WQ None s0) by (apply (WQ_toks None s); [reflexivity|reflexivity|exact H]).
  assert (HM0 : MD cfg None s0) by (apply (MD_mdf cfg None s); [apply mdf_frame; reflexivity|exact HM]).
  destruct (nth u (g_uris cfg) None) as [k|]; [|apply (WQ_add_nock RError _ s0 H0); discriminate].
  rewrite Hp. cbn [negb].
  destruct (MD_key_insert cfg k s0 HM0) as [_ Ht1]. pose proof (key_insert_pos k s0) as Ht. pose proof (reqs_key_insert k s0) as R1.
  assert (H1 : WQ None (snd (key_insert k s0))) by (apply (WQ_same None s0); [exact R1|apply wtg_key_insert|exact H0]).
  destruct (key_insert k s0) as [t s1]. cbn [fst snd] in *.
  pose proof (WQ_pool_pop None (g_timeout cfg) t s1 H1) as H2. pose proof (pf_tl _ _ (pf_pool_pop (g_timeout cfg) t s1)) as L2.
  pose proof (reqs_pool_pop (g_timeout cfg) t s1) as R2.
  destruct (pool_pop (g_timeout cfg) t s1) as [found s2]. cbn [snd] in H2, L2, R2.
  assert (Rs : reqs s2 = reqs s) by (rewrite R2, R1; reflexivity).
  destruct found as [c|].
  { apply (WQ_add_popped _ _ s2 H2); [reflexivity|reflexivity|discriminate]. }
  set (pend := match p_marker (get_tok s2 t) with Some _ => true | None => false end).
  replace (List.length (reqs s)) with (List.length (reqs s2)) by (rewrite Rs; reflexivity).
  destruct (wtg_append t (List.length (reqs s2)) pend s2 Ht ltac:(lia)) as [A1 A2].
  set (s3 := upd_tok t (fun q => set_waiting (p_waiting q ++ [(List.length (reqs s2), pend)]) q) s2) in *.
  assert (R3 : reqs s3 = reqs s2) by (subst s3; destruct t; reflexivity).
  destruct pend eqn:Epend.
  - eapply (WQ_enqueue s2 _ t _ true H2).
    + unfold add_req. cbn [reqs set_dials set_reqs]. rewrite R3. reflexivity.
    + exact A1.
    + exact A2.
    + reflexivity.
    + exact I.
    + reflexivity.
  - set (own := match p with H2 => true | H1 => false end).
    set (s4 := if own then upd_tok t (set_marker (Some (List.length (reqs s2)))) s3 else s3).
    assert (R4 : reqs s4 = reqs s3) by (subst s4; destruct own; [destruct t|]; reflexivity).
    assert (W4 : forall t', wtg s4 t' = wtg s3 t') by (intros t'; subst s4; destruct own; [apply wtg_upd_tok_other; reflexivity|reflexivity]).
    eapply (WQ_enqueue s2 _ t _ false H2).
    + unfold add_req. cbn [reqs set_dials set_reqs]. rewrite R4, R3. reflexivity.
    + match goal with |- wtg ?y t = _ => change (wtg y t) with (wtg s4 t) end. rewrite W4. exact A1.
    + intros t' Hn. match goal with |- wtg ?y t' = _ => change (wtg y t') with (wtg s4 t') end. rewrite W4. apply A2. exact Hn.
    + reflexivity.
    + unfold wok, new_ck. cbn. destruct (g_cont cfg); cbn; auto.
    + discriminate.
Qed.

Lemma WQ_step cfg s o : g_pool cfg = true -> MD cfg None s -> WQ None s -> WQ None (step cfg s o).
Proof.
  intros Hp HM H. unfold step. assert (H0 : WQ None (set_out [] s)) by (apply (WQ_toks None s); [reflexivity|reflexivity|exact H]).
  assert (HM0 : MD cfg None (set_out [] s)) by (apply (MD_mdf cfg None s); [apply mdf_frame; reflexivity|exact HM]).
  destruct o.
  - apply WQ_do_issue; assumption.
  - apply WQ_do_poll; assumption.
  - apply WQ_do_cancel; assumption.
  - unfold do_finish. destruct (get_req (set_out [] s) r) as [[|ck|p fin pl| |]|] eqn:Er; try exact H0.
    assert (H1 : WQ None (set_req r (RHolding p true false) (set_out [] s)))
      by (apply (WQ_close_nock r); [apply WQ_set_req_x, WQ_weaken, H0|apply not_isck_set_req; discriminate]).
    destruct pl; [apply (WQ_toks None (set_req r (RHolding p true false) (set_out [] s))); [reflexivity|reflexivity|exact H1]|exact H1].
  - unfold do_upgrade. destruct (get_req (set_out [] s) r) as [[|ck|p fin pl| |]|]; try exact H0.
    apply (WQ_toks None (set_out [] s)); [| |exact H0]; [|rewrite toks_drain_conn_waiters; reflexivity].
    unfold drain_conn_waiters. destruct (get_conn _ _); [|reflexivity]. rewrite reqs_wake_tasks. reflexivity.
  - unfold do_dial_done. destruct (get_dial (set_out [] s) r) as [d|]; [|exact H0]. destruct (d_stage d); try exact H0.
    apply (WQ_toks None (set_out [] s)); [| |exact H0]; [|rewrite toks_wake_poller; reflexivity].
    destruct (d_polled d) as [[|tid]|]; cbn [wake_poller]; try reflexivity. unfold wake_task. destruct (existsb _ _); reflexivity.
  - unfold do_conn_ready. destruct (get_conn (set_out [] s) c); [|exact H0].
    apply (WQ_toks None (set_out [] s)); [| |exact H0]; [|rewrite toks_drain_conn_waiters; reflexivity].
    unfold drain_conn_waiters. destruct (get_conn _ _); [|reflexivity]. rewrite reqs_wake_tasks. reflexivity.
  - unfold do_conn_close. destruct (get_conn (set_out [] s) c); [|exact H0].
    apply (WQ_toks None (set_out [] s)); [| |exact H0]; [|rewrite toks_drain_conn_waiters; reflexivity].
    unfold drain_conn_waiters. destruct (get_conn _ _); [|reflexivity]. rewrite reqs_wake_tasks. reflexivity.
  - unfold do_bg. apply WQ_bg_loop. exact H0.
  - apply (WQ_toks None (set_out [] s)); [reflexivity|reflexivity|exact H0].
Qed.

Lemma WQ_init : WQ None init.
Proof.
  constructor.
  - intros r ck _ H. destruct r; discriminate.
  - intros t w ck _ H. unfold wtg in H. destruct t as [|[|t]]; destruct H.
  - intros t w b H. unfold wtg in H. destruct t as [|[|t]]; destruct H.
Qed.
