(* C14 — A waiting request takes a freed connection; its own dial is not wasted.
   MAIN THEOREM (proved, no axioms): for every configuration and every operation sequence the executable
   monitor mon_C14 (pool/Spec.v) accepts the trace of the pool model:
       c14_monitor : forall cfg ops, mon_C14 cfg ops (trace cfg ops) = true.
   Proof (pool/ProofsC14.v): the monitor is split into one monitor per clause (pool/BaseC14.v, mon_C14_split):
     (a1) a released open connection is not parked while a request waits for its origin
          - model invariant "no token has an idle entry and a queued waiter at once" (pool/TokC14.v);
     (a2) a request that was offered a connection takes it at its next poll
          - tracker/model relation R4 (pool/ATrkC14.v) on top of the linearity invariant of C02 and the key
            environment of C06;
     (a3) a request is not left waiting for its own dial while an open, usable non-shared connection for its
          origin sits parked: a request whose poll returns Pending is still queued under its token, so that
          token's idle list is empty (pool/WaitC14.v, pool/A3C14.v);
     (b)  the connection of an abandoned attempt ends up available in the pool (idle, surplus, or offered
          to a request that was already waiting), and only with continue_after_preemption
          - obligations discharged within the same run of the background tasks (pool/OblC14.v, pool/BTrkC14.v);
     (b') an abandoned dial whose outcome has been scripted completes at the next run of the background tasks
          - model invariant MD and the run-queue fuel argument (pool/DialC14.v, pool/BgC14.v).
   The per-primitive lemmas below (all states, all inputs) are kept: they are the building blocks of the
   argument and still hold. *)
From HD Require Import common.Base http.Model pool.Model pool.Spec pool.ProofsLite pool.ProofsLite2 pool.ProofsC14.

Theorem c14_monitor : forall cfg ops, mon_C14 cfg ops (trace cfg ops) = true.
Proof. exact mon_C14_holds. Qed.
Print Assumptions c14_monitor.

Theorem c14_offer_before_park_partial : forall n t c s,
  share_of s c = false ->
  existsb (fun w => rx_live s (fst w)) (p_waiting (get_tok s t)) = true ->
  p_idle (get_tok (pool_push n t c s) t) = p_idle (get_tok s t).
Proof. exact push_offers_first. Qed.
Print Assumptions c14_offer_before_park_partial.

Theorem c14_receiver_survives_partial : forall ck,
  k_waiter ck = WIdle -> k_slot ck = None -> k_txdropped ck = false ->
  fst (waiter_poll ck) = WContinue /\ k_waiter (snd (waiter_poll ck)) = WIdle /\ k_rxpolled (snd (waiter_poll ck)) = true.
Proof. exact waiter_idle_keeps_receiver. Qed.
Print Assumptions c14_receiver_survives_partial.

Theorem c14_takes_delivery_partial : forall ck p,
  k_waiter ck <> WNoPool -> k_slot ck = Some p -> fst (waiter_poll ck) = WConnected p.
Proof. exact waiter_takes_delivery. Qed.
Print Assumptions c14_takes_delivery_partial.

Theorem c14_abandoned_continues_partial : forall cfg rid ck s d,
  k_inner ck = IDelayDrop -> k_conn ck = None -> get_dial s rid = Some d -> d_stage d <> DNew ->
  exists s1, checkout_drop cfg rid ck s = snd (rx_drop ck s1) /\ s1 = spawn (TDelayed rid (k_token ck) (k_owner ck)) s.
Proof. exact abandoned_dial_continues. Qed.
Print Assumptions c14_abandoned_continues_partial.

(* D16 repair: a connector that never started is not started in the background *)
Theorem c14_unstarted_not_continued_partial : forall cfg rid ck s d d',
  k_inner ck = IDelayDrop -> k_conn ck = None -> get_dial s rid = Some d -> d_stage d = DNew ->
  get_dial (checkout_drop cfg rid ck s) rid = Some d' -> d_stage d' = DGone.
Proof. exact unstarted_dial_not_continued. Qed.
Print Assumptions c14_unstarted_not_continued_partial.

Theorem c14_abandoned_dropped_partial : forall cfg rid ck s d,
  k_inner ck = IConnecting -> get_dial (checkout_drop cfg rid ck s) rid = Some d -> d_stage d = DGone.
Proof. exact abandoned_dial_dropped. Qed.
Print Assumptions c14_abandoned_dropped_partial.

(* the D3 witness on the repaired model: b is served by a's released connection at its next poll
   although it had been polled before the release; and the abandoned dial of b completes in the
   background and its connection is parked *)
Example c14_example :
  let cfg := mkCfg true None 8 true [Some ("http", "a.test")%string] in
  let ops := [Issue 0 H1; Poll 0; DialDone 0 (DOk false); Poll 0; Issue 0 H1; Poll 1; Finish 0; Poll 0; ConnReady 0; Bg; Poll 1;
              DialDone 1 (DOk false); Bg] in
  mon_C14 cfg ops (trace cfg ops) = true
  /\ existsb (fun e => match e with EHand 1 0 _ _ _ _ => true | _ => false end) (o_events (nth 10 (trace cfg ops) (mkObs [] [] []))) = true
  /\ map sn_idle (o_snap (last (trace cfg ops) (mkObs [] [] []))) = [[1]].
Proof. vm_compute. auto. Qed.
