(* C14 — A waiting request takes a freed connection; its own dial is not wasted.
   Statements only; proofs in pool/ProofsLite.v, pool/ProofsLite2.v.
   FULL STATEMENT: forall cfg ops, mon_C14 cfg ops (trace cfg ops) = true.
   PROVED SO FAR (partial), for all states: a non-shareable connection pushed into the pool while a
   live waiter is queued for its origin is moved to that waiter and NOT added to the idle list; a
   connecting checkout keeps its receiver across NotReady polls (D3 repair) and takes a delivered
   connection at its very next poll, before looking at its own connector; a dropped checkout
   re-spawns its connector exactly when it was created under continue_after_preemption, and otherwise
   its dial is Gone afterwards.
   MISSING: the tracker simulation (which requests are live waiters of which origin) and the
   background-completion clause for abandoned dials. *)
From HD Require Import common.Base http.Model pool.Model pool.Spec pool.ProofsLite pool.ProofsLite2.

Theorem c14_offer_before_park_partial : forall n t c s,
  share_of s c = false ->
  existsb (fun w => rx_live s (fst w)) (p_waiting (get_tok s t)) = true ->
  p_idle (get_tok (pool_push n t c s) t) = p_idle (get_tok s t).
Proof. exact push_offers_first. Qed.
Print Assumptions c14_offer_before_park_partial.

Theorem c14_receiver_survives_partial : forall ck,
  k_waiter ck = WIdle -> k_slot ck = None -> k_txdropped ck = false ->
  fst (waiter_poll ck) = WContinue /\ k_waiter (snd (waiter_poll ck)) = WIdle /\ k_rxpolled (snd (waiter_poll ck)) = true.
Proof. exact waiter_idle_keeps_receiver. Qed.
Print Assumptions c14_receiver_survives_partial.

Theorem c14_takes_delivery_partial : forall ck p,
  k_waiter ck <> WNoPool -> k_slot ck = Some p -> fst (waiter_poll ck) = WConnected p.
Proof. exact waiter_takes_delivery. Qed.
Print Assumptions c14_takes_delivery_partial.

Theorem c14_abandoned_continues_partial : forall cfg rid ck s d,
  k_inner ck = IDelayDrop -> k_conn ck = None -> get_dial s rid = Some d -> d_stage d <> DNew ->
  exists s1, checkout_drop cfg rid ck s = snd (rx_drop ck s1) /\ s1 = spawn (TDelayed rid (k_token ck) (k_owner ck)) s.
Proof. exact abandoned_dial_continues. Qed.
Print Assumptions c14_abandoned_continues_partial.

(* D16 repair: a connector that never started is not started in the background *)
Theorem c14_unstarted_not_continued_partial : forall cfg rid ck s d d',
  k_inner ck = IDelayDrop -> k_conn ck = None -> get_dial s rid = Some d -> d_stage d = DNew ->
  get_dial (checkout_drop cfg rid ck s) rid = Some d' -> d_stage d' = DGone.
Proof. exact unstarted_dial_not_continued. Qed.
Print Assumptions c14_unstarted_not_continued_partial.

Theorem c14_abandoned_dropped_partial : forall cfg rid ck s d,
  k_inner ck = IConnecting -> get_dial (checkout_drop cfg rid ck s) rid = Some d -> d_stage d = DGone.
Proof. exact abandoned_dial_dropped. Qed.
Print Assumptions c14_abandoned_dropped_partial.

(* the D3 witness on the repaired model: b is served by a's released connection at its next poll
   although it had been polled before the release; and the abandoned dial of b completes in the
   background and its connection is parked *)
Example c14_example :
  let cfg := mkCfg true None 8 true [Some ("http", "a.test")%string] in
  let ops := [Issue 0 H1; Poll 0; DialDone 0 (DOk false); Poll 0; Issue 0 H1; Poll 1; Finish 0; Poll 0; ConnReady 0; Bg; Poll 1;
              DialDone 1 (DOk false); Bg] in
  mon_C14 cfg ops (trace cfg ops) = true
  /\ existsb (fun e => match e with EHand 1 0 _ _ _ _ => true | _ => false end) (o_events (nth 10 (trace cfg ops) (mkObs [] [] []))) = true
  /\ map sn_idle (o_snap (last (trace cfg ops) (mkObs [] [] []))) = [[1]].
Proof. vm_compute. auto. Qed.
