(* C14 — A waiting request takes a freed connection; its own dial is not wasted.
   MAIN THEOREM (proved, no axioms): for every configuration and every operation sequence the executable
   monitor mon_C14 (pool/Spec.v) accepts the trace of the pool model:
       c14_monitor : forall cfg ops, mon_C14 cfg ops (trace cfg ops) = true.
   Proof (pool/ProofsC14.v): the monitor is split into one monitor per clause (pool/BaseC14.v, mon_C14_split):
     (a1) a released open connection is not parked while a request waits for its origin
          - model invariant "no token has an idle entry and a queued waiter at once" (pool/TokC14.v);
     (a2) a request that was offered a connection takes it at its next poll
          - tracker/model relation R4 (pool/ATrkC14.v) on top of the linearity invariant of C02 and the key
            environment of C06;
     (a3) a request is not left waiting for its own dial while an open, usable non-shared connection for its
          origin sits parked: a request whose poll returns Pending is still queued under its token, so that
          token's idle list is empty (pool/WaitC14.v, pool/A3C14.v);
     (b)  the connection of an abandoned attempt ends up available in the pool (idle, surplus, or offered
          to a request that was already waiting), and only with continue_after_preemption
          - obligations discharged within the same run of the background tasks (pool/OblC14.v, pool/BTrkC14.v);
     (b') an abandoned dial whose outcome has been scripted completes at the next run of the background tasks
          - model invariant MD and the run-queue fuel argument (pool/DialC14.v, pool/BgC14.v).
   The per-primitive lemmas below (all states, all inputs) are kept: they are the building blocks of the
   argument and still hold.
   TWO-PHASE DIAL (M-CKPHASE, directory coq/ckphase): M-POOL resolves a dial in ONE environment step, so no poll of
   M-POOL finds "transport connected, handshake pending".  The component ckphase models one origin with the
   transport and the handshake resolved separately (Checkout::poll polls the waiter BEFORE the connector on
   every poll) and the theorems c14_ckphase_* below say, for ALL operation sequences and both
   continue_after_preemption settings: the monitor mon_ckphase accepts every model trace; (a) a released
   connection is offered to the longest-waiting request WHATEVER phase its own dial is in and serves it at its
   next poll; (b) the abandoned dial runs on and completes into the pool (cont) / is dropped at once and can
   not be reached by the environment any more (no cont); (c) every connection is in exactly one place, no
   connection serves two requests, no request is served twice (on every trace the monitor accepts).
   ckphase/Overlap.v: where both models apply (DialDone = transport;handshake with no poll in between) they
   agree (400 histories by computation). *)
From HD Require Import common.Base http.Model pool.Model pool.Spec pool.ProofsLite pool.ProofsLite2 pool.ProofsC14.
From HD Require ckphase.Model ckphase.Spec ckphase.Proofs ckphase.Sim ckphase.Clauses ckphase.Overlap.
Module CK := HD.ckphase.Model.
Module CKS := HD.ckphase.Spec.
Module CKC := HD.ckphase.Clauses.

Theorem c14_monitor : forall cfg ops, mon_C14 cfg ops (trace cfg ops) = true.
Proof. exact mon_C14_holds. Qed.
Print Assumptions c14_monitor.

Theorem c14_offer_before_park_partial : forall n t c s,
  share_of s c = false ->
  existsb (fun w => rx_live s (fst w)) (p_waiting (get_tok s t)) = true ->
  p_idle (get_tok (pool_push n t c s) t) = p_idle (get_tok s t).
Proof. exact push_offers_first. Qed.
Print Assumptions c14_offer_before_park_partial.

Theorem c14_receiver_survives_partial : forall ck,
  k_waiter ck = WIdle -> k_slot ck = None -> k_txdropped ck = false ->
  fst (waiter_poll ck) = WContinue /\ k_waiter (snd (waiter_poll ck)) = WIdle /\ k_rxpolled (snd (waiter_poll ck)) = true.
Proof. exact waiter_idle_keeps_receiver. Qed.
Print Assumptions c14_receiver_survives_partial.

Theorem c14_takes_delivery_partial : forall ck p,
  k_waiter ck <> WNoPool -> k_slot ck = Some p -> fst (waiter_poll ck) = WConnected p.
Proof. exact waiter_takes_delivery. Qed.
Print Assumptions c14_takes_delivery_partial.

Theorem c14_abandoned_continues_partial : forall cfg rid ck s d,
  k_inner ck = IDelayDrop -> k_conn ck = None -> get_dial s rid = Some d -> d_stage d <> DNew ->
  exists s1, checkout_drop cfg rid ck s = snd (rx_drop ck s1) /\ s1 = spawn (TDelayed rid (k_token ck) (k_owner ck)) s.
Proof. exact abandoned_dial_continues. Qed.
Print Assumptions c14_abandoned_continues_partial.

(* D16 repair: a connector that never started is not started in the background *)
Theorem c14_unstarted_not_continued_partial : forall cfg rid ck s d d',
  k_inner ck = IDelayDrop -> k_conn ck = None -> get_dial s rid = Some d -> d_stage d = DNew ->
  get_dial (checkout_drop cfg rid ck s) rid = Some d' -> d_stage d' = DGone.
Proof. exact unstarted_dial_not_continued. Qed.
Print Assumptions c14_unstarted_not_continued_partial.

Theorem c14_abandoned_dropped_partial : forall cfg rid ck s d,
  k_inner ck = IConnecting -> get_dial (checkout_drop cfg rid ck s) rid = Some d -> d_stage d = DGone.
Proof. exact abandoned_dial_dropped. Qed.
Print Assumptions c14_abandoned_dropped_partial.

(* the D3 witness on the repaired model: b is served by a's released connection at its next poll
   although it had been polled before the release; and the abandoned dial of b completes in the
   background and its connection is parked *)
Example c14_example :
  let cfg := mkCfg true None 8 true [Some ("http", "a.test")%string] in
  let ops := [Issue 0 H1; Poll 0; DialDone 0 (DOk false); Poll 0; Issue 0 H1; Poll 1; Finish 0; Poll 0; ConnReady 0; Bg; Poll 1;
              DialDone 1 (DOk false); Bg] in
  mon_C14 cfg ops (trace cfg ops) = true
  /\ existsb (fun e => match e with EHand 1 0 _ _ _ _ => true | _ => false end) (o_events (nth 10 (trace cfg ops) (mkObs [] [] []))) = true
  /\ map sn_idle (o_snap (last (trace cfg ops) (mkObs [] [] []))) = [[1]].
Proof. vm_compute. auto. Qed.

(* ================================================================ two-phase dial (coq/ckphase) *)
Theorem c14_ckphase_monitor : forall cn ops, CKS.mon_ckphase cn ops (CK.trace cn ops) = true.
Proof. exact HD.ckphase.Sim.mon_ckphase_holds. Qed.
Print Assumptions c14_ckphase_monitor.

(* (a) the connection of a finished request goes to the request that has waited longest; nothing is assumed
   about that request's own dial: unpolled, transport pending, handshake pending, resolved but unseen *)
Theorem c14_ckphase_release_offers : forall cn ops0 c r0 r, let s := CK.final cn ops0 in
  CK.holder s c = Some r0 -> CKC.mst s r = Some (CK.RWait None) -> (forall r', r' < r -> CKC.mst s r' <> Some (CK.RWait None)) ->
  CKC.mst (CK.step s (CK.Release c)) r = Some (CK.RWait (Some c)).
Proof. exact CKC.c_release_offers. Qed.
Print Assumptions c14_ckphase_release_offers.

(* (a) whatever happens in between (its own transport connecting, its own handshake completing, other requests,
   other releases), the request is served by the offered connection at its next poll *)
Theorem c14_ckphase_offer_served_next_poll : forall cn ops0 ops r c, let s := CK.final cn ops0 in
  CKC.mst s r = Some (CK.RWait (Some c)) -> (forall o, In o ops -> o <> CK.Poll r /\ o <> CK.Cancel r) ->
  let s1 := snd (CK.run s ops) in
  In (CK.EHand r c) (CK.evs (CK.step s1 (CK.Poll r))) /\ CKC.mst (CK.step s1 (CK.Poll r)) r = Some (CK.RServed c).
Proof. exact CKC.c_offer_served_next_poll. Qed.
Print Assumptions c14_ckphase_offer_served_next_poll.

(* (b) continue_after_preemption: the pre-empted / cancelled attempt (connect already called) is not dropped *)
Theorem c14_ckphase_dial_continues : forall cn ops0 r q got o, let s := CK.final cn ops0 in
  CK.cont s = true -> nth_error (CK.reqs s) r = Some q -> CK.r_st q = CK.RWait got -> CK.started (CK.r_dial q) = true ->
  (o = CK.Cancel r \/ (o = CK.Poll r /\ got <> None)) ->
  ~ In (CK.EDrop r) (CK.evs (CK.step s o)) /\
  match CK.d_t (CK.r_dial q), CK.d_h (CK.r_dial q) with
  | Some true, Some true => In (CK.ENew (CK.nconn s) r) (CK.evs (CK.step s o))
  | Some false, _ | Some true, Some false => True
  | _, _ => exists q', nth_error (CK.reqs (CK.step s o)) r = Some q' /\ CK.d_bg (CK.r_dial q') = true /\ CK.d_ph (CK.r_dial q') <> CK.DGone
  end.
Proof. exact CKC.c_dial_continues. Qed.
Print Assumptions c14_ckphase_dial_continues.

Theorem c14_ckphase_dial_survives_transport : forall cn ops0 r q, let s := CK.final cn ops0 in
  nth_error (CK.reqs s) r = Some q -> CK.d_bg (CK.r_dial q) = true -> CK.d_ph (CK.r_dial q) <> CK.DGone -> CK.d_t (CK.r_dial q) = None ->
  exists q', nth_error (CK.reqs (CK.step s (CK.TDone r true))) r = Some q' /\
             CK.d_bg (CK.r_dial q') = true /\ CK.d_ph (CK.r_dial q') <> CK.DGone /\ CK.d_t (CK.r_dial q') = Some true.
Proof. exact CKC.c_dial_survives_transport. Qed.
Print Assumptions c14_ckphase_dial_survives_transport.

(* (b) ... and when its handshake completes the connection exists and is available: offered to the
   longest-waiting request or idle *)
Theorem c14_ckphase_dial_completes_into_pool : forall cn ops0 r q, let s := CK.final cn ops0 in
  nth_error (CK.reqs s) r = Some q -> CK.d_bg (CK.r_dial q) = true -> CK.d_ph (CK.r_dial q) <> CK.DGone -> CK.d_t (CK.r_dial q) = Some true ->
  let s' := CK.step s (CK.HDone r true) in
  CK.evs s' = [CK.ENew (CK.nconn s) r] /\ CK.nconn s' = S (CK.nconn s) /\
  (In (CK.nconn s) (CK.idle s') \/ exists r', CKC.mst s' r' = Some (CK.RWait (Some (CK.nconn s)))).
Proof. exact CKC.c_dial_completes_into_pool. Qed.
Print Assumptions c14_ckphase_dial_completes_into_pool.

(* (b) without continue_after_preemption: dropped at once, makes no connection, and is gone *)
Theorem c14_ckphase_dial_dropped : forall cn ops0 r q got o, let s := CK.final cn ops0 in
  CK.cont s = false -> nth_error (CK.reqs s) r = Some q -> CK.r_st q = CK.RWait got ->
  (o = CK.Cancel r \/ (o = CK.Poll r /\ got <> None)) ->
  (CK.started (CK.r_dial q) = true -> In (CK.EDrop r) (CK.evs (CK.step s o))) /\
  (forall c, ~ In (CK.ENew c r) (CK.evs (CK.step s o))) /\
  CK.d_ph (CK.get_dial (CK.step s o) r) = CK.DGone.
Proof. exact CKC.c_dial_dropped. Qed.
Print Assumptions c14_ckphase_dial_dropped.

Theorem c14_ckphase_gone_dial_unreachable : forall cn ops0 r ok, let s := CK.final cn ops0 in
  CK.d_ph (CK.get_dial s r) = CK.DGone ->
  CK.step s (CK.TDone r ok) = CK.set_evs [] s /\ CK.step s (CK.HDone r ok) = CK.set_evs [] s.
Proof. exact CKC.c_gone_dial_ignores_environment. Qed.
Print Assumptions c14_ckphase_gone_dial_unreachable.

(* (c) every connection ever made is in exactly one place (checkout / one waiter's channel / one request's hands /
   idle list): nothing lost, nothing duplicated *)
Theorem c14_ckphase_connections_conserved : forall cn ops, let s := CK.final cn ops in
  Permutation.Permutation (flat_map HD.ckphase.Proofs.rloc (CK.reqs s) ++ CK.idle s) (seq 0 (CK.nconn s)).
Proof. exact CKC.connections_conserved. Qed.
Print Assumptions c14_ckphase_connections_conserved.

Theorem c14_ckphase_no_connection_serves_two : forall cn ops0 r1 r2 c, let s := CK.final cn ops0 in
  CKC.mst s r1 = Some (CK.RServed c) -> CKC.mst s r2 = Some (CK.RServed c) -> r1 = r2.
Proof. exact CKC.c_no_connection_serves_two. Qed.
Print Assumptions c14_ckphase_no_connection_serves_two.

(* (c) on every trace the monitor accepts (the implementation's included) no request is handed a connection twice *)
Theorem c14_ckphase_served_once : forall cn ops obs r,
  CKS.mon_ckphase cn ops obs = true -> CKC.hands r (flat_map CK.o_evs obs) <= 1.
Proof. exact CKC.accepted_trace_serves_once. Qed.
Print Assumptions c14_ckphase_served_once.

(* non-vacuity: the scenario of the seeded regression "waiter closed once own transport connected" *)
Example c14_ckphase_example :
  let ops := [CK.Issue; CK.Poll 0; CK.TDone 0 true; CK.HDone 0 true; CK.Poll 0; CK.Issue; CK.Poll 1; CK.TDone 1 true; CK.Poll 1;
              CK.Release 0; CK.Poll 1] in
  CKS.mon_ckphase false ops (CK.trace false ops) = true /\
  map CK.o_evs (skipn 8 (CK.trace false ops)) = [[CK.EPend 1]; []; [CK.EHand 1 0; CK.EDrop 1]] /\
  map CK.o_evs (skipn 8 (CK.trace true (ops ++ [CK.HDone 1 true]))) = [[CK.EPend 1]; []; [CK.EHand 1 0]; [CK.ENew 1 1]].
Proof. vm_compute. repeat split. Qed.
