(* C09 — One misbehaving connection never takes the server down.
   Statements only; proofs in server/Proofs.v.  Quantification: every configuration (plain or
   graceful server; h1 / h2 / auto) and every list of environment events of any length: connects
   of any client kind, cancelled connects, listener loss, make-service failure, signal, settles,
   requests advanced stage by stage, disconnects, garbage, handler errors. *)
From HD Require Import common.Base server.Model server.Spec server.Proofs.

(* the model's trace satisfies the executable specification, for all event lists *)
Theorem c09_monitor : forall g evs, mon_C09 (trace (run g evs)) = true.
Proof. exact model_mon_C09. Qed.
Check c09_monitor : forall g evs, mon_C09 (trace (run g evs)) = true.
Print Assumptions c09_monitor.
