(* C09 — One misbehaving connection never takes the server down.
   Statements only; proofs in server/Proofs.v.  Quantification: every configuration (plain or
   graceful server; h1 / h2 / auto) and every list of environment events of any length: connects
   of any client kind, cancelled connects, listener loss, make-service failure, signal, settles,
   requests advanced stage by stage, disconnects, garbage, handler errors — in any order. *)
From HD Require Import common.Base server.Model server.Spec server.Proofs.

(* the model's trace satisfies the executable specification, for all event lists *)
Theorem c09_monitor : forall g evs, mon_C09 (trace (run g evs)) = true.
Proof. exact model_mon_C09. Qed.
Check c09_monitor : forall g evs, mon_C09 (trace (run g evs)) = true.
Print Assumptions c09_monitor.

(* whatever per-connection faults are interleaved: without a signal, loss of the listener or a
   make-service failure the serving future is still pending *)
Theorem c09_survives : forall g evs,
  no_listener_loss evs -> no_make_failure evs -> no_signal evs ->
  serving_result (run g evs) = StillServing.
Proof. exact c09_survives_events. Qed.
(* no_signal: the signal is resolved neither from outside (ESignal) nor by the make-service from
   inside the accept loop (EMakeSignal) *)
Check c09_survives : forall g evs,
  ~ In ELost evs -> ~ In EMakeFail evs ->
  (~ In ESignal evs /\ forall n, ~ In (EMakeSignal n) evs) -> serving_result (run g evs) = StillServing.
Print Assumptions c09_survives.

(* ... and at every quiescent point (OQuiet), reading the counters of the trace so far: the future
   has not completed; every client that asked to connect has been accepted and its driver spawned;
   every connection on which no fault was injected, and for whose requests the environment has
   done everything it has to do, has received every response (settled09, server/Proofs.v) *)
Theorem c09_others_served : forall g evs a b c,
  no_listener_loss evs -> no_make_failure evs -> no_signal evs ->
  trace (run g evs) = a ++ OQuiet :: b ->
  k_server (tracks ms0 a) = None
  /\ (c < k_n (tracks ms0 a) -> settled09 (k_conns (tracks ms0 a) c)).
Proof. exact c09_others_served_events. Qed.
Check c09_others_served : forall g evs a b c,
  no_listener_loss evs -> no_make_failure evs -> no_signal evs ->
  trace (run g evs) = a ++ OQuiet :: b ->
  k_server (tracks ms0 a) = None
  /\ (c < k_n (tracks ms0 a) ->
      let y := k_conns (tracks ms0 a) c in
      (m_connected y = true -> m_accepted y = true /\ m_spawned y = true)
      /\ (m_fault y = false -> m_begun y = m_envdone y -> m_resp y = m_begun y)).
Print Assumptions c09_others_served.

(* non-vacuity: a cancelled connect (D2), garbage on connection 0, a handler error on connection 1,
   then a fresh client 2 is accepted and served; the future is still pending *)
Example c09_example :
  let evs := [ECancelled; ESettle; EConnect KRaw; EGarbage 0; EConnect KH1; EReq 1; EStep 1;
              EHandlerErr 1; EConnect KH1; EReq 2; EStep 2; EStep 2; EStep 2] in
  trace (run (mkCfg false PH1) evs)
  = [OCancel; OQuiet; OConnect 0; OAccept 0; OSpawn 0; OFault 0; ODone 0; OQuiet;
     OConnect 1; OAccept 1; OSpawn 1; OBegin 1; OHandler 1; OQuiet; OQuiet; OFault 1; ODone 1; OQuiet;
     OConnect 2; OAccept 2; OSpawn 2; OBegin 2; OHandler 2; OQuiet; OQuiet; OQuiet;
     OEnvDone 2; OResp 2; OQuiet]
  /\ serving_result (run (mkCfg false PH1) evs) = StillServing
  /\ no_listener_loss evs /\ no_make_failure evs /\ no_signal evs.
Proof.
  cbv zeta. split; [vm_compute; reflexivity |]. split; [vm_compute; reflexivity |].
  unfold no_listener_loss, no_make_failure, no_signal. cbn.
  repeat split; unfold not; intros;
    repeat match goal with
    | H : _ \/ _ |- _ => destruct H as [H | H]; [discriminate |]
    | H : False |- _ => contradiction
    end.
Qed.

(* dead on arrival (tcp / unix: reset or closed while in the listen backlog): both dead connections are
   accepted, spawned and their drivers end at once; the good client queued behind them is served *)
Example c09_dead_on_arrival :
  let evs := [EConnectDead; EConnectDead; EConnect KH1; ESettle; EReq 2; EStep 2; EStep 2; EStep 2] in
  let tr := trace (run (mkCfg false PH1) evs) in
  serving_result (run (mkCfg false PH1) evs) = StillServing
  /\ firstn 14 tr = [OConnect 0; OFault 0; OConnect 1; OFault 1; OConnect 2;
                     OAccept 0; OSpawn 0; ODone 0; OAccept 1; OSpawn 1; ODone 1; OAccept 2; OSpawn 2; OQuiet]
  /\ existsb (fun o => match o with OResp 2 => true | _ => false end) tr = true.
Proof. cbv zeta. repeat split; vm_compute; reflexivity. Qed.
