(* C04 — Idle connections are reused; HTTP/2 requests to an origin share one connection.
   Statements only; proofs in pool/ProofsC04.v (with pool/FramesC04.v, pool/ProofsC04a.v, pool/ProofsC04np.v,
   pool/ProofsC04s2.v) and, for the per-primitive lemmas, pool/ProofsLite.v, pool/ProofsLite2.v.
   FULL STATEMENT: forall cfg ops, mon_C04 cfg ops (trace cfg ops) = true.
   It is REFUTED by the faithful model (c04_refuted_D6 below, known finding D6: the shared handle is out
   of the idle list between the Issue that popped it and that request's first poll).  What is PROVED is
   every clause outside the D6 window (c04_monitor_but_D6): mon_C04_but_D6 is the conjunction (c04_split)
   of four clause monitors, each proved for every configuration and every history,
     S1   a request whose Issue saw a usable idle connection does not dial          (c04_monitor_S1)
     S2   no second HTTP/2 dial while an HTTP/2 attempt to the origin is in flight  (c04_monitor_S2)
     drop a non-multiplexed connection is only discarded closed, expired or surplus (c04_monitor_drop)
     np   no origin has a waiting request and a usable parked connection            (c04_monitor_np)
   In addition (pool/SpecC04d.v, proofs pool/FramesC04d.v + pool/ProofsC04d.v; check_prop 4 and 40 demand it too):
     dial no dial STARTS while the idle list of the request's origin (snapshot before the op) shows a
          usable connection - open for the tracker, not over the idle timeout         (c04_no_dial_while_idle)
   It needs no D6 exemption (in the D6 window the shared handle is out of the idle list); only a disabled
   pool is exempt.  c04_dial_example: it rejects the trace of the seeded change that drops the waiters
   behind the first one on an HTTP/1 hand-back, which mon_C04 accepts.
   The proof attempts found D17 (stale owns_attempt, repaired in the crate) and two imprecisions of the
   monitor (D6 follow-on blocker, ri_poph); ocaml/poolrand.ml is the random search that found them. *)
From HD Require Import common.Base http.Model pool.Model pool.Spec pool.SpecC04d pool.ProofsLite pool.ProofsLite2 pool.ProofsC04 pool.ProofsC04d.

Theorem c04_monitor_but_D6 : forall cfg ops, mon_C04_but_D6 cfg ops (trace cfg ops) = true.
Proof. exact mon_C04_but_D6_holds. Qed.
Print Assumptions c04_monitor_but_D6.

Theorem c04_split : forall cfg ops obs,
  mon_C04_but_D6 cfg ops obs = mon_C04_S1 cfg ops obs && mon_C04_S2 cfg ops obs && mon_C04_drop cfg ops obs && mon_C04_np cfg ops obs.
Proof. exact mon_C04_but_D6_split. Qed.
Print Assumptions c04_split.

Theorem c04_monitor_S1 : forall cfg ops, mon_C04_S1 cfg ops (trace cfg ops) = true.
Proof. exact mon_C04_S1_holds. Qed.
Print Assumptions c04_monitor_S1.

Theorem c04_monitor_S2 : forall cfg ops, mon_C04_S2 cfg ops (trace cfg ops) = true.
Proof. exact mon_C04_S2_holds. Qed.
Print Assumptions c04_monitor_S2.

Theorem c04_monitor_drop : forall cfg ops, mon_C04_drop cfg ops (trace cfg ops) = true.
Proof. exact mon_C04_drop_holds. Qed.
Print Assumptions c04_monitor_drop.

Theorem c04_monitor_np : forall cfg ops, mon_C04_np cfg ops (trace cfg ops) = true.
Proof. exact mon_C04_np_holds. Qed.
Print Assumptions c04_monitor_np.

(* S3 at the moment a dial starts: the request's own connect is never called while the pool snapshot
   before the op shows a usable idle connection for its origin *)
Theorem c04_no_dial_while_idle : forall cfg ops, mon_C04_dial cfg ops (trace cfg ops) = true.
Proof. exact mon_C04_dial_holds. Qed.
Print Assumptions c04_no_dial_while_idle.

Theorem c04_reuse_no_connector_partial : forall cfg u p s k t s1 c s2,
  nth u (g_uris cfg) None = Some k -> g_pool cfg = true ->
  key_insert k (set_woken (woken s ++ [false]) s) = (t, s1) ->
  pool_pop (g_timeout cfg) t s1 = (Some c, s2) ->
  nth_error (dials (do_issue cfg u p s)) (List.length (dials s2)) = Some (mkDial DGone p k (Some k) None).
Proof. exact issue_popped_has_no_connector. Qed.
Print Assumptions c04_reuse_no_connector_partial.

Theorem c04_wait_no_connector_partial : forall cfg u p s k t s1 s2,
  nth u (g_uris cfg) None = Some k -> g_pool cfg = true ->
  key_insert k (set_woken (woken s ++ [false]) s) = (t, s1) ->
  pool_pop (g_timeout cfg) t s1 = (None, s2) ->
  (exists o, p_marker (get_tok s2 t) = Some o) ->
  exists s3, nth_error (dials (do_issue cfg u p s)) (List.length (dials s3)) = Some (mkDial DGone p k (Some k) None)
             /\ dials s3 = dials s2.
Proof. exact issue_waiting_has_no_connector. Qed.
Print Assumptions c04_wait_no_connector_partial.

Theorem c04_dial_only_from_new_partial : forall rid b s,
  (forall d, get_dial s rid = Some d -> d_stage d <> DNew) ->
  out (snd (connector_poll rid b s)) = out s
  \/ exists c sh, out (snd (connector_poll rid b s)) = ENew c sh rid :: out s.
Proof. exact edial_only_from_new. Qed.
Print Assumptions c04_dial_only_from_new_partial.

Theorem c04_pop_returns_usable_partial : forall thr rl s c rest s',
  pop_loop thr rl s = (Some c, rest, s') ->
  is_open s c = true /\ s' = s' /\ exists at_, In (c, at_) rl /\ match thr with Some y => (at_ <? y)%N = false | None => True end.
Proof. exact pop_loop_some. Qed.
Print Assumptions c04_pop_returns_usable_partial.

(* known finding D6: the full monitor rejects this history of the faithful model (and of the code) *)
Theorem c04_refuted_D6 : exists cfg ops, mon_C04 cfg ops (trace cfg ops) = false /\ mon_C04_but_D6 cfg ops (trace cfg ops) = true.
Proof.
  exists (mkCfg true None 8 true [Some ("http", "a.test")%string]),
         [Issue 0 H2; Poll 0; DialDone 0 (DOk false); Poll 0; Issue 0 H2; Issue 0 H2; Poll 2].
  vm_compute. auto.
Qed.
Print Assumptions c04_refuted_D6.

(* non-vacuity: reuse happens (second request served on connection 0 without a dial), and the D4 / D5
   witnesses are accepted on the repaired model *)
Example c04_example :
  let cfg := mkCfg true None 8 true [Some ("http", "a.test")%string] in
  let reuse := [Issue 0 H1; Poll 0; DialDone 0 (DOk false); Poll 0; Finish 0; Poll 0; ConnReady 0; Bg; Issue 0 H1; Poll 1] in
  existsb (fun e => match e with EHand 1 0 _ _ _ _ => true | _ => false end) (o_events (last (trace cfg reuse) (mkObs [] [] []))) = true
  /\ mon_C04 cfg reuse (trace cfg reuse) = true
  /\ (let d4 := [Issue 0 H2; Poll 0; Issue 0 H2; Cancel 1; Issue 0 H2; Poll 2] in mon_C04 cfg d4 (trace cfg d4) = true)
  /\ (let d5 := reuse ++ [Finish 1; Poll 1; ConnReady 0; Bg; Issue 0 H1; Cancel 2; Issue 0 H1; Poll 3] in mon_C04 cfg d5 (trace cfg d5) = true).
Proof. vm_compute. auto. Qed.

(* non-vacuity of the dial clause.  Two holders (connections 0, 1), two queued requests 2, 3 that have
   not been polled; both holders finish and hand back.  Model (and code): connection 1 is delivered to
   request 3, which never dials.  [bad]: the observations of the seeded change that drops the waiters
   behind the first one on an HTTP/1 hand-back (the hand-back of connection 0 loses request 3's place,
   connection 1 is parked, request 3 dials at its first poll): mon_C04_dial rejects them, mon_C04 does not *)
Example c04_dial_example :
  let cfg := mkCfg true None 8 false [Some ("http", "a.test")%string] in
  let ops := [Issue 0 H1; Issue 0 H1; Poll 0; Poll 1; DialDone 0 (DOk false); DialDone 1 (DOk false); Poll 0; Poll 1;
              Issue 0 H1; Issue 0 H1; Finish 0; Poll 0; ConnReady 0; Bg; Finish 1; Poll 1; ConnReady 1; Bg; Poll 3] in
  let parked := [mkSnap 1 [1] 0 0 false] in
  let bad := firstn 13 (trace cfg ops) ++
             [mkObs [ERdy 0 true] [] []; mkObs [] [] [1]; mkObs [ERel 1 1; ERes 1 ROk] [] []; mkObs [] [] [];
              mkObs [ERdy 1 true] parked []; mkObs [EDial 3 ("http", "a.test")%string; EPend 3] parked []] in
  existsb (fun e => match e with EHand 3 1 _ _ _ _ => true | _ => false end) (o_events (last (trace cfg ops) (mkObs [] [] []))) = true
  /\ mon_C04_dial cfg ops (trace cfg ops) = true
  /\ mon_C04_dial cfg ops bad = false
  /\ mon_C04 cfg ops bad = true.
Proof. vm_compute. auto. Qed.
