(* C02 — A connection that cannot be multiplexed is used by at most one request at any moment: the pool
   never gives it to a request while another request still holds it, nor before it has reported itself
   ready again after its previous use, and never again after a protocol upgrade took it over.
   Statements only; proofs in pool/ProofsC02.v (invariant and step relation in pool/FramesC02.v).
   Quantification: every pool configuration (pooling on/off, any max_idle_per_host, any idle timeout,
   both continue_after_preemption settings, any URI table) and EVERY finite sequence of operations
   (issue / poll / cancel / finish / upgrade / dial outcomes / connection ready / connection closed /
   background run / clock tick), of any length.  The monitor judges every hand-off event [EHand] of
   every such history: for a non-shared connection the model's holder count at that instant is 0, the
   tracker has seen the previous holder's release, a "ready" report since the last hand-off, and no
   upgrade. *)
From HD Require Import common.Base http.Model pool.Model pool.Spec pool.FramesC02 pool.ProofsC02.
Local Open Scope list_scope.

(* the executable C02 monitor accepts the model's trace of every history *)
Theorem c02_monitor : forall cfg ops, mon_C02 cfg ops (trace cfg ops) = true.
Proof. exact mon_C02_holds. Qed.
Check c02_monitor : forall cfg ops, mon_C02 cfg ops (trace cfg ops) = true.
Print Assumptions c02_monitor.

(* state-level reading (linearity): in every reachable state a non-multiplexed connection id occurs at
   most once over all idle lists, waiter channel slots and popped connections of checkouts ([LA]),
   holders ([LH]) and hand-back tasks ([LT]) together *)
Theorem c02_linear : forall cfg ops c,
  share_of (run cfg ops) c = false ->
  cnt (LA None (run cfg ops)) c + cnt (LH None (run cfg ops)) c + cnt (LT (run cfg ops)) c <= 1.
Proof. exact run_linear. Qed.
Print Assumptions c02_linear.

(* a non-multiplexed connection that the pool can hand out (idle list, channel slot, checkout) has no holder *)
Theorem c02_idle_ready : forall cfg ops c,
  share_of (run cfg ops) c = false -> In c (LA None (run cfg ops)) ->
  exists cn, get_conn (run cfg ops) c = Some cn /\ c_holders cn = 0.
Proof. exact run_idle_ready. Qed.

(* a held non-multiplexed connection has exactly one holder *)
Theorem c02_held : forall cfg ops c,
  share_of (run cfg ops) c = false -> In c (LH None (run cfg ops)) ->
  exists cn, get_conn (run cfg ops) c = Some cn /\ c_holders cn = 1.
Proof. exact run_held. Qed.

(* non-vacuity: connection 0 is dialled for request 0, handed to it, released, reports ready, is parked
   by the background hand-back task, popped by request 1 and handed to request 1 with holder count 0 *)
Example c02_example :
  let cfg := mkCfg true None 1 false [Some ("http", "a.test")%string] in
  let ops := [Issue 0 H1; Poll 0; DialDone 0 (DOk false); Poll 0; Finish 0; Poll 0; ConnReady 0; Bg;
              Issue 0 H1; Poll 1] in
  existsb (fun e => match e with EHand 0 0 _ _ _ 0 => true | _ => false end) (o_events (nth 3 (trace cfg ops) (mkObs [] [] []))) = true
  /\ existsb (fun e => match e with ERdy 0 true => true | _ => false end) (o_events (nth 7 (trace cfg ops) (mkObs [] [] []))) = true
  /\ existsb (fun e => match e with EHand 1 0 _ _ _ 0 => true | _ => false end) (o_events (last (trace cfg ops) (mkObs [] [] []))) = true
  /\ mon_C02 cfg ops (trace cfg ops) = true.
Proof. vm_compute. auto. Qed.
