(* C02 — A connection that cannot be multiplexed is used by at most one request at any moment: the pool
   never gives it to a request while another request still holds it, nor before it has reported itself
   ready again after its previous use, and never again after a protocol upgrade took it over.
   Statements only; proofs in pool/ProofsC02.v (invariant and step relation in pool/FramesC02.v).
   Quantification: every pool configuration (pooling on/off, any max_idle_per_host, any idle timeout,
   both continue_after_preemption settings, any URI table) and EVERY finite sequence of operations
   (issue / poll / cancel / finish / upgrade / dial outcomes / connection ready / connection closed /
   background run / clock tick), of any length.  The monitor judges every hand-off event [EHand] of
   every such history: for a non-shared connection the model's holder count at that instant is 0, the
   tracker has seen the previous holder's release, a "ready" report since the last hand-off, and no
   upgrade. *)
From HD Require Import common.Base http.Model pool.Model pool.Spec pool.FramesC02 pool.ProofsC02.
Local Open Scope list_scope.

(* the executable C02 monitor accepts the model's trace of every history *)
Theorem c02_monitor : forall cfg ops, mon_C02 cfg ops (trace cfg ops) = true.
Proof. exact mon_C02_holds. Qed.
Check c02_monitor : forall cfg ops, mon_C02 cfg ops (trace cfg ops) = true.
Print Assumptions c02_monitor.

(* state-level reading (linearity): in every reachable state a non-multiplexed connection id occurs at
   most once over all idle lists, waiter channel slots and popped connections of checkouts ([LA]),
   holders ([LH]) and hand-back tasks ([LT]) together *)
Theorem c02_linear : forall cfg ops c,
  share_of (run cfg ops) c = false ->
  cnt (LA None (run cfg ops)) c + cnt (LH None (run cfg ops)) c + cnt (LT (run cfg ops)) c <= 1.
Proof. exact run_linear. Qed.
Print Assumptions c02_linear.

(* a non-multiplexed connection that the pool can hand out (idle list, channel slot, checkout) has no holder *)
Theorem c02_idle_ready : forall cfg ops c,
  share_of (run cfg ops) c = false -> In c (LA None (run cfg ops)) ->
  exists cn, get_conn (run cfg ops) c = Some cn /\ c_holders cn = 0.
Proof. exact run_idle_ready. Qed.

(* a held non-multiplexed connection has exactly one holder *)
Theorem c02_held : forall cfg ops c,
  share_of (run cfg ops) c = false -> In c (LH None (run cfg ops)) ->
  exists cn, get_conn (run cfg ops) c = Some cn /\ c_holders cn = 1.
Proof. exact run_held. Qed.

(* non-vacuity: connection 0 is dialled for request 0, handed to it, released, reports ready, is parked
   by the background hand-back task, popped by request 1 and handed to request 1 with holder count 0 *)
Example c02_example :
  let cfg := mkCfg true None 1 false [Some ("http", "a.test")%string] in
  let ops := [Issue 0 H1; Poll 0; DialDone 0 (DOk false); Poll 0; Finish 0; Poll 0; ConnReady 0; Bg;
              Issue 0 H1; Poll 1] in
  existsb (fun e => match e with EHand 0 0 _ _ _ 0 => true | _ => false end) (o_events (nth 3 (trace cfg ops) (mkObs [] [] []))) = true
  /\ existsb (fun e => match e with ERdy 0 true => true | _ => false end) (o_events (nth 7 (trace cfg ops) (mkObs [] [] []))) = true
  /\ existsb (fun e => match e with EHand 1 0 _ _ _ 0 => true | _ => false end) (o_events (last (trace cfg ops) (mkObs [] [] []))) = true
  /\ mon_C02 cfg ops (trace cfg ops) = true.
Proof. vm_compute. auto. Qed.

(* ------------------------------------------------------------------------------------------------
   M-CONN: the REAL connection type behind the pool (client/conn/connection.rs HttpConnection) against
   the contract the pool model assumes of a PoolableConnection (anchors "only connections that report
   can_share are cloned ... HttpConnection::reuse", "returns to the pool only after it reports ready
   again").  Model conn/Model.v (hyper's SendRequest readiness is oracle O1, transcribed as observed and
   compared on every run of this check by harness/src/bin/conn.rs), contract monitor conn/Spec.v, proofs
   conn/Proofs.v, link to the pool model's flags conn/PoolLink.v.  Quantification: both protocols, EVERY
   sequence of operations. *)
From HD Require conn.Model conn.Spec conn.Proofs conn.PoolLink.

Theorem c02_conn_monitor : forall (p : http.Model.proto) ops,
  conn.Spec.mon_conn p ops (conn.Model.hc_trace p ops) = true.
Proof. exact conn.Proofs.mon_conn_holds. Qed.
Print Assumptions c02_conn_monitor.

(* can_share = reuse().is_some() = "the connection is HTTP/2", constant along every history; version()
   is the protocol's *)
Theorem c02_conn_share_constant : forall (p : http.Model.proto) ops,
  let o := conn.Model.hc_obs (conn.Model.hc_run p ops) in
  conn.Model.o_share o = conn.Model.is_h2 p /\ conn.Model.o_reuse o = conn.Model.is_h2 p
  /\ conn.Model.o_ver o = http.Model.wire_version p.
Proof. exact conn.Proofs.share_constant. Qed.
Print Assumptions c02_conn_share_constant.

(* a handle obtained from reuse() observes the same open / closed / ready state as the original *)
Theorem c02_conn_clone_same : forall s, conn.Model.is_h2 (conn.Model.h_proto s) = true ->
  conn.Model.o_clone (conn.Model.hc_obs s)
  = Some (conn.Model.o_open (conn.Model.hc_obs s), conn.Model.o_share (conn.Model.hc_obs s), conn.Model.o_rdy (conn.Model.hc_obs s)).
Proof. exact conn.Proofs.clone_same. Qed.
Print Assumptions c02_conn_clone_same.

(* the HTTP/1 connection that has just accepted a request, and any HTTP/1 connection with an exchange in
   flight, reports is_open = false and poll_ready = Pending: it is not "ready again" *)
Theorem c02_conn_h1_busy :
  (forall s v, conn.Model.h_proto s = http.Model.PH1 -> conn.Model.hc_open s = true ->
     let s' := conn.Model.hc_step s (conn.Model.HSend v) in
     conn.Model.hc_open s' = false /\ conn.Model.hc_rdy s' = conn.Model.PPending)
  /\ (forall s, conn.Model.h_proto s = http.Model.PH1 -> conn.Model.hc_dead s = false -> conn.Model.inflight s <> 0 ->
        conn.Model.hc_open s = false /\ conn.Model.hc_rdy s = conn.Model.PPending).
Proof. exact (conj conn.Proofs.h1_send_makes_busy conn.Proofs.h1_busy). Qed.
Print Assumptions c02_conn_h1_busy.

(* the real connection never leaves the pool model's environment alphabet: every step is a (possibly
   empty) sequence of ConnReady (c_set_ready true) / ConnClose (c_set_open false) / the hand-out's own
   c_set_ready false on the flags (share := HTTP/2, open := not closed, ready := no exchange in flight);
   it becomes busy only by the holder's own send on an open HTTP/1 connection; and a fresh connection has
   the flags the pool model creates *)
Theorem c02_conn_pool_moves :
  (forall s o,
     fold_left conn.PoolLink.apply_env (conn.PoolLink.link_ops s o) (conn.PoolLink.abs s)
       = conn.PoolLink.abs (conn.Model.hc_step s o)
     /\ (In conn.PoolLink.EUse (conn.PoolLink.link_ops s o) ->
           conn.Spec.is_send o = true /\ conn.Model.h_proto s = http.Model.PH1 /\ conn.Model.hc_open s = true))
  /\ (forall p ops,
        fold_left conn.PoolLink.apply_env (conn.PoolLink.link_history (conn.Model.hc_init p) ops)
                  (conn.PoolLink.abs (conn.Model.hc_init p))
        = conn.PoolLink.abs (conn.Model.hc_run p ops))
  /\ (forall p, conn.PoolLink.abs (conn.Model.hc_init p) = mkConn 0 (conn.Model.is_h2 p) true true 1 0 []).
Proof. exact (conj conn.PoolLink.link_step (conj conn.PoolLink.link_run conn.PoolLink.link_fresh)). Qed.
Print Assumptions c02_conn_pool_moves.

(* send_request overwrites the version field: the server is given the connection's version *)
Theorem c02_conn_version : forall (p : http.Model.proto) ops v,
  conn.Model.h_seen (conn.Model.hc_run p ops) = Some v -> v = http.Model.wire_version p.
Proof. exact conn.Proofs.seen_version. Qed.
Print Assumptions c02_conn_version.
