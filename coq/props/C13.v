(* C13 — The request put on the wire matches the connection's protocol.
   Statements only; proofs in http/Proofs.v.  Quantification: every request of the record type
   (any method string, version, decomposed URI satisfying the http-crate well-formedness oracle
   uri_wf_b, any header list) and both connection protocols. *)
From HD Require Import common.Base http.Model http.Spec http.Proofs.

(* the layer stack SetHostHeader -> Http2Checks -> Http1Checks satisfies the whole C13 monitor:
   HTTP/1: origin-form target with path and query preserved ("/" for an empty path),
   authority-form for CONNECT, Host = URI host (+ port unless the scheme's default) unless the
   caller supplied one, everything else untouched;  HTTP/2: version 2, no connection-specific
   header and no Host, CONNECT rejected, everything else untouched *)
Theorem c13_layers : forall conn r,
  uri_wf_b (r_uri r) = true -> mon_C13 conn r (layers conn r) = true.
Proof. exact layers_mon. Qed.
Check c13_layers : forall conn r, uri_wf_b (r_uri r) = true -> mon_C13 conn r (layers conn r) = true.
Print Assumptions c13_layers.

(* a connection speaks HTTP/2 exactly when the request asked for it or ALPN negotiated h2 *)
Theorem c13_protocol : forall rq a, handshake rq a = PH2 <-> (rq = PH2 \/ a = AlpnH2).
Proof. exact handshake_iff. Qed.
Print Assumptions c13_protocol.

Theorem c13_protocol_monitor : forall rq a, mon_proto rq a (handshake rq a) = true.
Proof. exact handshake_mon. Qed.
Print Assumptions c13_protocol_monitor.

(* the version put on the wire is the connection's *)
Theorem c13_wire_version : forall conn, wire_version conn = match conn with PH1 => V11 | PH2 => V2 end.
Proof. reflexivity. Qed.

(* non-vacuity *)
Example c13_example :
  layers PH1 (mkReq "GET" V11
      (mkUri (Some "https") (Some "example.com:8443") (Some "example.com") (Some ("8443", 8443%N))
             (Some "/a?b=1") "/a" (Some "b=1"))
      [("accept", "*/*")])%string
  = Sent (mkReq "GET" V11 (mkUri None None None None (Some "/a?b=1") "/a" (Some "b=1"))
               [("accept", "*/*"); ("host", "example.com:8443")])%string.
Proof. vm_compute. reflexivity. Qed.
