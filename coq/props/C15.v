(* C15 — The pool keeps at most the configured number of idle connections per origin.
   Statements only; proofs in pool/ProofsC15.v.  Quantification: every pool configuration (any
   max_idle_per_host incl. 0, any idle timeout, both continue_after_preemption settings, any URI
   table) and EVERY finite sequence of operations (issue / poll / cancel / finish / upgrade / dial
   outcomes / connection ready / connection closed / background run / clock tick), of any length.
   "At every point of every history": the bound is an invariant of every intermediate state. *)
From HD Require Import common.Base http.Model pool.Model pool.Spec pool.ProofsC15.

(* the executable C15 monitor accepts the model's trace of every history *)
Theorem c15_monitor : forall cfg ops, mon_C15 cfg ops (trace cfg ops) = true.
Proof. exact mon_C15_holds. Qed.
Check c15_monitor : forall cfg ops, mon_C15 cfg ops (trace cfg ops) = true.
Print Assumptions c15_monitor.

(* state-level reading: in every reachable state every origin's idle list is within the bound *)
Theorem c15_bound : forall cfg ops,
  Forall (fun p => List.length (p_idle p) <= g_max_idle cfg) (toks (run cfg ops)).
Proof. exact IB_run. Qed.
Print Assumptions c15_bound.

(* non-vacuity: a history in which the bound bites (max_idle = 1, two connections released to one
   origin: the second one is discarded as surplus, EDrop 1) *)
Example c15_example :
  let cfg := mkCfg true None 1 true [Some ("http", "a.test")%string] in
  let ops := [Issue 0 H1; Issue 0 H1; Poll 0; Poll 1; DialDone 0 (DOk false); DialDone 1 (DOk false);
              Poll 0; Poll 1; Finish 0; Finish 1; Poll 0; Poll 1; ConnReady 0; ConnReady 1; Bg] in
  map (fun p => map fst (p_idle p)) (toks (run cfg ops)) = [[0]]
  /\ existsb (fun e => match e with EDrop 1 => true | _ => false end) (o_events (last (trace cfg ops) (mkObs [] [] []))) = true.
Proof. vm_compute. auto. Qed.
