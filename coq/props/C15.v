(* C15 — The pool keeps at most the configured number of idle connections per origin.
   Statements only; proofs in pool/ProofsC15.v.  Quantification: every pool configuration (any
   max_idle_per_host incl. 0, any idle timeout, both continue_after_preemption settings, any URI
   table) and EVERY finite sequence of operations (issue / poll / cancel / finish / upgrade / dial
   outcomes / connection ready / connection closed / background run / clock tick), of any length.
   "At every point of every history": the bound is an invariant of every intermediate state. *)
From HD Require Import common.Base http.Model pool.Model pool.Spec pool.SpecC15d pool.ProofsC15 pool.ProofsC15d.

(* the executable C15 monitor accepts the model's trace of every history *)
Theorem c15_monitor : forall cfg ops, mon_C15 cfg ops (trace cfg ops) = true.
Proof. exact mon_C15_holds. Qed.
Check c15_monitor : forall cfg ops, mon_C15 cfg ops (trace cfg ops) = true.
Print Assumptions c15_monitor.

(* state-level reading: in every reachable state every origin's idle list is within the bound *)
Theorem c15_bound : forall cfg ops,
  Forall (fun p => List.length (p_idle p) <= g_max_idle cfg) (toks (run cfg ops)).
Proof. exact IB_run. Qed.
Print Assumptions c15_bound.

(* non-vacuity: a history in which the bound bites (max_idle = 1, two connections released to one
   origin: the second one is discarded as surplus, EDrop 1) *)
Example c15_example :
  let cfg := mkCfg true None 1 true [Some ("http", "a.test")%string] in
  let ops := [Issue 0 H1; Issue 0 H1; Poll 0; Poll 1; DialDone 0 (DOk false); DialDone 1 (DOk false);
              Poll 0; Poll 1; Finish 0; Finish 1; Poll 0; Poll 1; ConnReady 0; ConnReady 1; Bg] in
  map (fun p => map fst (p_idle p)) (toks (run cfg ops)) = [[0]]
  /\ existsb (fun e => match e with EDrop 1 => true | _ => false end) (o_events (last (trace cfg ops) (mkObs [] [] []))) = true.
Proof. vm_compute. auto. Qed.

(* ------------------------------------------------------------------ second clause: what the pool retains at the end
   of a drained history (pool/SpecC15d.v; proof in pool/ProofsC15d.v on top of the handle-accounting
   invariant of pool/AccC15*.v, the hand-back-task scheduling invariant of pool/SchedC15.v, the closing
   procedure of pool/LiveC03c.v + pool/DrainC15.v, the same-origin invariant of C06 and the bound above).
   Same quantification as [c03_monitor]: every configuration, every finite history [body], followed by
   the closing procedure [drain_ops] and the probe.  Judged on the FINAL tracker: for every origin (scheme +
   authority of the request whose dial created the connection) the connections that were created, have
   not been dropped (no EDrop) and are not held by a request (no request whose status is SHeld c) number at
   most max_idle_per_host - none at all when the pool is disabled.  Independent of the pool's own
   token table: a pool that forgot an origin and parked its connections under two tokens is caught. *)
Theorem c15_retained_after_drain : forall cfg body u p,
  let ops := body ++ drain_ops (count_issues body) u p in
  mon_C15_drained cfg (final_mst cfg m0 ops (trace cfg ops)) = true.
Proof. exact mon_C15_drained_holds. Qed.
Check c15_retained_after_drain : forall cfg body u p,
  let ops := body ++ drain_ops (count_issues body) u p in
  mon_C15_drained cfg (final_mst cfg m0 ops (trace cfg ops)) = true.
Print Assumptions c15_retained_after_drain.

(* the monitor that check_prop 15 evaluates on drained cases: both clauses *)
Theorem c15_monitor_drained : forall cfg body u p,
  let ops := body ++ drain_ops (count_issues body) u p in mon_C15_all cfg ops true (trace cfg ops) = true.
Proof. exact mon_C15_all_holds. Qed.
Print Assumptions c15_monitor_drained.

(* non-vacuity: three connections to one origin, max_idle = 2, probe to another origin: after the closing
   procedure two connections (0 and 1) are retained for the origin - the bound is reached -, the third
   was dropped, the probe's own connection (3) is held and does not count; the same final tracker is
   REJECTED when judged against max_idle = 1 *)
Example c15_retained_example :
  let cfg := mkCfg true None 2 true [Some ("http", "a.test")%string; Some ("http", "b.test")%string] in
  let body := [Issue 0 H1; Issue 0 H1; Issue 0 H1; Poll 0; Poll 1; Poll 2; DialDone 0 (DOk false); DialDone 1 (DOk false);
               DialDone 2 (DOk false); Poll 0; Poll 1; Poll 2] in
  let ops := body ++ drain_ops (count_issues body) 1 H1 in
  let m := final_mst cfg m0 ops (trace cfg ops) in
  retained_for m (Some ("http", "a.test")%string) = [0; 1]
  /\ map ci_dropped (m_conns m) = [false; false; true; false]
  /\ mon_C15_drained cfg m = true
  /\ mon_C15_drained (mkCfg true None 1 true (g_uris cfg)) m = false.
Proof. vm_compute. auto. Qed.

