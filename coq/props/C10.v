(* C10 — Happy-eyeballs connect succeeds iff some candidate would; first success wins.
   Statements only; proofs in he/Proofs.v and he/ProofsPace.v.  Every theorem quantifies over ALL attempt lists
   (any length, any outcomes and latencies), ALL configurations (delay, timeout, concurrency:
   none / zero / any value) and ALL tie-break orders among simultaneous completions. *)
From HD Require Import common.Base he.Model he.Spec he.Proofs he.ProofsPace he.Tcp he.TcpProofs.

(* the whole C10 monitor (he/Spec.v): soundness of Ok, completeness, error, timeout and
   no-hang (liveness) clauses *)
Theorem c10_monitor : forall c tb atts, mon_C10 c atts (he_obs c tb atts) = true.
Proof. exact mon_C10_holds. Qed.
Check c10_monitor : forall c tb atts, mon_C10 c atts (he_obs c tb atts) = true.
Print Assumptions c10_monitor.

(* Ok i: attempt i succeeds, was started, the operation completes exactly when i does, within
   the deadline, and no started attempt would have succeeded earlier *)
Theorem c10_ok_sound : forall c tb atts, s_ok_sound c atts (he_obs c tb atts) = true.
Proof.
  intros c tb atts. destruct (he_obs_final c atts tb) as (res & td & lg & E & HF).
  rewrite E. exact (clause_ok_sound c atts res td lg HF).
Qed.
Print Assumptions c10_ok_sound.

(* a failure verdict is impossible while some started attempt succeeds before the deadline *)
Theorem c10_complete : forall c tb atts, s_complete c atts (he_obs c tb atts) = true.
Proof.
  intros c tb atts. destruct (he_obs_final c atts tb) as (res & td & lg & E & HF).
  rewrite E. exact (clause_complete c atts res td lg HF).
Qed.
Print Assumptions c10_complete.

(* Err i: every candidate was tried and failed, i is the first failure observed;
   NoProgress: exactly when there is no candidate, at time 0 *)
Theorem c10_err : forall c tb atts, s_err atts (he_obs c tb atts) = true.
Proof.
  intros c tb atts. destruct (he_obs_final c atts tb) as (res & td & lg & E & HF).
  rewrite E. exact (clause_err c atts res td lg HF).
Qed.
Print Assumptions c10_err.

(* Timeout only with a deadline and exactly at it; Hang only without a deadline; the fuel of
   the third loop is never exhausted *)
Theorem c10_timeout : forall c tb atts, s_timeout c (he_obs c tb atts) = true.
Proof.
  intros c tb atts. destruct (he_obs_final c atts tb) as (res & td & lg & E & HF).
  rewrite E. exact (clause_timeout c atts res td lg HF).
Qed.
Print Assumptions c10_timeout.

(* liveness: with a stagger delay configured the operation never hangs while a candidate that
   was never started would accept (in the model: it never hangs before every candidate has been
   started) *)
Theorem c10_no_hang_with_stagger : forall c tb atts, s_hang c atts (he_obs c tb atts) = true.
Proof. exact s_hang_holds. Qed.
Check c10_no_hang_with_stagger : forall c tb atts, s_hang c atts (he_obs c tb atts) = true.
Print Assumptions c10_no_hang_with_stagger.

Theorem c10_total : forall c tb atts, fst (fst (he_obs c tb atts)) <> RFuel.
Proof. exact he_never_out_of_fuel. Qed.
Print Assumptions c10_total.

Theorem c10_empty : forall c tb, he_obs c tb [] = (RNoProgress, Some 0%N, []).
Proof. intros c tb. unfold he_obs, he_run. destruct c as [d t [[|k]|]]; reflexivity. Qed.
Print Assumptions c10_empty.

(* ---- the configuration TcpConnecting::connect builds (he/Tcp.v: delay = timeout / n in ns,
   timeout, concurrency as configured; tcp_connect = he_obs under that configuration) ---- *)

(* full-strength "succeeds whenever some candidate would": candidate i is polled by i * (T / n), so
   if it accepts lat_i later and that is within the timeout T, the connect returns Ok *)
Theorem c10_tcp_succeeds : forall T conc tb atts i a,
  nth_error atts i = Some a -> a_out a = Succ ->
  (N.of_nat i * (T / N.of_nat (length atts)) + a_lat a <= T)%N ->
  exists r, fst (fst (tcp_connect (Some T) conc tb atts)) = ROk r.
Proof. exact tcp_succeeds. Qed.
Check c10_tcp_succeeds : forall T conc tb atts i a,
  nth_error atts i = Some a -> a_out a = Succ ->
  (N.of_nat i * (T / N.of_nat (length atts)) + a_lat a <= T)%N ->
  exists r, fst (fst (tcp_connect (Some T) conc tb atts)) = ROk r.
Print Assumptions c10_tcp_succeeds.

(* without a timeout (hence without a stagger timer): success whenever some candidate accepts,
   unless an attempt blocks for ever (then a hang is possible: c10_tcp_hang_example) *)
Theorem c10_tcp_succeeds_no_timeout : forall conc tb atts i a,
  nth_error atts i = Some a -> a_out a = Succ ->
  (forall b, In b atts -> a_out b <> Never) ->
  exists r, fst (fst (tcp_connect None conc tb atts)) = ROk r.
Proof. exact tcp_succeeds_no_timeout. Qed.
Print Assumptions c10_tcp_succeeds_no_timeout.

(* local candidates (listening = accepts at once, refusing = fails at once), any timeout and
   concurrency: some port listens -> Ok, with a listening port (what harness/src/bin/tcpglue.rs runs) *)
Theorem c10_tcp_local_succeeds : forall timeout conc tb l i,
  nth_error l i = Some true ->
  exists r, fst (fst (tcp_connect timeout conc tb (local_atts l))) = ROk r /\ nth_error l r = Some true.
Proof. exact tcp_local_succeeds. Qed.
Print Assumptions c10_tcp_local_succeeds.

(* error mapping: "Exhausted connection candidates" exactly for an empty candidate list;
   "Connection attempts timed out" never without a configured timeout *)
Theorem c10_tcp_exhausted_iff : forall timeout conc tb atts,
  tcp_result timeout conc tb atts = TErrExhausted <-> atts = [].
Proof. exact tcp_exhausted_iff. Qed.
Print Assumptions c10_tcp_exhausted_iff.

Theorem c10_tcp_timeout_only_configured : forall conc tb atts, tcp_result None conc tb atts <> TErrTimeout.
Proof. exact tcp_timeout_only_configured. Qed.
Print Assumptions c10_tcp_timeout_only_configured.

(* non-vacuity: T = 30, three candidates, d = 10: the third one is polled at 20 and accepts at 24 *)
Example c10_tcp_example :
  tcp_connect (Some 30%N) (Some 1%nat) [] [mkAtt Never 0; mkAtt Never 0; mkAtt Succ 4]%N
  = (ROk 2, Some 24%N, [EStart 0 0; EStart 1 10; EStart 2 20; EDone 2 24])%N.
Proof. vm_compute. reflexivity. Qed.
(* the hypothesis of c10_tcp_succeeds is sharp: accepting one tick later loses against the deadline *)
Example c10_tcp_late_example :
  tcp_result (Some 30%N) (Some 1%nat) [] [mkAtt Never 0; mkAtt Never 0; mkAtt Succ 11]%N = TErrTimeout.
Proof. vm_compute. reflexivity. Qed.
(* and without a timeout a blocked first attempt hangs the connect although the second would accept *)
Example c10_tcp_hang_example :
  tcp_result None (Some 1%nat) [] [mkAtt Never 0; mkAtt Succ 5]%N = THang.
Proof. vm_compute. reflexivity. Qed.

(* non-vacuity: a run in which the second candidate wins after the first failed *)
Example c10_example :
  he_obs (mkCfg (Some 3%N) (Some 20%N) (Some 1%nat)) [] [mkAtt Fail 5; mkAtt Succ 4; mkAtt Never 0]%N
  = (ROk 1, Some 7%N, [EStart 0 0; EStart 1 3; EDone 0 5; EStart 2 5; EDone 1 7])%N.
Proof. vm_compute. reflexivity. Qed.
