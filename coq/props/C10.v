From HD Require Import common.Base he.Model he.Spec.
Theorem c10_tmp : True. Proof. exact I. Qed.
