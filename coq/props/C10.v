(* C10 — Happy-eyeballs connect succeeds iff some candidate would; first success wins.
   Statements only; proofs in he/Proofs.v and he/ProofsPace.v.  Every theorem quantifies over ALL attempt lists
   (any length, any outcomes and latencies), ALL configurations (delay, timeout, concurrency:
   none / zero / any value) and ALL tie-break orders among simultaneous completions. *)
From HD Require Import common.Base he.Model he.Spec he.Proofs he.ProofsPace.

(* the whole C10 monitor (he/Spec.v): soundness of Ok, completeness, error, timeout and
   no-hang (liveness) clauses *)
Theorem c10_monitor : forall c tb atts, mon_C10 c atts (he_obs c tb atts) = true.
Proof. exact mon_C10_holds. Qed.
Check c10_monitor : forall c tb atts, mon_C10 c atts (he_obs c tb atts) = true.
Print Assumptions c10_monitor.

(* Ok i: attempt i succeeds, was started, the operation completes exactly when i does, within
   the deadline, and no started attempt would have succeeded earlier *)
Theorem c10_ok_sound : forall c tb atts, s_ok_sound c atts (he_obs c tb atts) = true.
Proof.
  intros c tb atts. destruct (he_obs_final c atts tb) as (res & td & lg & E & HF).
  rewrite E. exact (clause_ok_sound c atts res td lg HF).
Qed.
Print Assumptions c10_ok_sound.

(* a failure verdict is impossible while some started attempt succeeds before the deadline *)
Theorem c10_complete : forall c tb atts, s_complete c atts (he_obs c tb atts) = true.
Proof.
  intros c tb atts. destruct (he_obs_final c atts tb) as (res & td & lg & E & HF).
  rewrite E. exact (clause_complete c atts res td lg HF).
Qed.
Print Assumptions c10_complete.

(* Err i: every candidate was tried and failed, i is the first failure observed;
   NoProgress: exactly when there is no candidate, at time 0 *)
Theorem c10_err : forall c tb atts, s_err atts (he_obs c tb atts) = true.
Proof.
  intros c tb atts. destruct (he_obs_final c atts tb) as (res & td & lg & E & HF).
  rewrite E. exact (clause_err c atts res td lg HF).
Qed.
Print Assumptions c10_err.

(* Timeout only with a deadline and exactly at it; Hang only without a deadline; the fuel of
   the third loop is never exhausted *)
Theorem c10_timeout : forall c tb atts, s_timeout c (he_obs c tb atts) = true.
Proof.
  intros c tb atts. destruct (he_obs_final c atts tb) as (res & td & lg & E & HF).
  rewrite E. exact (clause_timeout c atts res td lg HF).
Qed.
Print Assumptions c10_timeout.

(* liveness: with a stagger delay configured the operation never hangs while a candidate that
   was never started would accept (in the model: it never hangs before every candidate has been
   started) *)
Theorem c10_no_hang_with_stagger : forall c tb atts, s_hang c atts (he_obs c tb atts) = true.
Proof. exact s_hang_holds. Qed.
Check c10_no_hang_with_stagger : forall c tb atts, s_hang c atts (he_obs c tb atts) = true.
Print Assumptions c10_no_hang_with_stagger.

Theorem c10_total : forall c tb atts, fst (fst (he_obs c tb atts)) <> RFuel.
Proof. exact he_never_out_of_fuel. Qed.
Print Assumptions c10_total.

Theorem c10_empty : forall c tb, he_obs c tb [] = (RNoProgress, Some 0%N, []).
Proof. intros c tb. unfold he_obs, he_run. destruct c as [d t [[|k]|]]; reflexivity. Qed.
Print Assumptions c10_empty.

(* non-vacuity: a run in which the second candidate wins after the first failed *)
Example c10_example :
  he_obs (mkCfg (Some 3%N) (Some 20%N) (Some 1%nat)) [] [mkAtt Fail 5; mkAtt Succ 4; mkAtt Never 0]%N
  = (ROk 1, Some 7%N, [EStart 0 0; EStart 1 3; EDone 0 5; EStart 2 5; EDone 1 7])%N.
Proof. vm_compute. reflexivity. Qed.
