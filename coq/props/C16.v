(* C16 — Address preference sorting loses nothing and puts the preferred family first.
   Only statements, closed by [exact]; proofs live in dns/Proofs.v. *)
From HD Require Import common.Base dns.Model dns.Spec dns.Proofs.
From Coq Require Import Permutation.

(* (1) permutation of the resolver's answer: nothing lost, nothing duplicated *)
Theorem c16_perm : forall prefer l, Permutation (sort_preferred prefer l) l.
Proof. intros; rewrite sort_preferred_spec; exact (sort_spec_perm prefer l). Qed.
Check c16_perm : forall prefer l, Permutation (sort_preferred prefer l) l.
Print Assumptions c16_perm.

(* (2) full order: first address of the preferred family, then first address of the other
   family, then everything else; the code's index manipulation computes exactly this *)
Theorem c16_order : forall prefer l,
  sort_preferred prefer l =
    opt_list (find (is_fam (preferred prefer)) l)
    ++ opt_list (find (is_fam (other (preferred prefer))) l)
    ++ remove_first (preferred prefer) (remove_first (other (preferred prefer)) l).
Proof. exact sort_preferred_spec. Qed.
Check c16_order : forall prefer l,
  sort_preferred prefer l =
    opt_list (find (is_fam (preferred prefer)) l)
    ++ opt_list (find (is_fam (other (preferred prefer))) l)
    ++ remove_first (preferred prefer) (remove_first (other (preferred prefer)) l).
Print Assumptions c16_order.

(* (3) the remaining addresses keep the resolver's order *)
Theorem c16_rest_stable : forall prefer l,
  subseq (remove_first (preferred prefer) (remove_first (other (preferred prefer)) l)) l.
Proof. exact sort_spec_rest_subseq. Qed.
Check c16_rest_stable : forall prefer l,
  subseq (remove_first (preferred prefer) (remove_first (other (preferred prefer)) l)) l.
Print Assumptions c16_rest_stable.

(* the head really is the *first* address of its family in the resolver's answer *)
Theorem c16_head_is_first : forall f l x,
  find (is_fam f) l = Some x ->
  exists l1 l2, l = l1 ++ x :: l2 /\ is_fam f x = true
                /\ Forall (fun a => is_fam f a = false) l1 /\ remove_first f l = l1 ++ l2.
Proof. exact find_first_split. Qed.
Print Assumptions c16_head_is_first.

(* (4) preferred family = IPv6 unless only an IPv4 local address is bound *)
Theorem c16_preference : forall b4 b6,
  preferred (from_binding b4 b6) = V4 <-> (b4 = true /\ b6 = false).
Proof. exact preferred_from_binding. Qed.
Print Assumptions c16_preference.

(* (5) attempt order of the transport: ports rewritten, sorted iff happy eyeballs is on,
   and attempts are consumed in list order (the model's attempt_order IS the pop order) *)
Theorem c16_attempt_order : forall b4 b6 he port l,
  attempt_order b4 b6 he port l =
  if he then sort_spec (from_binding b4 b6) (set_port port l) else set_port port l.
Proof. exact attempt_order_spec. Qed.
Print Assumptions c16_attempt_order.

Theorem c16_port : forall b4 b6 he port l,
  Forall (fun a => a_port a = port) (attempt_order b4 b6 he port l)
  /\ Permutation (attempt_order b4 b6 he port l) (set_port port l)
  /\ map (fun a => (a_fam a, a_id a)) (set_port port l) = map (fun a => (a_fam a, a_id a)) l.
Proof.
  intros; split; [exact (attempt_order_ports b4 b6 he port l)|
                  split; [exact (attempt_order_perm b4 b6 he port l)|exact (set_port_keeps port l)]].
Qed.
Print Assumptions c16_port.

(* non-vacuity: a concrete mixed list *)
Example c16_example :
  sort_preferred (Some V4)
    [mkAddr V6 1 80; mkAddr V6 2 80; mkAddr V4 3 80; mkAddr V4 4 80; mkAddr V6 5 80]%N
  = [mkAddr V4 3 80; mkAddr V6 1 80; mkAddr V6 2 80; mkAddr V4 4 80; mkAddr V6 5 80]%N.
Proof. vm_compute. reflexivity. Qed.
