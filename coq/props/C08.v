(* C08 — Protocol detection is independent of how the client's bytes are fragmented.
   Statements only; proofs in io/Proofs.v.  Quantification: every byte stream, every read script
   (any cuts, any number of Pending results anywhere, errors), no bound on lengths.
   Hypothesis chunk_pos: a read that is offered room returns 0 bytes only at end of stream (the
   AsyncRead contract). *)
From HD Require Import common.Base io.Model io.Spec io.Proofs.

Theorem c08_detect : forall i,
  Forall chunk_pos (i_rscript i) ->
  match sniff i with
  | SDone v p i' _ =>
      p ++ i_stream i' = i_stream i                          (* nothing lost, duplicated, reordered *)
      /\ (v = H2 <-> is_prefix preface (i_stream i) = true)  (* HTTP/2 exactly on the preface *)
      /\ (v = H2 -> p = preface)
      /\ (length p <= 24)%nat
      /\ i_written i' = i_written i /\ i_wscript i' = i_wscript i
  | SErr _ => has_err (i_rscript i) = true                   (* only an inner error aborts *)
  | SFuel => False                                           (* always terminates *)
  end.
Proof.
  intros i Hpos. pose proof (sniff_spec i Hpos) as H.
  destruct (sniff i) as [v p i' n|n|]; auto. destruct H as [A B C D [E F]]. repeat split; auto; apply B.
Qed.
Print Assumptions c08_detect.

Theorem c08_fragmentation_independent : forall i1 i2 v1 p1 j1 n1 v2 p2 j2 n2,
  i_stream i1 = i_stream i2 ->
  Forall chunk_pos (i_rscript i1) -> Forall chunk_pos (i_rscript i2) ->
  sniff i1 = SDone v1 p1 j1 n1 -> sniff i2 = SDone v2 p2 j2 n2 -> v1 = v2.
Proof. exact sniff_fragmentation_independent. Qed.
Print Assumptions c08_fragmentation_independent.

(* the protocol handler, reading through the rewound stream with any buffer sizes, sees exactly
   the client's bytes from the first one *)
Theorem c08_replay : forall i fwd ops v p i' n,
  Forall chunk_pos (i_rscript i) -> sniff i = SDone v p i' n ->
  let '(rs, a') := run fwd (mkAst (Some p) i') ops in
  concat (map data_of rs) ++ unread a' = i_stream i.
Proof. exact sniff_then_run. Qed.
Print Assumptions c08_replay.

(* non-vacuity + the D1 witness: a preface split 10+14 with a Pending in between is HTTP/2 *)
Example c08_example :
  match sniff (mkInner (preface ++ [0; 0; 0]%N) [RChunk 10; RPending; RChunk 14] [] []) with
  | SDone H2 p i' 1 => p = preface /\ i_stream i' = [0; 0; 0]%N
  | _ => False
  end.
Proof. vm_compute. auto. Qed.
