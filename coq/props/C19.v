(* C19 — A request with a timeout resolves by its deadline and cleans up.
   Statements only; proofs in timeout/Proofs.v (first half) and pool/ (cleanup half, see below).
   Quantification: every duration d (incl. 0), every first-poll delay p0, every inner completion
   time (before / at / after the deadline, never), every inner result. *)
From HD Require Import common.Base timeout.Model timeout.Spec timeout.Proofs.
Local Open Scope N_scope.

Theorem c19_monitor : forall c,
  mon_C19 c (fst (run_timeout c)) (snd (run_timeout c)) (inner_dropped_at c) = true.
Proof. exact run_timeout_mon. Qed.
Print Assumptions c19_monitor.

(* resolves no later than d after it was issued (future polled promptly), and does resolve *)
Theorem c19_deadline : forall c,
  t_p0 c <= t_d c -> snd (run_timeout c) <= t_d c /\ fst (run_timeout c) <> TNever.
Proof. exact run_timeout_deadline. Qed.
Print Assumptions c19_deadline.

(* the inner result is returned unchanged iff the inner service resolved first (ties to the inner) *)
Theorem c19_result : forall c,
  fst (run_timeout c) =
  match t_ti c with
  | Some ti => if ti <=? N.max (t_p0 c) (t_d c) then TInner (t_res c) else TTimeout
  | None => TTimeout
  end.
Proof. exact run_timeout_result. Qed.
Print Assumptions c19_result.

Example c19_example :
  run_timeout (mkT 10 0 (Some 10) (IErr 3)) = (TInner (IErr 3), 10)
  /\ run_timeout (mkT 10 0 (Some 11) (IOk 1)) = (TTimeout, 10)
  /\ run_timeout (mkT 0 0 None (IOk 1)) = (TTimeout, 0).
Proof. vm_compute. auto. Qed.
