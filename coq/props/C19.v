(* C19 — A request with a timeout resolves by its deadline and cleans up.
   Statements only; proofs in timeout/Proofs.v (first half) and pool/ProofsC03.v, pool/LiveC03c.v
   (cleanup half: c19_cleanup below).
   Quantification: every duration d (incl. 0), every first-poll delay p0, every inner completion
   time (before / at / after the deadline, never), every inner result. *)
From HD Require Import common.Base timeout.Model timeout.Spec timeout.Sched timeout.Proofs.
From HD Require http.Model pool.Model pool.Spec pool.ProofsC03 pool.LiveC03c.
Local Open Scope N_scope.

Theorem c19_monitor : forall c,
  mon_C19 c (fst (run_timeout c)) (snd (run_timeout c)) (inner_dropped_at c) = true.
Proof. exact run_timeout_mon. Qed.
Print Assumptions c19_monitor.

(* resolves no later than d after it was issued (future polled promptly), and does resolve *)
Theorem c19_deadline : forall c,
  t_p0 c <= t_d c -> snd (run_timeout c) <= t_d c /\ fst (run_timeout c) <> TNever.
Proof. exact run_timeout_deadline. Qed.
Print Assumptions c19_deadline.

(* the inner result is returned unchanged iff the inner service resolved first (ties to the inner) *)
Theorem c19_result : forall c,
  fst (run_timeout c) =
  match t_ti c with
  | Some ti => if ti <=? N.max (t_p0 c) (t_d c) then TInner (t_res c) else TTimeout
  | None => TTimeout
  end.
Proof. exact run_timeout_result. Qed.
Print Assumptions c19_result.

(* the deadline does not depend on which task drives the future: a future polled once by one task and
   then handed to another (different waker) resolves at the same instant with the same result *)
Theorem c19_handover : forall d p0 ti res h1 h2,
  run_timeout (mkT d p0 ti res h1) = run_timeout (mkT d p0 ti res h2).
Proof. exact run_timeout_handover. Qed.
Print Assumptions c19_handover.

(* POLL BY POLL.  The driving task may poll the future at any further instants, in any number and order (spurious
   wake-ups): after an unready poll the next one happens at the earliest of the registered wake instant and the later
   spurious instants.  For EVERY list of spurious instants the outcome (result, instant of resolution = instant at which
   the inner work is dropped) is that of the closed form, hence accepted by the monitor and within the deadline. *)
Theorem c19_spurious_polls : forall c sp, run_sched c sp = run_timeout c.
Proof. exact run_sched_eq. Qed.
Print Assumptions c19_spurious_polls.

Theorem c19_monitor_any_polls : forall c sp,
  mon_C19 c (fst (run_sched c sp)) (snd (run_sched c sp)) (snd (run_sched c sp)) = true.
Proof. intros c sp. rewrite run_sched_eq. exact (run_timeout_mon c). Qed.
Print Assumptions c19_monitor_any_polls.

(* a late executor: whenever the poll after the wake-up happens (t' >= the wake instant), that poll resolves - with the
   inner result iff the inner work is ready by then (it is asked first), with the timeout error otherwise *)
Theorem c19_late_poll : forall c t',
  next_wake c <= t' ->
  poll_at c t' = Some (match t_ti c with
                       | Some ti => if ti <=? t' then TInner (t_res c) else TTimeout
                       | None => TTimeout
                       end).
Proof. exact late_poll_resolves. Qed.
Print Assumptions c19_late_poll.

Example c19_sched_example :
  run_sched (mkT 10 0 (Some 11) (IOk 1) false) [3; 12; 7; 3; 10] = (TTimeout, 10)
  /\ polls (mkT 10 0 (Some 11) (IOk 1) false) [3; 12; 7; 3; 10] = 4.
Proof. vm_compute. auto. Qed.

(* CLEANUP HALF.  When the deadline fires the TimeoutFuture drops its inner future (c19_monitor: the
   inner work is dropped at the instant of resolution); for a pooled request that is the [Cancel]
   operation of the pool model, at whatever stage the request is (waiting for its own dial, waiting on
   another request's dial, holding a popped connection, holding a connection while the exchange runs).
   For EVERY pool configuration, every history before the timeout, every request r that times out,
   and every history after it: (1) the timed-out request never completes later and produces nothing
   more, and every state change still wakes who it must (the step monitor accepts the whole trace);
   (2) after the closing procedure every other request, and a fresh probe request to the same origin,
   has obtained a connection or an error - the pool is not left unable to serve. *)
Theorem c19_cleanup : forall cfg before r after u p,
  let body := (before ++ pool.Model.Cancel r :: after)%list in
  let ops := (body ++ pool.Spec.drain_ops (pool.Spec.count_issues body) u p)%list in
  pool.Spec.mon_C03 cfg ops true (pool.Model.trace cfg ops) = true.
Proof. intros cfg before r after u p. exact (pool.LiveC03c.mon_C03_holds cfg _ u p). Qed.
Print Assumptions c19_cleanup.

Example c19_example :
  run_timeout (mkT 10 0 (Some 10) (IErr 3) false) = (TInner (IErr 3), 10)
  /\ run_timeout (mkT 10 0 (Some 11) (IOk 1) true) = (TTimeout, 10)
  /\ run_timeout (mkT 0 0 None (IOk 1) false) = (TTimeout, 0).
Proof. vm_compute. auto. Qed.
