(* C05 — A request is never given a pooled connection that was already closed before the request was
   issued or before it was handed back to the pool, nor one that has sat idle longer than the configured
   non-zero idle timeout.  Such connections are discarded and the request proceeds on a fresh connection.
   Statements only; proofs in pool/ProofsC05.v.  Quantification: every pool configuration (pooling on or
   off, any idle timeout incl. none and zero, any max_idle_per_host, both continue_after_preemption
   settings, any URI table) and EVERY finite sequence of operations (issue / poll / cancel / finish /
   upgrade / dial outcomes / connection ready / connection closed by the peer / background run / clock
   tick), of any length.  "Never given": the monitor judges every hand-off event (EHand r c) of the
   history: the connection's first close (ConnClose c, or Upgrade by its holder) is not earlier than the
   later of (Issue r) and (the connection's last hand-back to the pool / its creation), and the connection
   that r's Issue took out of the idle list (ri_popx: read off the snapshots before / after the Issue) had
   not sat there longer than a non-zero timeout (ci_idle_time: the clock of the op after which the snapshot
   first showed it in that idle list).  Proof files: pool/CoreC05.v (first clause), pool/LinC05.v
   (model-only handle accounting: no connection has two pushable handles, a connection without handle is
   never pushed / offered / handed out again), pool/ProofsC05.v (timeout clause and the theorem).
   The model is the one after the repair of D15 (found by this proof attempt: register_connected pushed a
   handle that had been closed while it sat in the checkout, so a later waiter received a connection
   closed before its own Issue; counterexample in DESIGN.md / the C05 evidence). *)
From HD Require Import common.Base http.Model pool.Model pool.Spec pool.CoreC05 pool.LinC05 pool.ProofsC05 pool.SortedC05.
From Coq Require Import Sorted.
Local Open Scope list_scope.

(* the executable C05 monitor accepts the model's trace of every history *)
Theorem c05_monitor : forall cfg ops, mon_C05 cfg ops (trace cfg ops) = true.
Proof. exact mon_C05_holds. Qed.
Check c05_monitor : forall cfg ops, mon_C05 cfg ops (trace cfg ops) = true.
Print Assumptions c05_monitor.

(* whatever PoolInner::pop returns is open in the resulting state, and with an idle timeout [d] that is
   non-zero and already effective (0 < d <= now) its idle entry is not older than d *)
Theorem c05_pop_open_unexpired : forall timeout t s c s', pool_pop timeout t s = (Some c, s') ->
  is_open s' c = true /\
  exists at_, In (c, at_) (p_idle (get_tok s t)) /\
              forall d, timeout = Some d -> (0 < d <= now s)%N -> (now s - d <= at_)%N.
Proof. exact pool_pop_open_unexpired. Qed.
Print Assumptions c05_pop_open_unexpired.

(* a hand-back task (WhenReady) touches no idle list unless the connection is open at that moment *)
Theorem c05_handback_open : forall cfg tid c t s,
  nth tid (tasks s) None = Some (TWhenReady c t) -> is_open s c = false -> toks (run_task cfg tid s) = toks s.
Proof. exact handback_only_open. Qed.
Print Assumptions c05_handback_open.

(* in every reachable state the entry times along each idle list are non-decreasing (oldest first) and not
   in the future: so the scan of IdleConnections::pop from the newest end may stop at the first expired entry *)
Theorem c05_idle_times_sorted : forall cfg ops,
  Forall (fun p => StronglySorted N.le (map snd (p_idle p))
                   /\ Forall (fun a => (a <= now (run cfg ops))%N) (map snd (p_idle p))) (toks (run cfg ops)).
Proof. exact IS_run. Qed.
Print Assumptions c05_idle_times_sorted.

(* the invariants behind the monitor theorem hold between any two operations: [Inv] (pool/CoreC05.v: open in
   the model => not closed for the tracker; held for the tracker => held in the model; first close not
   before the last hand-back; every connection stored in a checkout was not closed before that request's
   Issue) and [Inv2] (pool/ProofsC05.v: the tracker's snapshot / key table / clock agree with the model;
   every idle entry (c, at) has at <= 1000000 + ci_idle_time c; a pair (r, c = ri_popx r) for which the
   timeout clause would fail is dead: c has no handle left and r does not have it) and [Inv4] (hand-back
   half of the first clause: a connection whose tracker record is closed before its last hand-back - which
   only the Cancel stamp of a dropped checkout can produce - is dead and stored by no checkout; a live
   request still has the non-multiplexed connection its Issue popped; uses the handle accounting of
   pool/ProofsC02.v) *)
Theorem c05_invariant : forall cfg ops,
  Inv3 cfg (final_mst cfg m0 ops (trace cfg ops)) (run cfg ops).
Proof.
  intros cfg ops. unfold trace, run. generalize (Inv3_init cfg). generalize m0, init.
  induction ops as [|o ops IH]; intros m s H; cbn [trace_from final_mst fold_left]; [exact H|].
  apply IH. apply (proj2 (Inv3_step cfg m s o H)).
Qed.
Print Assumptions c05_invariant.

(* state-level reading of the handle accounting: in every reachable state every connection has at most one
   pushable handle (idle entries, connections popped by a checkout, and - with a non-zero pool token -
   channel slots, held connections, hand-back tasks), and none if it does not exist *)
Theorem c05_handles_linear : forall cfg ops c,
  W None (run cfg ops) c <= (if Nat.ltb c (List.length (conns (run cfg ops))) then 1 else 0).
Proof. intros cfg ops c. destruct (c05_invariant cfg ops) as (_ & H & _). apply (v_lin _ _ _ H). Qed.
Print Assumptions c05_handles_linear.

(* non-vacuity 1: the peer closes an idle connection (ConnClose 0 while connection 0 is parked); the next
   request does not get it: its Issue discards it (EDrop 0) and its first poll dials (EDial 1), whereas
   without the close the same request is handed connection 0 *)
Example c05_example_closed :
  let cfg := mkCfg true None 4 false [Some ("http", "a.test")%string] in
  let pre := [Issue 0 H1; Poll 0; DialDone 0 (DOk false); Poll 0; Finish 0; Poll 0; ConnReady 0; Bg] in
  map o_events (skipn 8 (trace cfg (pre ++ [ConnClose 0; Issue 0 H1; Poll 1])))
    = [[]; [EDrop 0]; [EDial 1 ("http", "a.test")%string; EPend 1]]
  /\ map (fun o => map sn_idle (o_snap o)) (firstn 2 (skipn 7 (trace cfg (pre ++ [ConnClose 0; Issue 0 H1; Poll 1])))) = [[[0]]; [[0]]]
  /\ map o_events (skipn 8 (trace cfg (pre ++ [Issue 0 H1; Poll 1]))) = [[]; [EHand 1 0 false true true 0; EPend 1]].
Proof. vm_compute. auto. Qed.

(* non-vacuity 2: idle timeout 5; after Tick 6 the parked connection is discarded as expired and the
   request dials, after Tick 5 it is still handed out *)
Example c05_example_expired :
  let cfg := mkCfg true (Some 5%N) 4 false [Some ("http", "a.test")%string] in
  let pre := [Issue 0 H1; Poll 0; DialDone 0 (DOk false); Poll 0; Finish 0; Poll 0; ConnReady 0; Bg] in
  map o_events (skipn 8 (trace cfg (pre ++ [Tick 6; Issue 0 H1; Poll 1])))
    = [[]; [EDrop 0]; [EDial 1 ("http", "a.test")%string; EPend 1]]
  /\ map o_events (skipn 8 (trace cfg (pre ++ [Tick 5; Issue 0 H1; Poll 1])))
    = [[]; []; [EHand 1 0 false true true 0; EPend 1]].
Proof. vm_compute. auto. Qed.

(* non-vacuity 3: two parked connections, idle since clock 0 (connection 0) and 2 (connection 1), timeout 3;
   at clock 4 a request gets the younger one (EHand 2 1); the next request finds only connection 0, idle
   for 4 > 3: it is discarded (EDrop 0) and the request dials (EDial 3).  (A pop that checked the expiry
   of the youngest entry only - the seeded regression - would hand out connection 0 here.) *)
Example c05_example_oldest_expired :
  let cfg := mkCfg true (Some 3%N) 4 false [Some ("http", "a.test")%string] in
  let pre := [Issue 0 H1; Issue 0 H1; Poll 0; Poll 1; DialDone 0 (DOk false); DialDone 1 (DOk false); Poll 0; Poll 1;
              Finish 0; Finish 1; Poll 0; Poll 1; ConnReady 0; Bg; Tick 2; ConnReady 1; Bg] in
  let ops := pre ++ [Tick 2; Issue 0 H1; Poll 2; Issue 0 H1; Poll 3] in
  map o_events (skipn 17 (trace cfg ops))
    = [[]; []; [EHand 2 1 false true true 0; EPend 2]; [EDrop 0]; [EDial 3 ("http", "a.test")%string; EPend 3]]
  /\ map (fun o => map sn_idle (o_snap o)) (firstn 3 (skipn 16 (trace cfg ops))) = [[[0; 1]]; [[0; 1]]; [[0]]].
Proof. vm_compute. auto. Qed.

(* the monitor is not trivially true: on the model before the repair of D15 the following history was
   rejected (request 2 was handed connection 0, closed at op 5, issued at op 6); it is accepted now
   because request 2 dials instead *)
Example c05_example_d15 :
  let cfg := mkCfg true None 4 false [Some ("http", "a.test")%string] in
  let ops := [Issue 0 H2; Poll 0; DialDone 0 (DOk true); Poll 0; Issue 0 H2; ConnClose 0; Issue 0 H2; Poll 1; Poll 2] in
  existsb (fun e => match e with EHand 2 0 _ _ _ _ => true | _ => false end) (List.concat (map o_events (trace cfg ops))) = false
  /\ mon_C05 cfg ops (trace cfg ops) = true.
Proof. vm_compute. auto. Qed.

(* ------------------------------------------------------------------------------------------------
   M-CONN: the REAL connection type behind the pool (client/conn/connection.rs HttpConnection) against
   the contract the pool model assumes of a PoolableConnection (anchor "is_open reflects the sender's
   readiness"; WhenReady::drop pushes only if is_open()).  Model conn/Model.v (hyper's SendRequest
   readiness is oracle O1, transcribed as observed and compared on every run of this check by
   harness/src/bin/conn.rs), contract monitor conn/Spec.v, proofs conn/Proofs.v, link to the pool
   model's flags conn/PoolLink.v.  Quantification: both protocols, EVERY sequence of operations (send /
   server answers keep-alive / answers `Connection: close` / peer drops / graceful shutdown / settle). *)
From HD Require conn.Model conn.Spec conn.Proofs conn.PoolLink.

(* the contract monitor (sharing constant, open => ready, closed absorbing, busy HTTP/1 never open, a
   reuse()d handle sees the same, version rewritten) accepts the model's observations of every history *)
Theorem c05_conn_monitor : forall (p : http.Model.proto) ops,
  conn.Spec.mon_conn p ops (conn.Model.hc_trace p ops) = true.
Proof. exact conn.Proofs.mon_conn_holds. Qed.
Print Assumptions c05_conn_monitor.

(* is_open = true only if poll_ready = Ready(Ok): WhenReady completes and its is_open() test passes only
   for a usable connection *)
Theorem c05_conn_open_ready : forall s,
  conn.Model.hc_open s = true -> conn.Model.hc_rdy s = conn.Model.PReadyOk.
Proof. exact conn.Proofs.open_ready. Qed.
Print Assumptions c05_conn_open_ready.

(* once closed (the peer dropped the connection, or an HTTP/1 response with `Connection: close` was
   delivered, or a graceful shutdown ran its course) the connection reports is_open = false and
   poll_ready = Ready(Err) after every further operation sequence *)
Theorem c05_conn_closed_forever :
  (forall s, conn.Model.hc_dead (conn.Model.hc_step s conn.Model.HPeerDrop) = true)
  /\ (forall s, conn.Model.h_proto s = http.Model.PH1 ->
        conn.Model.h_ok (conn.Model.hc_step s conn.Model.HCloseResp) = S (conn.Model.h_ok s) ->
        conn.Model.hc_dead (conn.Model.hc_step s conn.Model.HCloseResp) = true)
  /\ (forall s ops, conn.Model.hc_dead s = true ->
        let s' := fold_left conn.Model.hc_step ops s in
        conn.Model.hc_open s' = false /\ conn.Model.hc_rdy s' = conn.Model.PReadyErr).
Proof.
  exact (conj conn.Proofs.peer_drop_closes (conj conn.Proofs.close_response_closes conn.Proofs.dead_forever)).
Qed.
Print Assumptions c05_conn_closed_forever.

(* an HTTP/1 connection with an exchange in flight reports is_open = false and poll_ready = Pending: it
   can neither be pushed into the idle list nor handed to a waiter as open *)
Theorem c05_conn_h1_busy : forall s,
  conn.Model.h_proto s = http.Model.PH1 -> conn.Model.hc_dead s = false -> conn.Model.inflight s <> 0 ->
  conn.Model.hc_open s = false /\ conn.Model.hc_rdy s = conn.Model.PPending.
Proof. exact conn.Proofs.h1_busy. Qed.
Print Assumptions c05_conn_h1_busy.

(* what the pool model computes from its flags (pool.Model.is_open; the WhenReady classification of
   pool.Model.run_task) is what the real connection's model reports, under the abstraction
   share := HTTP/2, open := not closed, ready := no exchange in flight *)
Theorem c05_conn_pool_flags : forall s,
  (forall ps c, get_conn ps c = Some (conn.PoolLink.abs s) -> is_open ps c = conn.Model.hc_open s)
  /\ conn.PoolLink.pool_rdy (conn.PoolLink.abs s) = conn.Model.hc_rdy s.
Proof. intros s. exact (conj (conn.PoolLink.link_is_open s) (conn.PoolLink.link_poll_ready s)). Qed.
Print Assumptions c05_conn_pool_flags.
