(* C12 — With TLS configured, https/wss traffic is never sent in the clear.
   Statements only; proofs in tls/Proofs.v.  Quantification: every scheme string, host form
   (absent, DNS name, IP literal, invalid server name), certificate situation, ALPN offer on
   either side and injected fault. *)
From HD Require Import common.Base http.Model tls.Model tls.Spec tls.Proofs.

Theorem c12_monitor : forall c,
  mon_C12 c false (Some (tls_connect c)) (wire_first c) (marker_in_clear c) = true.
Proof. exact tls_mon. Qed.
Check c12_monitor : forall c, mon_C12 c false (Some (tls_connect c)) (wire_first c) (marker_in_clear c) = true.
Print Assumptions c12_monitor.

(* https/wss with TLS configured: never a plain stream; a stream is handed over only after a
   handshake that succeeded, and nothing the application writes is visible in the clear *)
Theorem c12_no_plain : forall c r,
  t_configured c = true -> secure_scheme c = true -> tls_connect c = r ->
  match r with
  | OkPlain => False
  | OkTls _ _ => handshake_ok c = true /\ marker_in_clear c = false
  | _ => True
  end.
Proof. exact tls_no_plain. Qed.
Print Assumptions c12_no_plain.

(* a failed handshake / verification is an error, never a fallback *)
Theorem c12_fail_closed : forall c,
  t_configured c = true -> secure_scheme c = true -> handshake_ok c = false ->
  match tls_connect c with OkTls _ _ | OkPlain => False | _ => True end.
Proof. exact tls_fail_closed. Qed.
Print Assumptions c12_fail_closed.

(* other schemes are not wrapped *)
Theorem c12_other_schemes_plain : forall c,
  secure_scheme c = false -> match tls_connect c with OkTls _ _ => False | _ => True end.
Proof. exact tls_other_schemes_plain. Qed.
Print Assumptions c12_other_schemes_plain.

(* neither the Host header of the request parts nor the request method (CONNECT or not) plays a part:
   result, wire and marker depend on the URI only *)
Theorem c12_host_header_irrelevant : forall cfgd s h hh1 hh2 m1 m2 k cov ce sa ca f,
  let c1 := mkTls cfgd s h hh1 m1 k cov ce sa ca f in
  let c2 := mkTls cfgd s h hh2 m2 k cov ce sa ca f in
  tls_connect c1 = tls_connect c2 /\ wire_first c1 = wire_first c2 /\ marker_in_clear c1 = marker_in_clear c2.
Proof. exact tls_hosthdr_irrelevant. Qed.
Print Assumptions c12_host_header_irrelevant.

(* total: the result type has no panic outcome; every host form yields a result *)
Example c12_example :
  tls_connect (mkTls true (Some "WSS") (Some "[::1]") (Some "other.test") true HIp true CGood AH2 AH2 FNone)%string = OkTls None AH2
  /\ tls_connect (mkTls true (Some "https") (Some "a..b") None false HInvalid false CGood ANone ANone FNone)%string = ErrHs
  /\ tls_connect (mkTls true (Some "https") (Some "Example.test") None false HDns true CUntrusted ANone ANone FNone)%string = ErrHs.
Proof. vm_compute. auto. Qed.
