(* C03 — Every request's connection acquisition terminates; nobody is stranded.
   Statements only; proofs in pool/ProofsC03.v (safety: wake invariant and tracker relation in
   pool/FramesC03.v), pool/LiveC03.v + pool/LiveC03b.v + pool/LiveC03c.v (liveness) and pool/ProofsLite2.v.
   FULLY PROVED (no axioms), for every configuration (pool enabled or not, any max_idle_per_host, any
   idle timeout, both continue_after_preemption settings, any URI table) and EVERY finite operation
   sequence [body] of any length (issue with either protocol / poll / cancel / finish / upgrade / dial
   outcomes incl. failures / connection ready / closed / background run / clock tick):
     [c03_monitor]: forall cfg body u p,
        mon_C03 cfg (body ++ drain_ops (count_issues body) u p) true (trace cfg (body ++ drain_ops ...)) = true
   i.e. the executable monitor of pool/Spec.v accepts the model's trace of [body] followed by the closing
   procedure: (a) no lost wake-up, (b) nothing after cancel/completion, (c) after the closing procedure
   every request and a fresh probe request hold a connection or an error (or were cancelled).
     [c03_no_lost_wakeup_and_quiet] = clauses (a) and (b) alone, for every operation sequence (no closing
   procedure needed): whenever a request whose last poll returned Pending makes progress (is handed a
   connection, or resolves) it was in the woken set observed after the previous operation, and no
   event is ever recorded for a request after its cancellation or completion.
   Invariants behind it, proved for every reachable state:
     Inv (pool/FramesC03.v): a checkout whose last poll was pending has its waker registered on its
       channel, its own in-flight dial was polled by the request itself, and if a poll would now complete
       (channel filled / sender dropped / dial resolved / exchange finished) the request is woken;
     Lv (pool/LiveC03b.v): every in-progress mark names a living owner (an owning checkout, or its
       delayed connector task: D4/D17 repairs), every checkout that waits for another request's attempt
       and has been neither served nor released is queued under a marked token (so the end of the
       attempt - success, failure, cancellation - serves or releases it), a live connector has a live
       dial, and every delayed connector task is unique per request and is scheduled, or registered as
       the poller of its in-flight dial.
   The closing procedure is followed phase by phase (pool/LiveC03c.v): poll all -> dials in flight;
   resolve all -> dials resolved, delayed connectors resolved; background -> ; poll all -> only pure
   waiters remain; background -> no delayed connector left, hence no mark, hence every waiter served
   or released; poll all -> nobody waits; the rest of the procedure keeps that; the probe is issued
   without any mark, owns its connector (or finds an idle connection) and completes.
   NOTHING IS MISSING for the stated theorem.  The per-primitive lemmas below are kept from the
   interim file.  The full monitor is also evaluated on every implementation trace and the model is
   compared with the implementation after every operation. *)
From HD Require Import common.Base http.Model pool.Model pool.Spec pool.ProofsLite pool.ProofsLite2 pool.FramesC03 pool.ProofsC03
  pool.LiveC03 pool.LiveC03b pool.LiveC03c.

Theorem c03_no_lost_wakeup_and_quiet : forall cfg ops, mon_with chk_C03 cfg ops (trace cfg ops) = true.
Proof. exact mon_C03_steps_holds. Qed.
Check c03_no_lost_wakeup_and_quiet : forall cfg ops, mon_with chk_C03 cfg ops (trace cfg ops) = true.
Print Assumptions c03_no_lost_wakeup_and_quiet.

Theorem c03_monitor : forall cfg body u p,
  let ops := body ++ drain_ops (count_issues body) u p in mon_C03 cfg ops true (trace cfg ops) = true.
Proof. exact mon_C03_holds. Qed.
Check c03_monitor : forall cfg body u p,
  let ops := body ++ drain_ops (count_issues body) u p in mon_C03 cfg ops true (trace cfg ops) = true.
Print Assumptions c03_monitor.

(* the model-level reading of clause (c): after the closing procedure no request of the model is still a
   checkout (or an unpolled URI error) *)
Theorem c03_drain_resolves : forall cfg body u p r rq,
  get_req (run cfg (body ++ drain_ops (count_issues body) u p)) r = Some rq -> is_lv rq = false.
Proof. exact drain_resolves. Qed.
Print Assumptions c03_drain_resolves.

(* the ownership / scheduling invariant holds in every reachable state *)
Theorem c03_live_invariant : forall cfg ops, Lv cfg None None (run cfg ops).
Proof. intros cfg ops. exact (proj1 (proj2 (Reach_run cfg ops))). Qed.
Print Assumptions c03_live_invariant.

Theorem c03_delivery_wakes_partial : forall w p s ck,
  get_req s w = Some (RCheckout ck) -> k_rxpolled ck = true -> w < List.length (woken s) ->
  nth w (woken (deliver w p s)) false = true.
Proof. exact deliver_wakes. Qed.
Print Assumptions c03_delivery_wakes_partial.

Theorem c03_release_wakes_partial : forall w s ck,
  get_req s w = Some (RCheckout ck) -> k_waiter ck <> WNoPool -> k_rxpolled ck = true -> w < List.length (woken s) ->
  nth w (woken (drop_sender w s)) false = true.
Proof. exact drop_sender_wakes. Qed.
Print Assumptions c03_release_wakes_partial.

Theorem c03_dial_done_wakes_partial : forall r x s d,
  get_dial s r = Some d -> d_stage d = DInFlight -> d_polled d = Some ByReq -> r < List.length (woken s) ->
  nth r (woken (do_dial_done r x s)) false = true.
Proof. exact dial_done_wakes_request. Qed.
Print Assumptions c03_dial_done_wakes_partial.

Theorem c03_finish_wakes_partial : forall r s p fin,
  get_req s r = Some (RHolding p fin true) -> r < List.length (woken s) ->
  nth r (woken (do_finish r s)) false = true.
Proof. exact finish_wakes_holder. Qed.
Print Assumptions c03_finish_wakes_partial.

Theorem c03_pure_waiter_partial : forall ck,
  k_waiter ck = WConnecting -> k_slot ck = None ->
  fst (waiter_poll ck) = if k_txdropped ck then WContinue else WPending.
Proof. exact pure_waiter_pending. Qed.
Print Assumptions c03_pure_waiter_partial.

(* the D4 witness (owner's dial fails while another HTTP/2 request waits on it) on the repaired
   model: the waiter is released with an error and woken; the monitor accepts the drained history *)
Example c03_example :
  let cfg := mkCfg true None 8 true [Some ("http", "a.test")%string] in
  let body := [Issue 0 H2; Issue 0 H2; Poll 0; Poll 1; DialDone 0 DErrConnect; Poll 0] in
  let ops := body ++ drain_ops 2 0 H1 in
  mon_C03 cfg ops true (trace cfg ops) = true
  /\ o_woken (last (trace cfg body) (mkObs [] [] [])) = [1].
Proof. vm_compute. auto. Qed.
