(* C03 — Every request's connection acquisition terminates; nobody is stranded.
   Statements only; proofs in pool/ProofsLite2.v.
   FULL STATEMENT (the monitor theorem, for every configuration and every operation history):
     forall cfg body u p, mon_C03 cfg (body ++ drain_ops (count_issues body) u p) true
                                  (trace cfg (body ++ drain_ops (count_issues body) u p)) = true
   i.e. (a) no lost wake-up, (b) nothing after cancel/completion, (c) after the closing procedure
   every request and a fresh probe hold a connection or an error.
   PROVED SO FAR (partial): the per-primitive halves, for all states: every state change that lets a
   request proceed wakes it if it registered a waker (delivery into its channel, release of a
   checkout waiting on a failed/abandoned attempt = D4 repair, completion of its dial, completion of
   the exchange it holds); a pure waiter is pending exactly while its sender is alive and silent.
   MISSING: the invariant lifting these to every reachable state (Inv_owner / Inv_wake of DESIGN.md 6.1)
   and the measure argument for the closing procedure.  The full monitor is evaluated on every
   implementation trace and the model is compared with the implementation after every operation. *)
From HD Require Import common.Base http.Model pool.Model pool.Spec pool.ProofsLite pool.ProofsLite2.

Theorem c03_delivery_wakes_partial : forall w p s ck,
  get_req s w = Some (RCheckout ck) -> k_rxpolled ck = true -> w < List.length (woken s) ->
  nth w (woken (deliver w p s)) false = true.
Proof. exact deliver_wakes. Qed.
Print Assumptions c03_delivery_wakes_partial.

Theorem c03_release_wakes_partial : forall w s ck,
  get_req s w = Some (RCheckout ck) -> k_waiter ck <> WNoPool -> k_rxpolled ck = true -> w < List.length (woken s) ->
  nth w (woken (drop_sender w s)) false = true.
Proof. exact drop_sender_wakes. Qed.
Print Assumptions c03_release_wakes_partial.

Theorem c03_dial_done_wakes_partial : forall r x s d,
  get_dial s r = Some d -> d_stage d = DInFlight -> d_polled d = Some ByReq -> r < List.length (woken s) ->
  nth r (woken (do_dial_done r x s)) false = true.
Proof. exact dial_done_wakes_request. Qed.
Print Assumptions c03_dial_done_wakes_partial.

Theorem c03_finish_wakes_partial : forall r s p fin,
  get_req s r = Some (RHolding p fin true) -> r < List.length (woken s) ->
  nth r (woken (do_finish r s)) false = true.
Proof. exact finish_wakes_holder. Qed.
Print Assumptions c03_finish_wakes_partial.

Theorem c03_pure_waiter_partial : forall ck,
  k_waiter ck = WConnecting -> k_slot ck = None ->
  fst (waiter_poll ck) = if k_txdropped ck then WContinue else WPending.
Proof. exact pure_waiter_pending. Qed.
Print Assumptions c03_pure_waiter_partial.

(* the D4 witness (owner's dial fails while another HTTP/2 request waits on it) on the repaired
   model: the waiter is released with an error and woken; the monitor accepts the drained history *)
Example c03_example :
  let cfg := mkCfg true None 8 true [Some ("http", "a.test")%string] in
  let body := [Issue 0 H2; Issue 0 H2; Poll 0; Poll 1; DialDone 0 DErrConnect; Poll 0] in
  let ops := body ++ drain_ops 2 0 H1 in
  mon_C03 cfg ops true (trace cfg ops) = true
  /\ o_woken (last (trace cfg body) (mkObs [] [] [])) = [1].
Proof. vm_compute. auto. Qed.
