(* C03 — Every request's connection acquisition terminates; nobody is stranded.
   Statements only; proofs in pool/ProofsC03.v (invariant and tracker relation in pool/FramesC03.v) and
   pool/ProofsLite2.v.
   FULL STATEMENT (the monitor theorem, for every configuration and every operation history):
     forall cfg body u p, mon_C03 cfg (body ++ drain_ops (count_issues body) u p) true
                                  (trace cfg (body ++ drain_ops (count_issues body) u p)) = true
   i.e. (a) no lost wake-up, (b) nothing after cancel/completion, (c) after the closing procedure
   every request and a fresh probe hold a connection or an error.
   PROVED (no axioms), for every configuration and EVERY finite operation sequence:
     [c03_no_lost_wakeup_and_quiet] = clauses (a) and (b): the per-operation check [chk_C03] accepts every
     operation of the model's trace: whenever a request whose last poll returned Pending makes progress
     (is handed a connection, or resolves) it was in the woken set observed after the previous
     operation, and no event is ever recorded for a request after its cancellation or completion.
     The invariant behind it (Inv, pool/FramesC03.v): a checkout whose last poll was pending has its waker
     registered on its channel, its own dial (if in flight) was polled by the request itself, and if a
     poll would now complete (channel filled / sender dropped / dial resolved / exchange finished) the
     request is woken; delayed connector tasks only exist for requests that are no checkouts any more.
   STILL MISSING: clause (c), the liveness half ([all_resolved] after [drain_ops]); see the end of this
   header for the precise gap.  The per-primitive lemmas below (kept from the interim file) are its
   building blocks.  The full monitor is evaluated on every implementation trace and the model is
   compared with the implementation after every operation. *)
From HD Require Import common.Base http.Model pool.Model pool.Spec pool.ProofsLite pool.ProofsLite2 pool.FramesC03 pool.ProofsC03.

Theorem c03_no_lost_wakeup_and_quiet : forall cfg ops, mon_with chk_C03 cfg ops (trace cfg ops) = true.
Proof. exact mon_C03_steps_holds. Qed.
Check c03_no_lost_wakeup_and_quiet : forall cfg ops, mon_with chk_C03 cfg ops (trace cfg ops) = true.
Print Assumptions c03_no_lost_wakeup_and_quiet.

Theorem c03_delivery_wakes_partial : forall w p s ck,
  get_req s w = Some (RCheckout ck) -> k_rxpolled ck = true -> w < List.length (woken s) ->
  nth w (woken (deliver w p s)) false = true.
Proof. exact deliver_wakes. Qed.
Print Assumptions c03_delivery_wakes_partial.

Theorem c03_release_wakes_partial : forall w s ck,
  get_req s w = Some (RCheckout ck) -> k_waiter ck <> WNoPool -> k_rxpolled ck = true -> w < List.length (woken s) ->
  nth w (woken (drop_sender w s)) false = true.
Proof. exact drop_sender_wakes. Qed.
Print Assumptions c03_release_wakes_partial.

Theorem c03_dial_done_wakes_partial : forall r x s d,
  get_dial s r = Some d -> d_stage d = DInFlight -> d_polled d = Some ByReq -> r < List.length (woken s) ->
  nth r (woken (do_dial_done r x s)) false = true.
Proof. exact dial_done_wakes_request. Qed.
Print Assumptions c03_dial_done_wakes_partial.

Theorem c03_finish_wakes_partial : forall r s p fin,
  get_req s r = Some (RHolding p fin true) -> r < List.length (woken s) ->
  nth r (woken (do_finish r s)) false = true.
Proof. exact finish_wakes_holder. Qed.
Print Assumptions c03_finish_wakes_partial.

Theorem c03_pure_waiter_partial : forall ck,
  k_waiter ck = WConnecting -> k_slot ck = None ->
  fst (waiter_poll ck) = if k_txdropped ck then WContinue else WPending.
Proof. exact pure_waiter_pending. Qed.
Print Assumptions c03_pure_waiter_partial.

(* the D4 witness (owner's dial fails while another HTTP/2 request waits on it) on the repaired
   model: the waiter is released with an error and woken; the monitor accepts the drained history *)
Example c03_example :
  let cfg := mkCfg true None 8 true [Some ("http", "a.test")%string] in
  let body := [Issue 0 H2; Issue 0 H2; Poll 0; Poll 1; DialDone 0 DErrConnect; Poll 0] in
  let ops := body ++ drain_ops 2 0 H1 in
  mon_C03 cfg ops true (trace cfg ops) = true
  /\ o_woken (last (trace cfg body) (mkObs [] [] [])) = [1].
Proof. vm_compute. auto. Qed.
