(* C07 — Graceful shutdown finishes in-flight requests and stops accepting.
   Statements only; proofs in server/Proofs.v.  Quantification: every configuration and every list
   of environment events of any length, i.e. every position of the signal relative to accept,
   protocol detection, request head, body, handler, response, for any number of connections.
   Hypothesis h2_preface_done: an HTTP/2-only server meets no client that never completes the
   HTTP/2 preface — that case is the known finding D18 (hyper keeps such a connection open).
   Reading of the counters: m = tracks ms0 a are the monitor's counters over the trace prefix a
   (server/Spec.v); settled07 / idle_cm are the monitor's own clauses as propositions. *)
From HD Require Import common.Base server.Model server.Spec server.Proofs.

(* the model's trace satisfies the executable specification, for all event lists *)
Theorem c07_monitor : forall g evs, h2_preface_done g evs -> mon_C07 (trace (run g evs)) = true.
Proof. exact model_mon_C07. Qed.
Check c07_monitor : forall g evs, h2_preface_done g evs -> mon_C07 (trace (run g evs)) = true.
Print Assumptions c07_monitor.

(* after the signal: the acceptor hands over no further connection, no driver is spawned, the
   future completes with Ok (()), and it has completed at the first quiescent point *)
Theorem c07_stops_accepting : forall g evs tr1 tr2,
  h2_preface_done g evs -> trace (run g evs) = tr1 ++ OSignal :: tr2 ->
  (forall c, ~ In (OAccept c) tr2) /\ (forall c, ~ In (OSpawn c) tr2)
  /\ (forall r, In (OServer r) tr2 -> r = true)
  /\ (forall a b, tr2 = a ++ OQuiet :: b -> exists r, In (OServer r) (tr1 ++ OSignal :: a)).
Proof. exact c07_stops_accepting_proof. Qed.
Print Assumptions c07_stops_accepting.

(* graceful_shutdown is called at most once per connection in the whole run; at every quiescent
   point after the signal every spawned connection (without injected fault) has been told exactly
   once or its driver has finished *)
Theorem c07_every_driver_told_once : forall g evs c,
  h2_preface_done g evs ->
  length (filter (is_told c) (trace (run g evs))) <= 1
  /\ forall a b, trace (run g evs) = a ++ OQuiet :: b -> In OSignal a ->
     c < k_n (tracks ms0 a) -> settled07 (k_conns (tracks ms0 a) c).
Proof. exact c07_every_driver_told_once_proof. Qed.
Check c07_every_driver_told_once : forall g evs c,
  h2_preface_done g evs ->
  length (filter (is_told c) (trace (run g evs))) <= 1
  /\ forall a b, trace (run g evs) = a ++ OQuiet :: b -> In OSignal a ->
     c < k_n (tracks ms0 a) ->
     let y := k_conns (tracks ms0 a) c in
     m_spawned y = true -> m_fault y = false ->
     (m_done y = true \/ m_told y = 1)
     /\ (m_begun y = m_envdone y -> m_done y = true /\ m_hb y <= m_resp y).
Print Assumptions c07_every_driver_told_once.

(* in-flight exchanges complete before the close; idle connections serve no further request *)
Theorem c07_inflight_complete : forall g evs,
  h2_preface_done g evs ->
  (forall a b c, trace (run g evs) = a ++ OQuiet :: b -> In OSignal a -> c < k_n (tracks ms0 a) ->
     settled07 (k_conns (tracks ms0 a) c))
  /\ (forall tr1 tr2 c, trace (run g evs) = tr1 ++ OSignal :: tr2 -> ~ In OSignal tr1 ->
        idle_cm (k_conns (tracks ms0 tr1) c) = true -> ~ In (OHandler c) tr2).
Proof. exact c07_inflight_complete_proof. Qed.
Print Assumptions c07_inflight_complete.

(* non-vacuity: h1 connection 0 is in its handler, h2 connection 1 is idle keep-alive, client 2 is
   still queued when the signal fires: 2 is refused, both are told once, 1 closes at once, 0 gets
   its complete response and closes; the late request on 1 is not served *)
Example c07_example :
  let g := mkCfg true PAuto in
  let evs := [EConnect KH1; EConnect KH2; EReq 0; EStep 0; EReq 1; EStep 1; EStep 1; EStep 1;
              EConnect KH1; ESignal; ESettle; EStep 0; EStep 0; EReq 1; ESettle] in
  h2_preface_done g evs
  /\ trace (run g evs)
     = [OConnect 0; OConnect 1; OAccept 0; OSpawn 0; OAccept 1; OSpawn 1; OBegin 0; OHandler 0; OQuiet; OQuiet;
        OBegin 1; OHandler 1; OQuiet; OQuiet; OQuiet; OEnvDone 1; OResp 1; OQuiet; OConnect 2; OSignal;
        OServer true; ORefused 2; OTold 0; OTold 1; ODone 1; OQuiet; OQuiet; OEnvDone 0; OResp 0;
        ODone 0; OQuiet; OQuiet; OQuiet].
Proof.
  cbv zeta. split; [| vm_compute; reflexivity].
  unfold h2_preface_done. repeat constructor; cbn; discriminate.
Qed.

(* the model even satisfies the strict form of the monitor: after the signal no driver is spawned
   at all (mon_C07 itself lets the connection that was in State::Making when the signal resolved
   get its driver: it had been accepted before) *)
Theorem c07_monitor_strict : forall g evs,
  h2_preface_done g evs -> mon_from chk07_strict ms0 (trace (run g evs)) = true.
Proof. exact model_mon_C07_strict. Qed.
Print Assumptions c07_monitor_strict.

(* the signal resolves INSIDE the accept loop: three connects are queued, the make-service resolves the
   signal while it admits the first; the signal is polled at the top of every iteration, so the other
   two are never accepted: they are refused, connection 0 is told and (idle) closes *)
Example c07_inloop_example :
  let g := mkCfg true PH1 in
  let evs := [EConnect KH1; EConnect KH1; EConnect KH1; EMakeSignal 0; ESettle] in
  h2_preface_done g evs
  /\ trace (run g evs)
     = [OConnect 0; OConnect 1; OConnect 2; OAccept 0; OSpawn 0; OSignal; OServer true;
        ORefused 1; ORefused 2; OTold 0; ODone 0; OQuiet]
  (* the implementation logs the signal between OAccept 0 and OSpawn 0: accepted *)
  /\ mon_C07 [OConnect 0; OConnect 1; OConnect 2; OAccept 0; OSignal; OSpawn 0; OServer true;
              ORefused 1; ORefused 2; OTold 0; ODone 0; OQuiet] = true
  (* a server that polls the signal only once per wake-up goes on accepting: rejected *)
  /\ mon_C07 [OConnect 0; OConnect 1; OConnect 2; OAccept 0; OSignal; OSpawn 0; OAccept 1; OSpawn 1;
              OAccept 2; OSpawn 2; OServer true; OTold 0; ODone 0; OTold 1; ODone 1; OTold 2; ODone 2; OQuiet] = false.
Proof.
  cbv zeta. split; [| split; [| split]]; try (vm_compute; reflexivity).
  unfold h2_preface_done. repeat constructor; cbn; discriminate.
Qed.

(* the hypothesis is needed: D18 in the model *)
Example c07_d15 :
  mon_C07 (trace (run (mkCfg true PH2) [EConnect KRaw; ESettle; ESignal; ESettle])) = false.
Proof. vm_compute. reflexivity. Qed.
