From HD Require Import common.Base server.Model server.Spec server.Proofs.
