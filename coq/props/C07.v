(* C07 — Graceful shutdown finishes in-flight requests and stops accepting.
   Statements only; proofs in server/Proofs.v.  Quantification: every configuration and every list
   of environment events of any length, i.e. every position of the signal relative to accept,
   protocol detection, request head, body, handler, response, for any number of connections.
   Hypothesis h2_preface_done: an HTTP/2-only server meets no client that never completes the
   HTTP/2 preface — that case is the known finding D15 (hyper keeps such a connection open). *)
From HD Require Import common.Base server.Model server.Spec server.Proofs.

Theorem c07_monitor : forall g evs, h2_preface_done g evs -> mon_C07 (trace (run g evs)) = true.
Proof. exact model_mon_C07. Qed.
Check c07_monitor : forall g evs, h2_preface_done g evs -> mon_C07 (trace (run g evs)) = true.
Print Assumptions c07_monitor.
