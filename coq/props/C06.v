(* C06 — A request is only ever sent on a connection that was established for the same scheme and
   authority as the request's URI; no sequence of requests, failures or cancellations makes the pool
   deliver a connection opened for one origin to a request for another, including origins that differ
   only in scheme or port.
   Statements only; proofs in pool/ProofsC06.v (invariant and tracker relation in pool/FramesC06.v).
   Quantification: every pool configuration (pool enabled or not, any max_idle_per_host, any idle
   timeout, both continue_after_preemption settings, any URI table — any scheme / authority strings,
   URIs without a scheme included) and EVERY finite sequence of operations (issue with either protocol /
   poll / cancel / finish / upgrade / dial outcomes incl. connect and handshake failures / connection
   ready / connection closed / background run / clock tick), of any length.
   "Only ever": the monitor judges every hand-off event (EHand) and every transport connect (EDial) of
   the whole history; the state-level reading is an invariant of every reachable state. *)
From HD Require Import common.Base http.Model pool.Model pool.Spec pool.FramesC06 pool.ProofsC06.

(* the executable C06 monitor accepts the model's trace of every history: at every hand-off the key
   (scheme, authority) of the request whose dial created the connection equals — ASCII
   case-insensitively, [key_eqb] — the key of the receiving request, and every transport connect goes
   to exactly the request's own scheme + authority *)
Theorem c06_monitor : forall cfg ops, mon_C06 cfg ops (trace cfg ops) = true.
Proof. exact mon_C06_holds. Qed.
Check c06_monitor : forall cfg ops, mon_C06 cfg ops (trace cfg ops) = true.
Print Assumptions c06_monitor.

(* state-level reading: in every reachable state every connection stored under a token or a request —
   idle list, waiter channel slot, checkout, holder handle, hand-back task — was dialled for a key that
   [key_eqb]-equals the key of that token / request ([same_key] holds only between two present keys);
   every queued waiter, checkout and delayed-connect task sits under the token of its own key; a dial
   that can still start carries its request's own key *)
Theorem c06_same_origin : forall cfg ops, Inv_origin (run cfg ops).
Proof. exact Inv_origin_run. Qed.
Print Assumptions c06_same_origin.
(* two of its clauses spelled out: a connection parked in the idle list of token i+1 was dialled for that
   token's key; a connection held by request r was dialled for r's own key *)
Theorem c06_idle_same_origin : forall cfg ops i p c a, let s := run cfg ops in
  nth_error (toks s) i = Some p -> In (c, a) (p_idle p) -> same_key (okey s c) (tkey s (S i)) = true.
Proof. intros cfg ops. exact (io_idle _ (Inv_origin_run cfg ops)). Qed.
Theorem c06_holder_same_origin : forall cfg ops r c t fin pl, let s := run cfg ops in
  nth_error (reqs s) r = Some (RHolding (c, t) fin pl) -> same_key (okey s c) (rkey s r) = true.
Proof. intros cfg ops r c t fin pl s H. exact (proj1 (io_hold _ (Inv_origin_run cfg ops) r c t fin pl H)). Qed.

(* the TokenMap: equal keys (scheme + authority, ASCII case-insensitively) get the same token, also
   after the map has grown; two keys with the same token are equal, i.e. different origins — also those
   differing only in scheme or port — never share a token; insert returns the token under which the key
   is found from then on; a token's key never changes *)
Theorem c06_token_same : forall ks l k1 k2 t,
  key_eqb k1 k2 = true -> find_key k1 ks 1 = Some t -> find_key k2 (ks ++ l) 1 = Some t.
Proof. exact token_same. Qed.
Theorem c06_token_distinct : forall ks k1 k2 t,
  find_key k1 ks 1 = Some t -> find_key k2 ks 1 = Some t -> key_eqb k1 k2 = true.
Proof. exact token_distinct. Qed.
Theorem c06_token_insert : forall k s,
  find_key k (keys (snd (key_insert k s))) 1 = Some (fst (key_insert k s))
  /\ exists l, keys (snd (key_insert k s)) = keys s ++ l.
Proof. exact key_insert_token. Qed.
Theorem c06_token_stable : forall cfg ops ops' i k,
  nth_error (keys (run cfg ops)) i = Some k -> nth_error (keys (run cfg (ops ++ ops'))) i = Some k.
Proof. exact keys_stable. Qed.
Print Assumptions c06_token_stable.

(* non-vacuity: three origins that differ only in scheme (http / https) or port (80 / 81), one
   connection each (connection i dialled by request i, three transport connects in all); after the
   releases each origin's idle list holds its own connection; three further requests — for the port-81
   origin, the https origin and the first origin spelled in upper case — are each handed the connection
   of their own origin (request 3 <- connection 2, 4 <- 1, 5 <- 0), with no further connect *)
Example c06_example :
  let cfg := mkCfg true None 4 true
               [Some ("http", "a.test:80"); Some ("https", "a.test:80"); Some ("http", "a.test:81");
                Some ("HTTP", "A.TEST:80")]%string in
  let ops := [Issue 0 H1; Issue 1 H1; Issue 2 H1; Poll 0; Poll 1; Poll 2;
              DialDone 0 (DOk false); DialDone 1 (DOk false); DialDone 2 (DOk false);
              Poll 0; Poll 1; Poll 2; Finish 0; Finish 1; Finish 2; Poll 0; Poll 1; Poll 2;
              ConnReady 0; ConnReady 1; ConnReady 2; Bg;
              Issue 2 H1; Issue 1 H1; Issue 3 H1; Poll 3; Poll 4; Poll 5] in
  let hands := flat_map (fun ob => flat_map (fun e => match e with EHand r c _ _ _ _ => [(r, c)] | _ => [] end) (o_events ob)) in
  let dials := flat_map (fun ob => flat_map (fun e => match e with EDial r _ => [r] | _ => [] end) (o_events ob)) in
  map (fun p => map fst (p_idle p)) (toks (run cfg (firstn 22 ops))) = [[0]; [1]; [2]]
  /\ hands (trace cfg ops) = [(0, 0); (1, 1); (2, 2); (3, 2); (4, 1); (5, 0)]
  /\ dials (trace cfg ops) = [0; 1; 2]
  /\ keys (run cfg ops) = [("http", "a.test:80"); ("https", "a.test:80"); ("http", "a.test:81")]%string.
Proof. vm_compute. auto. Qed.
