(* C18 — Stream adapters deliver exactly the bytes written, in order.
   Statements only; proofs in io/Proofs.v.  Quantification: every adapter stack of the model
   (Rewind with any prefix, TokioIo in both directions = forwarding reads with buffer
   bookkeeping, dispatchers with or without vectored forwarding), every inner byte stream, every
   inner read/write script (short reads/writes, Pending, errors) and every outer op sequence
   (reads with any capacity and pre-filled part incl. 0 and 1, writes, vectored writes, flush,
   shutdown) of any length. *)
From HD Require Import common.Base io.Model io.Spec io.Proofs.

(* (1) reads: delivered bytes followed by what is still unread (remaining replay prefix, then the
   peer's bytes) always equal what was there at the start: no loss, duplication, reordering,
   invention; (2) writes: the inner writer holds exactly the accepted bytes in order;
   (3) per-op bounds; (4) one result per op *)
Theorem c18_stream : forall fwd ops a,
  let '(rs, a') := run fwd a ops in
  concat (map data_of rs) ++ unread a' = unread a
  /\ written_of a' = written_of a ++ accepted ops rs
  /\ kinds_ok ops rs = true
  /\ length rs = length ops.
Proof. exact run_spec. Qed.
Check c18_stream : forall fwd ops a,
  let '(rs, a') := run fwd a ops in
  concat (map data_of rs) ++ unread a' = unread a
  /\ written_of a' = written_of a ++ accepted ops rs
  /\ kinds_ok ops rs = true
  /\ length rs = length ops.
Print Assumptions c18_stream.

(* the executable monitor (io/Spec.v) accepts every run of the model *)
Theorem c18_monitor : forall fwd prefix i ops,
  i_written i = [] ->
  let '(rs, a') := run fwd (mkAst prefix i) ops in
  mon_C18 (match prefix with Some p => p | None => [] end) (i_stream i) ops rs (written_of a') = true.
Proof. exact run_mon_C18. Qed.
Print Assumptions c18_monitor.

(* the sniffing rewind buffer as the auto server builds it: protocol detection first (any
   fragmentation of the first bytes, any Pending results), then any op sequence through the
   rewound stream: exactly the client's bytes from the very first one *)
Theorem c18_sniffed_rewind : forall i fwd ops v p i' n,
  Forall chunk_pos (i_rscript i) -> i_written i = [] -> sniff i = SDone v p i' n ->
  let '(rs, a') := run fwd (mkAst (Some p) i') ops in
  mon_C18 [] (i_stream i) ops rs (written_of a') = true.
Proof. exact sniff_run_mon_C18. Qed.
Print Assumptions c18_sniffed_rewind.


(* end of stream is never invented: a read that had room and delivered nothing is only ever seen once every
   byte of prefix ++ stream has been delivered (inner streams obeying the AsyncRead contract: a 0-byte read
   with room means end of stream); together with c18_propagate: an error never turns into an EOF *)
Theorem c18_eof_only_at_end : forall fwd prefix i ops,
  Forall chunk_pos (i_rscript i) ->
  mon_C18_eof (match prefix with Some p => p | None => [] end) (i_stream i) ops
              (fst (run fwd (mkAst prefix i) ops)) = true.
Proof. exact run_mon_C18_eof. Qed.
Print Assumptions c18_eof_only_at_end.

(* TokioIo buffer bookkeeping, the arithmetic both unsafe blocks rely on *)
Theorem c18_buffer : forall b a,
  (length (b_filled b) <= b_cap b)%nat -> (length (b_filled b) <= b_init b)%nat ->
  let '(r, b', a') := buffered_read b a in
  b_cap b' = b_cap b
  /\ (length (b_filled b') <= b_cap b')%nat /\ (length (b_filled b') <= b_init b')%nat
  /\ match r with
     | RRData bs => b_filled b' = b_filled b ++ bs /\ bs ++ unread a' = unread a
     | _ => b' = b /\ unread a' = unread a
     end.
Proof. exact buffered_read_spec. Qed.
Print Assumptions c18_buffer.

(* end of stream: with nothing left to read, no read ever delivers a byte *)
Theorem c18_eof : forall fwd ops a,
  unread a = [] -> let '(rs, _) := run fwd a ops in concat (map data_of rs) = [].
Proof. exact run_eof. Qed.
Print Assumptions c18_eof.

(* Pending and errors of the inner reader surface unchanged (and, by c18_stream, consume nothing) *)
Theorem c18_propagate : forall fwd a cap pre,
  (match a_prefix a with Some (_ :: _) => False | _ => True end) ->
  match i_rscript (a_inner a) with
  | RPending :: _ => fst (step fwd a (ORead cap pre)) = XPending
  | RErr :: _ => fst (step fwd a (ORead cap pre)) = XErr
  | _ => True
  end.
Proof. exact read_propagates. Qed.
Print Assumptions c18_propagate.

Example c18_example :
  fst (run true (mkAst (Some [9; 8; 7]%N) (mkInner [1; 2; 3; 4]%N [RPending; RChunk 1] [WAccept 1] []))
           [ORead 2 0; ORead 5 1; ORead 4 0; ORead 4 0; OWrite [[5; 6]%N; [7]%N]; ORead 9 0])
  = [XData [9; 8]; XData [7]; XPending; XData [1]; XWrote 1; XData [2; 3; 4]]%N.
Proof. vm_compute. reflexivity. Qed.
