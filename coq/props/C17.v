(* C17 — No request value makes the client panic.
   Statements only; proofs in panic/Proofs.v.  Quantification: every entry point (Client with and
   without pool, ConnectionPoolService with and without pool, ConnectorService over the standard
   layer stack or directly over the executor), every transport (duplex or TCP, dial succeeding or
   not; TLS unconfigured or configured with any certificate situation / ALPN offers / fault) and
   every request of the record type: any method string, any http::Version constant, any decomposed
   URI (every part optional, strings of any length), any header list, any body, any rustls
   classification of the host. *)
From HD Require Import common.Base http.Model tls.Model panic.Model panic.Spec panic.Corr panic.Proofs.
Local Open Scope string_scope.

(* the headline: no panic site of the request path is reachable *)
Theorem c17_no_panic : forall entry transport r site, client_path entry transport r <> Panic site.
Proof. exact client_path_no_panic. Qed.
Check c17_no_panic : forall entry transport r site, client_path entry transport r <> Panic site.
Print Assumptions c17_no_panic.

(* the same without the well-typedness gate: what the http crate guarantees about a Uri (oracle
   O7, [req_wf_b]; checked on every decomposition the harness sees) is exactly what is needed *)
Theorem c17_no_panic_raw : forall entry transport r site,
  req_wf_b r = true -> client_path_raw entry transport r <> Panic site.
Proof. exact client_path_raw_no_panic. Qed.
Print Assumptions c17_no_panic_raw.

(* the caller always gets an answer: an error, or the request reaches Connection::send_request *)
Theorem c17_total : forall entry transport r,
  (exists e, client_path entry transport r = Err e) \/ (exists w, client_path entry transport r = Sent w).
Proof. exact client_path_total. Qed.
Print Assumptions c17_total.

(* the model satisfies the C17 monitor, in the debug and in the release profile *)
Theorem c17_monitor : forall c, mon_C17 c (model_obs c) = true.
Proof. exact model_mon. Qed.
Print Assumptions c17_monitor.

(* per site (A-list of panic/Model.v) *)
Theorem c17_site_version : forall v site, proto_for_request v <> RPanic site.
Proof. exact site_from_version_off_path. Qed.
Print Assumptions c17_site_version.

Theorem c17_site_tls_server_name : forall transport r site, transport_connect transport r <> RPanic site.
Proof. exact site_tls_server_name. Qed.
Print Assumptions c17_site_tls_server_name.

Theorem c17_site_layers : forall conn r site, host_wf r -> layers_p conn r <> RPanic site.
Proof. exact layers_p_no_panic. Qed.
Print Assumptions c17_site_layers.

(* composition: the panic-explicit layer stack and transport decision are M-HTTP's and M-TLS's,
   so the C13 and C12 theorems speak about the path proved panic-free here *)
Theorem c17_layers_are_c13 : forall conn r, host_wf r -> to_http (layers_p conn r) = layers conn r.
Proof. exact layers_p_refines. Qed.
Print Assumptions c17_layers_are_c13.

Theorem c17_transport_is_c12 : forall tk q,
  match transport_connect tk q, tls_connect (tcase_of tk q) with
  | ROk NoTls, OkPlain => True
  | ROk a, OkTls _ a' => a = alpn_of a'
  | RErr ENoDomain, ErrNoDomain => True
  | RErr ETlsHandshake, ErrHs => True
  | RErr ETcpUri, ErrConn | RErr ETransport, ErrConn => True
  | _, _ => False
  end.
Proof. exact transport_connect_refines. Qed.
Print Assumptions c17_transport_is_c12.

(* ---- non-vacuity ---- *)
Definition ex_uri : uri :=
  mkUri (Some "https") (Some "[::1]:8443") (Some "[::1]") (Some ("8443", 8443%N)) (Some "/a?b=1") "/a" (Some "b=1").
Definition ex_tls : transport_kind := mkTk BDuplex (Some (mkTlsEnv true CGood AH2 AH2 FNone)).

(* a Sent and an Err outcome are both reachable (so the theorem is not about an empty path) *)
Example c17_example_sent :
  client_path (EClient true) ex_tls (mkRequest (mkReq "GET" V11 ex_uri []) HIp "")
  = Sent (mkWire PH2 (mkReq "GET" V2 ex_uri [("user-agent", "hyperdriver")])).
Proof. vm_compute. reflexivity. Qed.

Example c17_example_sent_h1 :
  client_path (EConnector true) (mkTk (BTcp true) None) (mkRequest (mkReq "GET" V09 ex_uri []) HIp "hello")
  = Sent (mkWire PH1 (mkReq "GET" V09 (mkUri None None None None (Some "/a?b=1") "/a" (Some "b=1"))
                             [("host", "[::1]:8443")])).
Proof. vm_compute. reflexivity. Qed.

Example c17_example_err :
  client_path (EPool false) ex_tls (mkRequest (mkReq "GET" V3 ex_uri []) HIp "") = Err EUnsupportedProtocol
  /\ client_path (EPool true) ex_tls
       (mkRequest (mkReq "GET" V11 (mkUri None None None None (Some "/rel") "/rel" None) []) HInvalid "") = Err EInvalidUri
  /\ client_path (EConnector true) ex_tls
       (mkRequest (mkReq "CONNECT" V11 (mkUri None None None None (Some "/rel") "/rel" None) []) HInvalid "") = Err EProtocol
  /\ client_path (EClient false) ex_tls
       (mkRequest (mkReq "GET" V11 (mkUri (Some "https") (Some "a..b") (Some "a..b") None (Some "/") "/" None) []) HInvalid "")
     = Err ETlsHandshake
  /\ client_path (EClient false) (mkTk (BTcp true) None)
       (mkRequest (mkReq "GET" V11 (mkUri (Some "ws") (Some "h.test") (Some "h.test") None (Some "/") "/" None) []) HDns "")
     = Err ETcpUri.
Proof. vm_compute. repeat split. Qed.

(* the Panic branches of the model are live: each is taken when its guard is removed *)
Example c17_sites_live :
  proto_from_version V3 = RPanic SFromVersion                  (* D8: From<Version> on HTTP/3 *)
  /\ tls_stream_new HInvalid = RPanic STlsServerName            (* D9: TlsStream::new on a..b *)
  /\ client_path_raw (EConnector true) (mkTk BDuplex None)      (* a record no http::Uri decomposes into *)
       (mkRequest (mkReq "GET" V11
          (mkUri (Some "http") (Some "a") (Some (String "010"%char "b")) None (Some "/") "/" None) []) HInvalid "")
     = Panic SHostHeaderValue.
Proof. vm_compute. repeat split. Qed.
