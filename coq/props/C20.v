(* C20 — SNI validation forwards a request only if its host is the TLS server name.
   Statements only; proofs in sni/Proofs.v.  Quantification: every request record (HTTP version
   class, any Host header string, any URI authority string, TLS info absent / without SNI / with
   any SNI string). *)
From HD Require Import common.Base http.Model sni.Model sni.Spec sni.Proofs.

Theorem c20_monitor : forall r, mon_C20 r (handle r) = true.
Proof. exact handle_mon. Qed.
Check c20_monitor : forall r, mon_C20 r (handle r) = true.
Print Assumptions c20_monitor.

(* forwarded => not TLS, or the named host equals the SNI (case-insensitively, port ignored)
   and the request is marked validated; a request naming no host is passed on untouched (this layer never sets the flag for it) *)
Theorem c20_sound : forall r v,
  handle r = Forward v ->
  s_tls r = None \/
  exists n, s_tls r = Some (Some n) /\
    match spec_host r with
    | Some h => eq_ci h (auth_host n) = true /\ v = true
    | None => v = s_premarked r
    end.
Proof. exact handle_forward_sound. Qed.
Print Assumptions c20_sound.

(* a request whose host equals the server name is never rejected *)
Theorem c20_complete : forall r n h,
  s_tls r = Some (Some n) -> spec_host r = Some h -> eq_ci h (auth_host n) = true ->
  handle r = Forward true.
Proof. exact handle_never_rejects_equal. Qed.
Print Assumptions c20_complete.

(* a validated flag that is already set when the request arrives decides nothing for a request that names a host *)
Theorem c20_premarked_irrelevant : forall (h2 : bool) (hh ua : option string) tls b1 b2,
  (if h2 then orelse ua hh else hh) <> None ->
  handle (mkSreq h2 hh ua tls b1) = handle (mkSreq h2 hh ua tls b2).
Proof. exact handle_premarked_irrelevant. Qed.
Print Assumptions c20_premarked_irrelevant.

(* the comparison ignores the port and letter case *)
Theorem c20_port_ignored : forall h port,
  no_char at_sign h = true -> no_char colon h = true -> no_char at_sign port = true ->
  match h with String c _ => Ascii.eqb c lbracket = false | EmptyString => False end ->
  auth_host (h ++ ":" ++ port) = h /\ auth_host h = h.
Proof. exact auth_host_ignores_port. Qed.
Print Assumptions c20_port_ignored.

Theorem c20_case_equivalence :
  (forall s, eq_ci s s = true) /\ (forall a b, eq_ci a b = eq_ci b a)
  /\ (forall a b c, eq_ci a b = true -> eq_ci b c = true -> eq_ci a c = true).
Proof. exact (conj eq_ci_refl (conj eq_ci_sym eq_ci_trans)). Qed.
Print Assumptions c20_case_equivalence.

Example c20_example :
  handle (mkSreq false (Some "Example.COM:8443") None (Some (Some "example.com")) false)%string = Forward true
  /\ handle (mkSreq true (Some "evil.test") None (Some (Some "example.com")) true)%string = RejectInvalid
  /\ handle (mkSreq true (Some "evil.test") (Some "EXAMPLE.com") (Some (Some "example.com")) false)%string = Forward true.
Proof. vm_compute. auto. Qed.
