(* C11 — Happy-eyeballs attempts are paced, ordered, bounded and meet the deadline.
   Statements only; proofs in he/Proofs.v and he/ProofsPace.v (the two pacing clauses).
   Quantification as in C10. *)
From HD Require Import common.Base he.Model he.Spec he.Proofs he.ProofsPace.

(* started in the given order, each candidate at most once, a later candidate never before an
   earlier one; every completion belongs to a started attempt, exactly its latency later *)
Theorem c11_order : forall c tb atts, s_order atts (he_obs c tb atts) = true.
Proof.
  intros c tb atts. destruct (he_obs_final c atts tb) as (res & td & lg & E & HF).
  rewrite E. exact (clause_order c atts res td lg HF).
Qed.
Print Assumptions c11_order.

(* the initial batch (min(concurrency, n) candidates, all when no concurrency is set) starts at 0 *)
Theorem c11_initial : forall c tb atts, s_initial c atts (he_obs c tb atts) = true.
Proof.
  intros c tb atts. destruct (he_obs_final c atts tb) as (res & td & lg & E & HF).
  rewrite E. exact (clause_initial c atts res td lg HF).
Qed.
Print Assumptions c11_initial.

(* the operation completes no later than the configured deadline (and does complete) *)
Theorem c11_deadline : forall c tb atts, s_deadline c (he_obs c tb atts) = true.
Proof.
  intros c tb atts. destruct (he_obs_final c atts tb) as (res & td & lg & E & HF).
  rewrite E. exact (clause_deadline c atts res td lg HF).
Qed.
Print Assumptions c11_deadline.

(* pacing, never earlier / as soon as: every start after the initial batch happens at the least
   time >= the beginning of its wait (the start of the previous candidate) at which the stagger
   timer armed at the beginning of the wait fires, an earlier-started attempt fails, or the task
   set is empty; no failure of an earlier candidate lies strictly inside the wait *)
Theorem c11_pace : forall c tb atts, s_pace c atts (he_obs c tb atts) = true.
Proof. exact s_pace_holds. Qed.
Print Assumptions c11_pace.

(* candidates never started: the run ended before their trigger (no later than the stagger timer
   of their wait, no failure strictly inside it; part of the initial batch is left unpolled only
   by a success at time 0) *)
Theorem c11_unstarted : forall c tb atts, s_unstarted c atts (he_obs c tb atts) = true.
Proof. exact s_unstarted_holds. Qed.
Print Assumptions c11_unstarted.

(* The FULL monitor mon_C11 = s_order && s_initial && s_pace && s_unstarted && s_deadline is
   proved for every configuration, tie-break oracle and attempt script: nothing about C11 is
   left to the correspondence run except the model/implementation agreement itself. *)
Theorem c11_monitor : forall c tb atts, mon_C11 c atts (he_obs c tb atts) = true.
Proof. exact mon_C11_holds. Qed.
Print Assumptions c11_monitor.

(* the earlier, weaker statement (the conjunction without the two pacing clauses), kept for
   reference; it is implied by c11_monitor *)
Theorem c11_monitor_partial : forall c tb atts, mon_C11_proved c atts (he_obs c tb atts) = true.
Proof. exact mon_C11_proved_holds. Qed.
Check c11_monitor_partial : forall c tb atts,
  (s_order atts (he_obs c tb atts) && s_initial c atts (he_obs c tb atts)
   && s_deadline c (he_obs c tb atts)) = true.
Print Assumptions c11_monitor_partial.

Example c11_example :
  mon_C11 (mkCfg (Some 3%N) (Some 20%N) (Some 1%nat)) [mkAtt Fail 5; mkAtt Succ 4; mkAtt Never 0]%N
    (he_obs (mkCfg (Some 3%N) (Some 20%N) (Some 1%nat)) [] [mkAtt Fail 5; mkAtt Succ 4; mkAtt Never 0]%N)
  = true.
Proof. vm_compute. reflexivity. Qed.
