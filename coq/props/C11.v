(* C11 — Happy-eyeballs attempts are paced, ordered, bounded and meet the deadline.
   Statements only; proofs in he/Proofs.v.  Quantification as in C10. *)
From HD Require Import common.Base he.Model he.Spec he.Proofs.

(* started in the given order, each candidate at most once, a later candidate never before an
   earlier one; every completion belongs to a started attempt, exactly its latency later *)
Theorem c11_order : forall c tb atts, s_order atts (he_obs c tb atts) = true.
Proof.
  intros c tb atts. destruct (he_obs_final c atts tb) as (res & td & lg & E & HF).
  rewrite E. exact (clause_order c atts res td lg HF).
Qed.
Print Assumptions c11_order.

(* the initial batch (min(concurrency, n) candidates, all when no concurrency is set) starts at 0 *)
Theorem c11_initial : forall c tb atts, s_initial c atts (he_obs c tb atts) = true.
Proof.
  intros c tb atts. destruct (he_obs_final c atts tb) as (res & td & lg & E & HF).
  rewrite E. exact (clause_initial c atts res td lg HF).
Qed.
Print Assumptions c11_initial.

(* the operation completes no later than the configured deadline (and does complete) *)
Theorem c11_deadline : forall c tb atts, s_deadline c (he_obs c tb atts) = true.
Proof.
  intros c tb atts. destruct (he_obs_final c atts tb) as (res & td & lg & E & HF).
  rewrite E. exact (clause_deadline c atts res td lg HF).
Qed.
Print Assumptions c11_deadline.

(* PARTIAL: the full monitor is mon_C11 = s_order && s_initial && s_pace && s_unstarted &&
   s_deadline.  Proved here: the conjunction without the two pacing clauses (s_pace: every
   later start is triggered by the stagger timer / a failure / an empty set, and happens as soon
   as that trigger; s_unstarted: the same for candidates never started).  The pacing clauses are
   checked on every implementation trace and on the model by the correspondence run. *)
Theorem c11_monitor_partial : forall c tb atts, mon_C11_proved c atts (he_obs c tb atts) = true.
Proof. exact mon_C11_proved_holds. Qed.
Check c11_monitor_partial : forall c tb atts,
  (s_order atts (he_obs c tb atts) && s_initial c atts (he_obs c tb atts)
   && s_deadline c (he_obs c tb atts)) = true.
Print Assumptions c11_monitor_partial.

Example c11_example :
  mon_C11 (mkCfg (Some 3%N) (Some 20%N) (Some 1%nat)) [mkAtt Fail 5; mkAtt Succ 4; mkAtt Never 0]%N
    (he_obs (mkCfg (Some 3%N) (Some 20%N) (Some 1%nat)) [] [mkAtt Fail 5; mkAtt Succ 4; mkAtt Never 0]%N)
  = true.
Proof. vm_compute. reflexivity. Qed.
