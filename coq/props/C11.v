(* C11 — Happy-eyeballs attempts are paced, ordered, bounded and meet the deadline.
   Statements only; proofs in he/Proofs.v and he/ProofsPace.v (the two pacing clauses).
   Quantification as in C10. *)
From HD Require Import common.Base he.Model he.Spec he.Proofs he.ProofsPace he.Tcp he.TcpProofs.

(* started in the given order, each candidate at most once, a later candidate never before an
   earlier one; every completion belongs to a started attempt, exactly its latency later *)
Theorem c11_order : forall c tb atts, s_order atts (he_obs c tb atts) = true.
Proof.
  intros c tb atts. destruct (he_obs_final c atts tb) as (res & td & lg & E & HF).
  rewrite E. exact (clause_order c atts res td lg HF).
Qed.
Print Assumptions c11_order.

(* the initial batch (min(concurrency, n) candidates, all when no concurrency is set) starts at 0 *)
Theorem c11_initial : forall c tb atts, s_initial c atts (he_obs c tb atts) = true.
Proof.
  intros c tb atts. destruct (he_obs_final c atts tb) as (res & td & lg & E & HF).
  rewrite E. exact (clause_initial c atts res td lg HF).
Qed.
Print Assumptions c11_initial.

(* the operation completes no later than the configured deadline (and does complete) *)
Theorem c11_deadline : forall c tb atts, s_deadline c (he_obs c tb atts) = true.
Proof.
  intros c tb atts. destruct (he_obs_final c atts tb) as (res & td & lg & E & HF).
  rewrite E. exact (clause_deadline c atts res td lg HF).
Qed.
Print Assumptions c11_deadline.

(* pacing, never earlier / as soon as: every start after the initial batch happens at the least
   time >= the beginning of its wait (the start of the previous candidate) at which the stagger
   timer armed at the beginning of the wait fires, an earlier-started attempt fails, or the task
   set is empty; no failure of an earlier candidate lies strictly inside the wait *)
Theorem c11_pace : forall c tb atts, s_pace c atts (he_obs c tb atts) = true.
Proof. exact s_pace_holds. Qed.
Print Assumptions c11_pace.

(* candidates never started: the run ended before their trigger (no later than the stagger timer
   of their wait, no failure strictly inside it; part of the initial batch is left unpolled only
   by a success at time 0) *)
Theorem c11_unstarted : forall c tb atts, s_unstarted c atts (he_obs c tb atts) = true.
Proof. exact s_unstarted_holds. Qed.
Print Assumptions c11_unstarted.

(* The FULL monitor mon_C11 = s_order && s_initial && s_pace && s_unstarted && s_deadline is
   proved for every configuration, tie-break oracle and attempt script: nothing about C11 is
   left to the correspondence run except the model/implementation agreement itself. *)
Theorem c11_monitor : forall c tb atts, mon_C11 c atts (he_obs c tb atts) = true.
Proof. exact mon_C11_holds. Qed.
Print Assumptions c11_monitor.

(* the earlier, weaker statement (the conjunction without the two pacing clauses), kept for
   reference; it is implied by c11_monitor *)
Theorem c11_monitor_partial : forall c tb atts, mon_C11_proved c atts (he_obs c tb atts) = true.
Proof. exact mon_C11_proved_holds. Qed.
Check c11_monitor_partial : forall c tb atts,
  (s_order atts (he_obs c tb atts) && s_initial c atts (he_obs c tb atts)
   && s_deadline c (he_obs c tb atts)) = true.
Print Assumptions c11_monitor_partial.

(* ---- the configuration TcpConnecting::connect builds (he/Tcp.v): stagger delay derived as the
   overall timeout divided by the number of addresses (floor, in ns) ---- *)

(* the stagger delays of all candidates fit into the overall timeout *)
Theorem c11_tcp_delay_fits : forall T n d,
  tcp_delay (Some T) (N.of_nat n) = Some d -> (N.of_nat n * d <= T)%N.
Proof. exact tcp_delay_fits. Qed.
Check c11_tcp_delay_fits : forall T n d,
  tcp_delay (Some T) (N.of_nat n) = Some d -> (N.of_nat n * d <= T)%N.
Print Assumptions c11_tcp_delay_fits.

(* candidate j is first polled no later than j * (T / n), hence (T > 0) before the overall deadline *)
Theorem c11_tcp_start_bound : forall T conc tb atts j t,
  In (j, t) (starts (tcp_connect (Some T) conc tb atts)) ->
  (t <= N.of_nat j * (T / N.of_nat (length atts)))%N /\ ((0 < T)%N -> (t < T)%N).
Proof. exact tcp_start_bound. Qed.
Check c11_tcp_start_bound : forall T conc tb atts j t,
  In (j, t) (starts (tcp_connect (Some T) conc tb atts)) ->
  (t <= N.of_nat j * (T / N.of_nat (length atts)))%N /\ ((0 < T)%N -> (t < T)%N).
Print Assumptions c11_tcp_start_bound.

(* every candidate gets its turn unless the operation is over before: candidate j is polled by
   j * (T / n) or the operation completed by then -- for EVERY concurrency, Some 0 included (an
   empty task set ends the first wait at once: c11_tcp_conc0_example) *)
Theorem c11_tcp_attempted : forall T conc tb atts j,
  (j < length atts)%nat ->
  let o := tcp_connect (Some T) conc tb atts in
  let d := (T / N.of_nat (length atts))%N in
  (exists t, start_of o j = Some t /\ (t <= N.of_nat j * d)%N)
  \/ (exists td, snd (fst o) = Some td /\ (td <= N.of_nat j * d)%N).
Proof. exact tcp_attempted. Qed.
Print Assumptions c11_tcp_attempted.

(* non-vacuity: T = 31 ns over 3 candidates, d = 10 (floor); concurrency Some 0 behaves like Some 1 *)
Example c11_tcp_conc0_example :
  tcp_connect (Some 31%N) (Some 0%nat) [] [mkAtt Never 0; mkAtt Never 0; mkAtt Succ 4]%N
  = (ROk 2, Some 24%N, [EStart 0 0; EStart 1 10; EStart 2 20; EDone 2 24])%N.
Proof. vm_compute. reflexivity. Qed.

Example c11_example :
  mon_C11 (mkCfg (Some 3%N) (Some 20%N) (Some 1%nat)) [mkAtt Fail 5; mkAtt Succ 4; mkAtt Never 0]%N
    (he_obs (mkCfg (Some 3%N) (Some 20%N) (Some 1%nat)) [] [mkAtt Fail 5; mkAtt Succ 4; mkAtt Never 0]%N)
  = true.
Proof. vm_compute. reflexivity. Qed.
