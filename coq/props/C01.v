(* C01 — Requests and responses arrive intact and correctly matched end to end.
   Statements only; proofs in e2e/Proofs.v.  Quantification: EVERY handler function, EVERY
   configuration (request table, connections with protocol and server), EVERY schedule of any
   length over the alphabet start / server handles / response delivered / cancel / release to the
   pool / peer breaks (induction with the invariant [Inv]).  The pool's guarantees enter the
   theorems of the first part as the decidable hypothesis [sched_ok] (C02 exclusivity +
   ready-before-reuse, C06 same origin).  That hypothesis is DISCHARGED in the last part of this file
   (c01_pool_discharges_hypotheses, proofs in e2e/Link.v + e2e/LinkFrames.v): for EVERY combined
   history of the pool model M-POOL (any pool configuration, any interleaving of pool operations and
   wire steps, any length) the induced e2e schedule satisfies [sched_ok], from the proved pool
   theorems C02 (pool/ProofsC02.v) and C06 (pool/ProofsC06.v), under ONE stated, decidable oracle
   condition on the environment: O1 = a non-multiplexed connection reports ready ([ConnReady c]) only
   when its exchange queue is empty (hyper's behaviour; neither model proves it).
   Not covered by proof, only exercised by the correspondence run: hyper/h2 framing (that a real
   connection IS the abstract FIFO / stream-matched connection: R2), real scheduling (R1) and O1. *)
From HD Require Import common.Base http.Model http.Spec e2e.Model e2e.Spec e2e.Proofs.
Local Open Scope string_scope.

(* every response a caller receives is the handler's answer -- status, headers, body -- to the
   wire form of that caller's own request, computed at the server its own URI names *)
Theorem c01_matched : forall handler g evs r p,
  sched_ok handler g evs = true ->
  In (r, ODone p) (run handler g evs) ->
  exists q c w, req_of g r = Some q /\ wire_request (g_ua g) (proto_of g c) q = Some w
                /\ origin_of g c = q_origin q /\ p = handler (q_origin q) w.
Proof. exact matched. Qed.
Print Assumptions c01_matched.

(* every request a server handler is given is the wire form of a request a caller sent to that
   server: nothing is handled that nobody sent, and nothing reaches a foreign origin *)
Theorem c01_server_saw : forall handler g evs c r w,
  sched_ok handler g evs = true ->
  In (c, r, w) (st_log (run_state handler g evs)) ->
  exists q, req_of g r = Some q /\ wire_request (g_ua g) (proto_of g c) q = Some w
            /\ origin_of g c = q_origin q.
Proof. exact server_saw. Qed.
Print Assumptions c01_server_saw.

(* the hypothesis is what carries the result: without exclusivity, and without ready-before-reuse,
   the model delivers request 1's response to the caller of request 2 *)
Theorem c01_crosstalk_without_pool_guarantees :
  exists w1 w2,
    wire_request "ua" PH1 (xq 1 "/r/1") = Some w1 /\ wire_request "ua" PH1 (xq 2 "/r/2") = Some w2
    /\ echo_handler 0 w1 <> echo_handler 0 w2
    /\ sched_ok echo_handler xg x_excl = false
    /\ In (2%N, ODone (echo_handler 0 w1)) (run echo_handler xg x_excl)
    /\ sched_ok echo_handler xg x_ready = false
    /\ In (2%N, ODone (echo_handler 0 w1)) (run echo_handler xg x_ready).
Proof. exact crosstalk_witness. Qed.
Print Assumptions c01_crosstalk_without_pool_guarantees.

(* the wire form carries the caller's method, path, query, body and headers; the only differences
   are the documented ones: version := the connection's; Host / User-Agent inserted when the
   caller gave none (the caller's own values win: clause inside head_ok); on HTTP/2 Host and the
   connection-specific headers dropped.  [head_ok] is the clause of the monitor mon_C01. *)
Theorem c01_request_preserved : forall ua p q w,
  e2e_req_ok q = true -> wire_request ua p q = Some w ->
  head_ok q w = true /\ w_body w = q_body q /\ w_version w = wire_version p
  /\ w_method w = r_method (q_req q) /\ w_path w = u_path (r_uri (q_req q))
  /\ w_query w = u_query (r_uri (q_req q))
  /\ without (ign p) (w_headers w) = without (ign p) (r_headers (q_req q)).
Proof. exact request_preserved. Qed.
Print Assumptions c01_request_preserved.

(* such requests are never rejected by the client's own checks *)
Theorem c01_never_rejected : forall ua p q, e2e_req_ok q = true -> exists w, wire_request ua p q = Some w.
Proof. exact wire_request_some. Qed.
Print Assumptions c01_never_rejected.

(* completion, progress half: from every state an admissible schedule can reach, a request that is
   still running (not cancelled) on a connection the peer has not broken completes with exactly
   the right response after two further steps of ITS OWN connection (the server handles it, the
   transport delivers) -- no cooperation of any other request is needed, whatever was cancelled.
   Eventual completion = this + fair scheduling of those two steps (R1, exercised). *)
Theorem c01_completes : forall handler g evs r c s,
  sched_ok handler g evs = true ->
  st_stat (run_state handler g evs) r = SRunning c s ->
  c_dead (st_conn (run_state handler g evs) c) = false ->
  let evs' := (evs ++ [EHandle c s; EDeliver c s])%list in
  sched_ok handler g evs' = true /\
  exists q w, req_of g r = Some q /\ wire_request (g_ua g) (proto_of g c) q = Some w
              /\ origin_of g c = q_origin q
              /\ outcome_of (run_state handler g evs') r = ODone (handler (q_origin q) w).
Proof. exact completes. Qed.
Print Assumptions c01_completes.

(* completion, as a statement about whole runs: let the environment finish its work after ANY
   admissible schedule ([drain_events]: for every request still running, its server handles it and
   its transport delivers the response; no caller does anything).  Then every request that was
   started, not cancelled and whose connection the peer did not break has its response, and it is
   the handler's answer to its own wire request at its own origin. *)
Theorem c01_completes_after_drain : forall handler g evs,
  sched_ok handler g evs = true ->
  let st := run_state handler g evs in
  let st' := run_from handler g st (drain_events g st) in
  Inv handler g st' /\
  forall q c s, In q (g_reqs g) -> st_stat st (q_id q) = SRunning c s -> c_dead (st_conn st c) = false ->
    exists c' p, st_stat st' (q_id q) = SDone c' p /\
      exists q' w, req_of g (q_id q) = Some q' /\ wire_request (g_ua g) (proto_of g c') q' = Some w
                   /\ origin_of g c' = q_origin q' /\ p = handler (q_origin q') w.
Proof. exact drain_completes. Qed.
Print Assumptions c01_completes_after_drain.

(* completion, safety half: no step of anybody takes a running request out of the running state
   except: its response arrives, the caller cancels THIS request, or the peer breaks ITS
   connection.  In particular cancelling other requests never fails it. *)
Theorem c01_no_spurious_failure : forall handler g st e r c s,
  Inv handler g st -> pool_ok g st e = true ->
  st_stat st r = SRunning c s -> c_dead (st_conn st c) = false ->
  (st_stat (step handler g st e) r = SRunning c s
   /\ (c_dead (st_conn (step handler g st e) c) = false \/ e = EBreak c))
  \/ (exists c' p, st_stat (step handler g st e) r = SDone c' p)
  \/ (e = ECancel r /\ st_stat (step handler g st e) r = SCancelled).
Proof. exact running_stable. Qed.
Print Assumptions c01_no_spurious_failure.

(* [Inv] holds in every state an admissible schedule reaches (so the theorem above applies there) *)
Theorem c01_invariant : forall handler g evs,
  sched_ok handler g evs = true -> Inv handler g (run_state handler g evs).
Proof. exact inv_reachable. Qed.
Print Assumptions c01_invariant.

(* the monitor mon_C01 accepts exactly the triples the theorems above describe: a completed
   exchange (request sent, its wire form handled, the handler's answer received) ... *)
Theorem c01_monitor_completed : forall handler ua p q w,
  e2e_req_ok q = true -> wire_request ua p q = Some w ->
  mon_triple handler (mkTriple q false false (Some (w, true)) (IOk (handler (q_origin q) w))) = true.
Proof. exact monitor_accepts_completed. Qed.
Print Assumptions c01_monitor_completed.

(* ... and a cancelled one, whether or not the server had been given (part of) it *)
Theorem c01_monitor_cancelled : forall handler ua p q w complete,
  e2e_req_ok q = true -> wire_request ua p q = Some w ->
  mon_triple handler (mkTriple q true false None ICancelled) = true
  /\ mon_triple handler (mkTriple q true false (Some (w, complete)) ICancelled) = true.
Proof. exact monitor_accepts_cancelled. Qed.
Print Assumptions c01_monitor_cancelled.

(* non-vacuity: an admissible schedule reusing one pooled HTTP/1 connection for two requests; both
   complete, each with the echo of its own wire request (Host and User-Agent inserted) *)
Example c01_example :
  sched_ok echo_handler xg x_good = true
  /\ run echo_handler xg x_good
     = [(1%N, ODone (mkResp 226 [("x-id", "/r/1"); ("x-srv", "0")]
                       (mkWreq "GET" V11 "/r/1" None [("host", "o0.test"); ("user-agent", "ua"); ("x-id", "/r/1")] [])));
        (2%N, ODone (mkResp 400 [("x-id", "/r/2"); ("x-srv", "0")]
                       (mkWreq "GET" V11 "/r/2" None [("host", "o0.test"); ("user-agent", "ua"); ("x-id", "/r/2")] [])))].
Proof. vm_compute. auto. Qed.

(* non-vacuity of the monitor: it rejects a swapped response, a truncated body, a foreign server,
   an HTTP/1.0 request line and a spurious failure *)
Example c01_monitor_rejects :
  let q := xq 1 "/r/1" in
  let w := mkWreq "GET" V11 "/r/1" None [("host", "o0.test"); ("user-agent", "ua"); ("x-id", "/r/1")] [] in
  let w2 := mkWreq "GET" V11 "/r/2" None [("host", "o0.test"); ("user-agent", "ua"); ("x-id", "/r/2")] [] in
  mon_triple echo_handler (mkTriple q false false (Some (w, true)) (IOk (echo_handler 0 w))) = true
  /\ mon_triple echo_handler (mkTriple q false false (Some (w, true)) (IOk (echo_handler 0 w2))) = false
  /\ mon_triple echo_handler (mkTriple q false false (Some (w, true)) (IOk (echo_handler 1 w))) = false
  /\ mon_triple echo_handler (mkTriple q false false (Some (mkWreq "GET" V11 "/r/1" None (w_headers w) [7%N], true))
                                       (IOk (echo_handler 0 w))) = false
  /\ mon_triple echo_handler (mkTriple q false false (Some (mkWreq "GET" V10 "/r/1" None (w_headers w) [], true))
                                       (IOk (echo_handler 0 (mkWreq "GET" V10 "/r/1" None (w_headers w) [])))) = false
  /\ mon_triple echo_handler (mkTriple q false false None IErr) = false
  /\ mon_triple echo_handler (mkTriple q false false (Some (w, true)) IHang) = false.
Proof. vm_compute. repeat split. Qed.

(* ------------------------------------------------------------------------------------------------
   THE POOL HYPOTHESES DISCHARGED (e2e/Link.v, pool-model groundwork in e2e/LinkFrames.v).
   [sched_ok] -- the hypothesis of c01_matched, c01_server_saw, c01_completes..., c01_invariant --
   holds for the e2e schedule induced by EVERY combined history of the pool model M-POOL
   (pool/Model.v): any pool configuration [pc] (its URI table names the origins), any list of
   steps, each a pool operation (issue / poll / cancel / finish / upgrade / dial outcome /
   connection ready / connection closed / background run / tick) or a wire step (the server handles
   a request on a connection, a response is delivered on a connection), of any length.
   Static data: [ua], and [payload r] = the HTTP request record and body that pool request r carries.
   [link_cfg]: pool request r = e2e request r (origin = index in the URI table of the key of its
   Issue); pool connection c = e2e connection c, PH2 iff its observed [ENew c share r0] had
   share = true, origin = that of the request r0 whose dial created it.
   [sched_of]: EHand r c |-> EStart r c; for a non-shared c, ERdy c true |-> ERelease c; Cancel r of
   a live request |-> ECancel r; ConnClose c / Upgrade by a holder of c |-> EBreak c; wire steps in place.
   The ONLY hypothesis left is the decidable ORACLE condition [o1_ok] on the ENVIRONMENT (hyper):
     O1  the environment operation [ConnReady c] for a non-multiplexed connection c occurs only when,
         in the e2e state reached so far, c's exchange queue is empty (a non-multiplexed connection
         reports ready only after its exchange is over).
   Proved from the pool theorems: mon_C06_holds (pool/ProofsC06.v) and the step form [step_ok] of
   mon_C02_holds with its invariant [I] (pool/ProofsC02.v), plus the flag summary [step_sum] of the
   pool model (e2e/LinkFrames.v). *)
From HD Require pool.Model e2e.Link.
Module PM := HD.pool.Model.
Module L := HD.e2e.Link.

Theorem c01_pool_discharges_hypotheses :
  forall (pc : PM.config) (ua : string) (payload : nat -> req * body) (handler : N -> wreq -> resp)
         (h : list L.hstep),
    L.o1_ok pc ua payload handler h = true ->
    sched_ok handler (L.link_cfg pc ua payload h) (L.sched_of pc h) = true.
Proof. exact L.pool_discharges_sched_ok. Qed.
Print Assumptions c01_pool_discharges_hypotheses.

(* c01_matched with its hypothesis discharged: for every combined history of the pool model that
   satisfies the oracle condition alone, every response a caller receives is the handler's answer to
   the wire form of that caller's own request, computed at the server its own URI names *)
Theorem c01_matched_for_pool_histories :
  forall (pc : PM.config) (ua : string) (payload : nat -> req * body) (handler : N -> wreq -> resp)
         (h : list L.hstep) r p,
    L.o1_ok pc ua payload handler h = true ->
    In (r, ODone p) (run handler (L.link_cfg pc ua payload h) (L.sched_of pc h)) ->
    let g := L.link_cfg pc ua payload h in
    exists q c w, req_of g r = Some q /\ wire_request (g_ua g) (proto_of g c) q = Some w
                  /\ origin_of g c = q_origin q /\ p = handler (q_origin q) w.
Proof. exact L.c01_matched_for_pool_histories. Qed.
Print Assumptions c01_matched_for_pool_histories.

(* likewise c01_server_saw: whatever a server handler is given along such a history is the wire form
   of a request a caller sent to that server *)
Theorem c01_server_saw_for_pool_histories :
  forall (pc : PM.config) (ua : string) (payload : nat -> req * body) (handler : N -> wreq -> resp)
         (h : list L.hstep) c r w,
    L.o1_ok pc ua payload handler h = true ->
    let g := L.link_cfg pc ua payload h in
    In (c, r, w) (st_log (run_state handler g (L.sched_of pc h))) ->
    exists q, req_of g r = Some q /\ wire_request (g_ua g) (proto_of g c) q = Some w
              /\ origin_of g c = q_origin q.
Proof. exact L.c01_server_saw_for_pool_histories. Qed.
Print Assumptions c01_server_saw_for_pool_histories.

(* non-vacuity: one origin, one HTTP/1 connection, two requests.  Request 0 dials connection 0, is
   handed it (EStart 0 0), the server handles it and the response is delivered; the request finishes
   and releases its handle; the connection reports ready (O1 holds: its queue is empty) and the
   background hand-back task returns it to the pool (ERelease 0).  Request 1 pops it from the idle
   list and is handed it (EStart 1 0), and so on.  The oracle condition holds, the induced schedule is
   the one below, and both requests end ODone with the echo of their OWN wire request. *)
Definition lx_pool : PM.config := PM.mkCfg true None 1 false [Some ("http", "o0.test")].
Definition lx_payload (r : nat) : req * body :=
  let path := if Nat.eqb r 0 then "/r/1" else "/r/2" in
  (mkReq "GET" V11 (mkUri (Some "http") (Some "o0.test") (Some "o0.test") None (Some path) path None) [("x-id", path)], []).
Definition lx_hist : list L.hstep :=
  [L.HOp (PM.Issue 0 PM.H1); L.HOp (PM.Poll 0); L.HOp (PM.DialDone 0 (PM.DOk false)); L.HOp (PM.Poll 0);
   L.HWire (L.WHandle 0 0); L.HWire (L.WDeliver 0 0);
   L.HOp (PM.Finish 0); L.HOp (PM.Poll 0); L.HOp (PM.ConnReady 0); L.HOp PM.Bg;
   L.HOp (PM.Issue 0 PM.H1); L.HOp (PM.Poll 1);
   L.HWire (L.WHandle 0 1); L.HWire (L.WDeliver 0 1);
   L.HOp (PM.Finish 1); L.HOp (PM.Poll 1); L.HOp (PM.ConnReady 0); L.HOp PM.Bg]%N.

Example c01_pool_history_example :
  L.o1_ok lx_pool "ua" lx_payload echo_handler lx_hist = true
  /\ L.sched_of lx_pool lx_hist
     = [EStart 0 0; EHandle 0 0; EDeliver 0 0; ERelease 0; EStart 1 0; EHandle 0 1; EDeliver 0 1; ERelease 0]%N
  /\ g_conns (L.link_cfg lx_pool "ua" lx_payload lx_hist) = [(0%N, (PH1, 0%N))]
  /\ run echo_handler (L.link_cfg lx_pool "ua" lx_payload lx_hist) (L.sched_of lx_pool lx_hist)
     = [(0%N, ODone (mkResp 226 [("x-id", "/r/1"); ("x-srv", "0")]
                       (mkWreq "GET" V11 "/r/1" None [("host", "o0.test"); ("user-agent", "ua"); ("x-id", "/r/1")] [])));
        (1%N, ODone (mkResp 400 [("x-id", "/r/2"); ("x-srv", "0")]
                       (mkWreq "GET" V11 "/r/2" None [("host", "o0.test"); ("user-agent", "ua"); ("x-id", "/r/2")] [])))].
Proof. vm_compute. auto. Qed.

(* the oracle condition is what carries the link: if the environment lets connection 0 report ready
   while request 0's exchange is still in flight (ConnReady before the response is delivered), O1
   fails, the pool hands the connection on, and the induced schedule is the cross-talk schedule
   x_ready of c01_crosstalk_without_pool_guarantees (sched_ok false) *)
Example c01_pool_history_needs_oracle :
  let h := [L.HOp (PM.Issue 0 PM.H1); L.HOp (PM.Poll 0); L.HOp (PM.DialDone 0 (PM.DOk false)); L.HOp (PM.Poll 0);
            L.HWire (L.WHandle 0 0); L.HOp (PM.Finish 0); L.HOp (PM.Poll 0); L.HOp (PM.ConnReady 0); L.HOp PM.Bg;
            L.HOp (PM.Issue 0 PM.H1); L.HOp (PM.Poll 1); L.HWire (L.WDeliver 0 0)]%N in
  L.o1_ok lx_pool "ua" lx_payload echo_handler h = false
  /\ L.sched_of lx_pool h = [EStart 0 0; EHandle 0 0; ERelease 0; EStart 1 0; EDeliver 0 0]%N
  /\ sched_ok echo_handler (L.link_cfg lx_pool "ua" lx_payload h) (L.sched_of lx_pool h) = false.
Proof. vm_compute. auto. Qed.
