(* C01 — Requests and responses arrive intact and correctly matched end to end.
   Statements only; proofs in e2e/Proofs.v.  Quantification: EVERY handler function, EVERY
   configuration (request table, connections with protocol and server), EVERY schedule of any
   length over the alphabet start / server handles / response delivered / cancel / release to the
   pool / peer breaks (induction with the invariant [Inv]).  The pool's guarantees are the
   decidable hypothesis [sched_ok] (C02 exclusivity + ready-before-reuse, C06 same origin).
   Not covered by proof, only exercised by the correspondence run: hyper/h2 framing (that a real
   connection IS the abstract FIFO / stream-matched connection: R2) and real scheduling (R1). *)
From HD Require Import common.Base http.Model http.Spec e2e.Model e2e.Spec e2e.Proofs.
Local Open Scope string_scope.

(* every response a caller receives is the handler's answer -- status, headers, body -- to the
   wire form of that caller's own request, computed at the server its own URI names *)
Theorem c01_matched : forall handler g evs r p,
  sched_ok handler g evs = true ->
  In (r, ODone p) (run handler g evs) ->
  exists q c w, req_of g r = Some q /\ wire_request (g_ua g) (proto_of g c) q = Some w
                /\ origin_of g c = q_origin q /\ p = handler (q_origin q) w.
Proof. exact matched. Qed.
Print Assumptions c01_matched.

(* every request a server handler is given is the wire form of a request a caller sent to that
   server: nothing is handled that nobody sent, and nothing reaches a foreign origin *)
Theorem c01_server_saw : forall handler g evs c r w,
  sched_ok handler g evs = true ->
  In (c, r, w) (st_log (run_state handler g evs)) ->
  exists q, req_of g r = Some q /\ wire_request (g_ua g) (proto_of g c) q = Some w
            /\ origin_of g c = q_origin q.
Proof. exact server_saw. Qed.
Print Assumptions c01_server_saw.

(* the hypothesis is what carries the result: without exclusivity, and without ready-before-reuse,
   the model delivers request 1's response to the caller of request 2 *)
Theorem c01_crosstalk_without_pool_guarantees :
  exists w1 w2,
    wire_request "ua" PH1 (xq 1 "/r/1") = Some w1 /\ wire_request "ua" PH1 (xq 2 "/r/2") = Some w2
    /\ echo_handler 0 w1 <> echo_handler 0 w2
    /\ sched_ok echo_handler xg x_excl = false
    /\ In (2%N, ODone (echo_handler 0 w1)) (run echo_handler xg x_excl)
    /\ sched_ok echo_handler xg x_ready = false
    /\ In (2%N, ODone (echo_handler 0 w1)) (run echo_handler xg x_ready).
Proof. exact crosstalk_witness. Qed.
Print Assumptions c01_crosstalk_without_pool_guarantees.

(* the wire form carries the caller's method, path, query, body and headers; the only differences
   are the documented ones: version := the connection's; Host / User-Agent inserted when the
   caller gave none (the caller's own values win: clause inside head_ok); on HTTP/2 Host and the
   connection-specific headers dropped.  [head_ok] is the clause of the monitor mon_C01. *)
Theorem c01_request_preserved : forall ua p q w,
  e2e_req_ok q = true -> wire_request ua p q = Some w ->
  head_ok q w = true /\ w_body w = q_body q /\ w_version w = wire_version p
  /\ w_method w = r_method (q_req q) /\ w_path w = u_path (r_uri (q_req q))
  /\ w_query w = u_query (r_uri (q_req q))
  /\ without (ign p) (w_headers w) = without (ign p) (r_headers (q_req q)).
Proof. exact request_preserved. Qed.
Print Assumptions c01_request_preserved.

(* such requests are never rejected by the client's own checks *)
Theorem c01_never_rejected : forall ua p q, e2e_req_ok q = true -> exists w, wire_request ua p q = Some w.
Proof. exact wire_request_some. Qed.
Print Assumptions c01_never_rejected.

(* completion, progress half: from every state an admissible schedule can reach, a request that is
   still running (not cancelled) on a connection the peer has not broken completes with exactly
   the right response after two further steps of ITS OWN connection (the server handles it, the
   transport delivers) -- no cooperation of any other request is needed, whatever was cancelled.
   Eventual completion = this + fair scheduling of those two steps (R1, exercised). *)
Theorem c01_completes : forall handler g evs r c s,
  sched_ok handler g evs = true ->
  st_stat (run_state handler g evs) r = SRunning c s ->
  c_dead (st_conn (run_state handler g evs) c) = false ->
  let evs' := (evs ++ [EHandle c s; EDeliver c s])%list in
  sched_ok handler g evs' = true /\
  exists q w, req_of g r = Some q /\ wire_request (g_ua g) (proto_of g c) q = Some w
              /\ origin_of g c = q_origin q
              /\ outcome_of (run_state handler g evs') r = ODone (handler (q_origin q) w).
Proof. exact completes. Qed.
Print Assumptions c01_completes.

(* completion, as a statement about whole runs: let the environment finish its work after ANY
   admissible schedule ([drain_events]: for every request still running, its server handles it and
   its transport delivers the response; no caller does anything).  Then every request that was
   started, not cancelled and whose connection the peer did not break has its response, and it is
   the handler's answer to its own wire request at its own origin. *)
Theorem c01_completes_after_drain : forall handler g evs,
  sched_ok handler g evs = true ->
  let st := run_state handler g evs in
  let st' := run_from handler g st (drain_events g st) in
  Inv handler g st' /\
  forall q c s, In q (g_reqs g) -> st_stat st (q_id q) = SRunning c s -> c_dead (st_conn st c) = false ->
    exists c' p, st_stat st' (q_id q) = SDone c' p /\
      exists q' w, req_of g (q_id q) = Some q' /\ wire_request (g_ua g) (proto_of g c') q' = Some w
                   /\ origin_of g c' = q_origin q' /\ p = handler (q_origin q') w.
Proof. exact drain_completes. Qed.
Print Assumptions c01_completes_after_drain.

(* completion, safety half: no step of anybody takes a running request out of the running state
   except: its response arrives, the caller cancels THIS request, or the peer breaks ITS
   connection.  In particular cancelling other requests never fails it. *)
Theorem c01_no_spurious_failure : forall handler g st e r c s,
  Inv handler g st -> pool_ok g st e = true ->
  st_stat st r = SRunning c s -> c_dead (st_conn st c) = false ->
  (st_stat (step handler g st e) r = SRunning c s
   /\ (c_dead (st_conn (step handler g st e) c) = false \/ e = EBreak c))
  \/ (exists c' p, st_stat (step handler g st e) r = SDone c' p)
  \/ (e = ECancel r /\ st_stat (step handler g st e) r = SCancelled).
Proof. exact running_stable. Qed.
Print Assumptions c01_no_spurious_failure.

(* [Inv] holds in every state an admissible schedule reaches (so the theorem above applies there) *)
Theorem c01_invariant : forall handler g evs,
  sched_ok handler g evs = true -> Inv handler g (run_state handler g evs).
Proof. exact inv_reachable. Qed.
Print Assumptions c01_invariant.

(* the monitor mon_C01 accepts exactly the triples the theorems above describe: a completed
   exchange (request sent, its wire form handled, the handler's answer received) ... *)
Theorem c01_monitor_completed : forall handler ua p q w,
  e2e_req_ok q = true -> wire_request ua p q = Some w ->
  mon_triple handler (mkTriple q false false (Some (w, true)) (IOk (handler (q_origin q) w))) = true.
Proof. exact monitor_accepts_completed. Qed.
Print Assumptions c01_monitor_completed.

(* ... and a cancelled one, whether or not the server had been given (part of) it *)
Theorem c01_monitor_cancelled : forall handler ua p q w complete,
  e2e_req_ok q = true -> wire_request ua p q = Some w ->
  mon_triple handler (mkTriple q true false None ICancelled) = true
  /\ mon_triple handler (mkTriple q true false (Some (w, complete)) ICancelled) = true.
Proof. exact monitor_accepts_cancelled. Qed.
Print Assumptions c01_monitor_cancelled.

(* non-vacuity: an admissible schedule reusing one pooled HTTP/1 connection for two requests; both
   complete, each with the echo of its own wire request (Host and User-Agent inserted) *)
Example c01_example :
  sched_ok echo_handler xg x_good = true
  /\ run echo_handler xg x_good
     = [(1%N, ODone (mkResp 226 [("x-id", "/r/1"); ("x-srv", "0")]
                       (mkWreq "GET" V11 "/r/1" None [("host", "o0.test"); ("user-agent", "ua"); ("x-id", "/r/1")] [])));
        (2%N, ODone (mkResp 400 [("x-id", "/r/2"); ("x-srv", "0")]
                       (mkWreq "GET" V11 "/r/2" None [("host", "o0.test"); ("user-agent", "ua"); ("x-id", "/r/2")] [])))].
Proof. vm_compute. auto. Qed.

(* non-vacuity of the monitor: it rejects a swapped response, a truncated body, a foreign server,
   an HTTP/1.0 request line and a spurious failure *)
Example c01_monitor_rejects :
  let q := xq 1 "/r/1" in
  let w := mkWreq "GET" V11 "/r/1" None [("host", "o0.test"); ("user-agent", "ua"); ("x-id", "/r/1")] [] in
  let w2 := mkWreq "GET" V11 "/r/2" None [("host", "o0.test"); ("user-agent", "ua"); ("x-id", "/r/2")] [] in
  mon_triple echo_handler (mkTriple q false false (Some (w, true)) (IOk (echo_handler 0 w))) = true
  /\ mon_triple echo_handler (mkTriple q false false (Some (w, true)) (IOk (echo_handler 0 w2))) = false
  /\ mon_triple echo_handler (mkTriple q false false (Some (w, true)) (IOk (echo_handler 1 w))) = false
  /\ mon_triple echo_handler (mkTriple q false false (Some (mkWreq "GET" V11 "/r/1" None (w_headers w) [7%N], true))
                                       (IOk (echo_handler 0 w))) = false
  /\ mon_triple echo_handler (mkTriple q false false (Some (mkWreq "GET" V10 "/r/1" None (w_headers w) [], true))
                                       (IOk (echo_handler 0 (mkWreq "GET" V10 "/r/1" None (w_headers w) [])))) = false
  /\ mon_triple echo_handler (mkTriple q false false None IErr) = false
  /\ mon_triple echo_handler (mkTriple q false false (Some (w, true)) IHang) = false.
Proof. vm_compute. repeat split. Qed.
