From HD Require Import common.Base io.Model io.Spec.

(* ---------- generic list facts ---------- *)
Lemma list_eqb_N_spec (a b : list N) : list_eqb N.eqb a b = true <-> a = b.
Proof.
  revert b. induction a as [|x a IH]; destruct b as [|y b]; cbn [list_eqb]; split; intros H;
    try reflexivity; try discriminate.
  - apply andb_true_iff in H. destruct H as [H1 H2]. apply N.eqb_eq in H1. apply IH in H2. congruence.
  - injection H as -> ->. rewrite N.eqb_refl. apply IH. reflexivity.
Qed.

Lemma is_prefix_spec (p l : list N) : is_prefix p l = true <-> exists r, l = p ++ r.
Proof.
  revert l. induction p as [|x p IH]; intros l; cbn [is_prefix].
  - split; [intros _; exists l; reflexivity|reflexivity].
  - destruct l as [|y l]; [split; [discriminate|intros [r E]; discriminate]|].
    rewrite andb_true_iff, N.eqb_eq, IH. split.
    + intros [-> [r ->]]. exists r. reflexivity.
    + intros [r E]. injection E as -> ->. split; [reflexivity|exists r; reflexivity].
Qed.

Lemma firstn_add {A} (a b : nat) (l : list A) : firstn a l ++ firstn b (skipn a l) = firstn (a + b) l.
Proof.
  revert l. induction a as [|a IH]; intros l; [reflexivity|].
  destruct l as [|x l]; cbn [firstn skipn Nat.add app]; [rewrite firstn_nil; reflexivity|].
  rewrite IH. reflexivity.
Qed.

(* ---------- reads: nothing lost, duplicated, reordered or invented ---------- *)
Definition unread (a : ast) : list N :=
  match a_prefix a with Some p => p | None => [] end ++ i_stream (a_inner a).

Lemma inner_read_stream free i :
  let '(r, i') := inner_read free i in
  match r with
  | RRData bs => bs ++ i_stream i' = i_stream i /\ (length bs <= free)%nat
  | _ => i_stream i' = i_stream i
  end
  /\ i_wscript i' = i_wscript i /\ i_written i' = i_written i.
Proof.
  unfold inner_read. destruct (i_rscript i) as [|[| |k] s]; cbn [i_stream i_wscript i_written].
  - split; [|auto]. split; [apply firstn_skipn|]. rewrite firstn_length. lia.
  - auto.
  - auto.
  - split; [|auto]. split; [apply firstn_skipn|]. rewrite firstn_length. lia.
Qed.

Lemma adapter_read_spec free a :
  let '(r, a') := adapter_read free a in
  match r with
  | RRData bs => bs ++ unread a' = unread a /\ (length bs <= free)%nat
  | _ => unread a' = unread a
  end
  /\ i_wscript (a_inner a') = i_wscript (a_inner a) /\ i_written (a_inner a') = i_written (a_inner a).
Proof.
  unfold adapter_read, unread.
  destruct (a_prefix a) as [[|b p]|] eqn:Hp.
  - pose proof (inner_read_stream free (a_inner a)) as H.
    destruct (inner_read free (a_inner a)) as [r i']. cbn [a_prefix a_inner app].
    destruct H as [H1 H2]. split; [|exact H2]. destruct r; auto.
  - cbn [a_prefix a_inner]. split; [|auto]. split.
    + set (pre := b :: p). set (n := Nat.min (length pre) free).
      assert (E : firstn n pre ++ skipn n pre = pre) by apply firstn_skipn.
      destruct (skipn n pre) as [|y rest] eqn:Hs; cbv iota beta.
      * rewrite app_nil_l. rewrite app_nil_r in E. rewrite E. reflexivity.
      * rewrite app_assoc, E. reflexivity.
    + rewrite firstn_length. lia.
  - pose proof (inner_read_stream free (a_inner a)) as H.
    destruct (inner_read free (a_inner a)) as [r i']. cbn [a_prefix a_inner app].
    destruct H as [H1 H2]. split; [|exact H2]. destruct r; auto.
Qed.

(* TokioIo bookkeeping: the filled part grows by exactly what was delivered, stays within the
   capacity, and is covered by the initialised part *)
Lemma buffered_read_spec b a :
  (length (b_filled b) <= b_cap b)%nat -> (length (b_filled b) <= b_init b)%nat ->
  let '(r, b', a') := buffered_read b a in
  b_cap b' = b_cap b
  /\ (length (b_filled b') <= b_cap b')%nat /\ (length (b_filled b') <= b_init b')%nat
  /\ match r with
     | RRData bs => b_filled b' = b_filled b ++ bs /\ bs ++ unread a' = unread a
     | _ => b' = b /\ unread a' = unread a
     end.
Proof.
  intros Hc Hi. unfold buffered_read.
  pose proof (adapter_read_spec (b_cap b - length (b_filled b)) a) as H.
  destruct (adapter_read (b_cap b - length (b_filled b)) a) as [r a'].
  destruct H as [H _]. destruct r as [| |bs].
  - auto.
  - auto.
  - destruct H as [H1 H2]. unfold buf_after. cbn [b_cap b_filled b_init]. rewrite app_length.
    repeat split; auto; lia.
Qed.

Lemma skipn_repeat_app {A} (x : A) n l : skipn n (repeat x n ++ l) = l.
Proof. induction n; cbn; auto. Qed.

Lemma inner_write_spec bs i :
  let '(r, i') := inner_write bs i in
  i_stream i' = i_stream i
  /\ match r with
     | WROk n => i_written i' = i_written i ++ firstn n bs /\ (n <= length bs)%nat
     | _ => i_written i' = i_written i
     end.
Proof.
  unfold inner_write. destruct (i_wscript i) as [|[| |k] s]; cbn [i_stream i_written]; split; auto.
  - rewrite firstn_all. auto.
  - split; [reflexivity|lia].
Qed.

Lemma inner_flush_spec i :
  let '(r, i') := inner_flush i in i_stream i' = i_stream i /\ i_written i' = i_written i.
Proof. unfold inner_flush. destruct (i_wscript i) as [|[| |k] s]; cbn; auto. Qed.

Lemma first_nonempty_concat bufs : exists rest, concat bufs = first_nonempty bufs ++ rest.
Proof.
  induction bufs as [|b t IH]; cbn [concat first_nonempty]; [exists []; reflexivity|].
  destruct b as [|x b]; [exact IH|]. exists (concat t). reflexivity.
Qed.

Lemma firstn_app_le {A} n (l1 l2 : list A) : (n <= length l1)%nat -> firstn n (l1 ++ l2) = firstn n l1.
Proof. intros H. rewrite firstn_app. replace (n - length l1)%nat with 0%nat by lia. cbn. apply app_nil_r. Qed.

Definition written_of (a : ast) : list N := i_written (a_inner a).

Definition step_ok (o : op) (r : ores) : bool := kinds_ok [o] [r].

Lemma step_spec fwd a o :
  let '(r, a') := step fwd a o in
  data_of r ++ unread a' = unread a
  /\ written_of a' = written_of a ++ accepted [o] [r]
  /\ step_ok o r = true.
Proof.
  unfold step_ok, written_of. destruct o as [cap pre|bufs| |]; cbn [step].
  - unfold buffered_read. cbn [b_cap b_filled]. rewrite repeat_length.
    pose proof (adapter_read_spec (cap - pre) a) as H.
    destruct (adapter_read (cap - pre) a) as [r a']. destruct H as [H [_ Hw]].
    destruct r as [| |bs]; cbn [data_of accepted app kinds_ok]; rewrite ?app_nil_r; auto.
    destruct H as [H1 H2]. unfold buf_after. cbn [b_filled]. rewrite skipn_repeat_app.
    cbn [data_of]. repeat split; auto. rewrite andb_true_r. apply Nat.leb_le. exact H2.
  - unfold adapter_write, unread.
    set (offered := if fwd then concat bufs else first_nonempty bufs).
    pose proof (inner_write_spec offered (a_inner a)) as H.
    destruct (inner_write offered (a_inner a)) as [r i']. destruct H as [Hs Hw].
    cbn [a_prefix a_inner]. rewrite Hs.
    destruct r as [| |n]; cbn [data_of accepted app kinds_ok]; rewrite ?app_nil_r; auto.
    destruct Hw as [Hw Hn]. rewrite Hw.
    assert (E : firstn n offered = firstn n (concat bufs) /\ (n <= length (concat bufs))%nat).
    { unfold offered in *. destruct fwd; [auto|].
      destruct (first_nonempty_concat bufs) as [rest ->].
      rewrite firstn_app_le by exact Hn. split; [reflexivity|]. rewrite app_length. lia. }
    destruct E as [-> Hle]. repeat split; auto. rewrite andb_true_r. apply Nat.leb_le. exact Hle.
  - unfold adapter_flush, unread. pose proof (inner_flush_spec (a_inner a)) as H.
    destruct (inner_flush (a_inner a)) as [r i']. destruct H as [Hs Hw].
    cbn [a_prefix a_inner]. rewrite Hs, Hw.
    destruct r; cbn [data_of accepted app kinds_ok]; rewrite ?app_nil_r; auto.
  - unfold adapter_flush, unread. pose proof (inner_flush_spec (a_inner a)) as H.
    destruct (inner_flush (a_inner a)) as [r i']. destruct H as [Hs Hw].
    cbn [a_prefix a_inner]. rewrite Hs, Hw.
    destruct r; cbn [data_of accepted app kinds_ok]; rewrite ?app_nil_r; auto.
Qed.

Lemma accepted_cons o r ops rs : accepted (o :: ops) (r :: rs) = accepted [o] [r] ++ accepted ops rs.
Proof.
  destruct o, r; cbn [accepted app]; rewrite ?app_nil_r; try reflexivity.
Qed.

Lemma kinds_ok_cons o r ops rs : kinds_ok (o :: ops) (r :: rs) = kinds_ok [o] [r] && kinds_ok ops rs.
Proof. destruct o, r; cbn [kinds_ok]; rewrite ?andb_true_r; reflexivity. Qed.

(* every run of every adapter stack, for every op sequence and every inner behaviour *)
Theorem run_spec fwd : forall ops a,
  let '(rs, a') := run fwd a ops in
  concat (map data_of rs) ++ unread a' = unread a
  /\ written_of a' = written_of a ++ accepted ops rs
  /\ kinds_ok ops rs = true
  /\ length rs = length ops.
Proof.
  induction ops as [|o ops IH]; intros a; cbn [run].
  - cbn. rewrite app_nil_r. auto.
  - pose proof (step_spec fwd a o) as Hs. destruct (step fwd a o) as [r a1].
    specialize (IH a1). destruct (run fwd a1 ops) as [rs a2].
    destruct Hs as (S1 & S2 & S3). destruct IH as (I1 & I2 & I3 & I4).
    cbn [map concat length]. rewrite accepted_cons, kinds_ok_cons. unfold step_ok in S3.
    repeat split.
    + rewrite <- app_assoc, I1. exact S1.
    + rewrite I2, S2, app_assoc. reflexivity.
    + rewrite S3, I3. reflexivity.
    + congruence.
Qed.

Theorem run_mon_C18 fwd prefix i ops :
  i_written i = [] ->
  let '(rs, a') := run fwd (mkAst prefix i) ops in
  mon_C18 (match prefix with Some p => p | None => [] end) (i_stream i) ops rs (written_of a') = true.
Proof.
  intros Hw. pose proof (run_spec fwd ops (mkAst prefix i)) as H.
  destruct (run fwd (mkAst prefix i) ops) as [rs a']. destruct H as (H1 & H2 & H3 & _).
  unfold mon_C18. rewrite H3. cbn [andb]. apply andb_true_iff. split.
  - apply is_prefix_spec. exists (unread a'). symmetry. exact H1.
  - apply list_eqb_N_spec. rewrite H2. unfold written_of. cbn [a_inner]. rewrite Hw. reflexivity.
Qed.

(* end of stream and the absence of invention: once nothing is left to read, reads deliver nothing *)
Corollary run_eof fwd ops a :
  unread a = [] -> let '(rs, _) := run fwd a ops in concat (map data_of rs) = [].
Proof.
  intros He. pose proof (run_spec fwd ops a) as H. destruct (run fwd a ops) as [rs a'].
  destruct H as (H1 & _). rewrite He in H1. apply app_eq_nil in H1. tauto.
Qed.

(* Pending and errors of the inner stream are propagated as such and consume nothing *)
Lemma read_propagates fwd a cap pre :
  (match a_prefix a with Some (_ :: _) => False | _ => True end) ->
  match i_rscript (a_inner a) with
  | RPending :: _ => fst (step fwd a (ORead cap pre)) = XPending
  | RErr :: _ => fst (step fwd a (ORead cap pre)) = XErr
  | _ => True
  end.
Proof.
  intros Hp. cbn [step]. unfold buffered_read, adapter_read.
  destruct (a_prefix a) as [[|b p]|]; try contradiction;
    unfold inner_read; destruct (i_rscript (a_inner a)) as [|[| |k] s]; cbn; auto.
Qed.

(* ---------- protocol sniffing ---------- *)
Definition chunk_pos (r : rd) : Prop := match r with RChunk O => False | _ => True end.

Lemma preface_length : length preface = 24%nat.
Proof. reflexivity. Qed.

Record SniffPost (S : list N) (i0 : inner) (v : ver) (p : list N) (i' : inner) : Prop := {
  sp_bytes : p ++ i_stream i' = S;
  sp_ver : v = H2 <-> is_prefix preface S = true;
  sp_h2 : v = H2 -> p = preface;
  sp_len : (length p <= 24)%nat;
  sp_w : i_written i' = i_written i0 /\ i_wscript i' = i_wscript i0
}.

Lemma has_err_cons r s : has_err (r :: s) = match r with RErr => true | _ => has_err s end.
Proof. destruct r; reflexivity. Qed.

Lemma sniff_loop_spec (S : list N) (i0 : inner) : forall fuel buf i pend,
  Forall chunk_pos (i_rscript i) ->
  buf ++ i_stream i = S -> buf = firstn (length buf) preface -> (length buf <= 24)%nat ->
  i_written i = i_written i0 -> i_wscript i = i_wscript i0 ->
  (length (i_rscript i) + (24 - length buf) < fuel)%nat ->
  match sniff_loop fuel buf i pend with
  | SDone v p i' _ => SniffPost S i0 v p i'
  | SErr _ => has_err (i_rscript i) = true
  | SFuel => False
  end.
Proof.
  induction fuel as [|fuel IH]; intros buf i pend Hpos Hs Hb Hl Hw Hws Hf; [lia|].
  cbn [sniff_loop]. destruct (Nat.leb_spec 24 (length buf)) as [H24|H24].
  - assert (length buf = 24%nat) by lia.
    assert (buf = preface) by (rewrite Hb, H; reflexivity). subst buf.
    constructor; auto.
    + split; [intros _|reflexivity]. apply is_prefix_spec. exists (i_stream i). auto.
  - unfold inner_read.
    destruct (i_rscript i) as [|r s] eqn:Hscr.
    + (* script exhausted: the inner delivers whatever fits *)
      set (free := (24 - length buf)%nat). set (bs := firstn free (i_stream i)).
      set (i' := mkInner (skipn free (i_stream i)) [] (i_wscript i) (i_written i)).
      assert (Hbs : bs ++ i_stream i' = i_stream i) by apply firstn_skipn.
      assert (Hlen : (length bs <= free)%nat) by (unfold bs; rewrite firstn_length; lia).
      destruct (Nat.eqb_spec (length bs) 0) as [Hz|Hnz]; cbn [orb].
      * (* end of stream before the preface is complete *)
        assert (i_stream i = []).
        { unfold bs in Hz. rewrite firstn_length in Hz. destruct (i_stream i); [reflexivity|]. cbn [length] in Hz. lia. }
        constructor; cbn [i_stream i_written i_wscript i']; auto.
        -- rewrite <- app_assoc. fold bs in Hbs. cbn [i_stream i'] in Hbs. rewrite Hbs. exact Hs.
        -- split; [discriminate|]. intros Hp. apply is_prefix_spec in Hp. destruct Hp as [r E].
           rewrite <- Hs, H, app_nil_r in E. apply (f_equal (@length N)) in E.
           rewrite app_length, preface_length in E. lia.
        -- discriminate.
        -- rewrite app_length. lia.
      * destruct (list_eqb N.eqb bs (firstn (length bs) (skipn (length buf) preface))) eqn:Heq; cbn [negb].
        -- apply list_eqb_N_spec in Heq.
           apply IH; cbn [i_rscript i_stream i_written i_wscript i']; auto.
           ++ rewrite <- app_assoc. cbn [i_stream i'] in Hbs. fold bs. rewrite Hbs. exact Hs.
           ++ rewrite app_length, <- firstn_add, <- Hb, <- Heq. reflexivity.
           ++ rewrite app_length. lia.
           ++ rewrite app_length. cbn [length]. lia.
        -- constructor; cbn [i_stream i_written i_wscript i']; auto.
           ++ rewrite <- app_assoc. cbn [i_stream i'] in Hbs. fold bs. rewrite Hbs. exact Hs.
           ++ split; [discriminate|]. intros Hp. exfalso. apply is_prefix_spec in Hp. destruct Hp as [r E].
              assert (Hne : bs <> firstn (length bs) (skipn (length buf) preface)).
              { intros C. apply list_eqb_N_spec in C. congruence. }
              apply Hne.
              assert (E2 : firstn (length buf + length bs) S = buf ++ bs).
              { rewrite <- Hs, <- Hbs, app_assoc, firstn_app_le by (rewrite app_length; lia).
                rewrite <- app_length. apply firstn_all. }
              rewrite E in E2. rewrite firstn_app_le in E2 by (rewrite preface_length; lia).
              rewrite <- firstn_add, <- Hb in E2. apply app_inv_head in E2. auto.
           ++ discriminate.
           ++ rewrite app_length. lia.
    + pose proof (Forall_inv Hpos) as Hr. pose proof (Forall_inv_tail Hpos) as Hpos'.
      destruct r as [| |k].
      * (* Pending: resume *)
        rewrite has_err_cons.
        specialize (IH buf (mkInner (i_stream i) s (i_wscript i) (i_written i)) (Datatypes.S pend)).
        cbn [i_rscript i_stream i_written i_wscript] in IH.
        specialize (IH Hpos' Hs Hb Hl Hw Hws). cbn [length] in Hf. specialize (IH ltac:(lia)).
        destruct (sniff_loop fuel buf _ (Datatypes.S pend)); auto.
      * reflexivity.
      * rewrite has_err_cons.
        set (free := (24 - length buf)%nat). set (n := Nat.min k free).
        set (bs := firstn n (i_stream i)).
        set (i' := mkInner (skipn n (i_stream i)) s (i_wscript i) (i_written i)).
        assert (Hbs : bs ++ skipn n (i_stream i) = i_stream i) by apply firstn_skipn.
        assert (Hn : (1 <= n)%nat) by (unfold n, free; destruct k; [contradiction|lia]).
        assert (Hlen : (length bs <= free)%nat) by (unfold bs, n; rewrite firstn_length; lia).
        destruct (Nat.eqb_spec (length bs) 0) as [Hz|Hnz]; cbn [orb].
        -- assert (i_stream i = []).
           { unfold bs in Hz. rewrite firstn_length in Hz. destruct (i_stream i); [reflexivity|]. cbn [length] in Hz. lia. }
           constructor; cbn [i_stream i_written i_wscript i']; auto.
           ++ rewrite <- app_assoc, Hbs. exact Hs.
           ++ split; [discriminate|]. intros Hp. apply is_prefix_spec in Hp. destruct Hp as [r E].
              rewrite <- Hs, H, app_nil_r in E. apply (f_equal (@length N)) in E.
              rewrite app_length, preface_length in E. lia.
           ++ discriminate.
           ++ rewrite app_length. lia.
        -- destruct (list_eqb N.eqb bs (firstn (length bs) (skipn (length buf) preface))) eqn:Heq; cbn [negb].
           ++ apply list_eqb_N_spec in Heq.
              specialize (IH (buf ++ bs) i' pend). cbn [i_rscript i_stream i_written i_wscript i'] in IH.
              assert (X : match sniff_loop fuel (buf ++ bs) i' pend with
                          | SDone v p i'0 _ => SniffPost S i0 v p i'0
                          | SErr _ => has_err s = true
                          | SFuel => False
                          end).
              { apply IH; auto.
                - rewrite <- app_assoc, Hbs. exact Hs.
                - rewrite app_length, <- firstn_add, <- Hb, <- Heq. reflexivity.
                - rewrite app_length. lia.
                - rewrite app_length. cbn [length] in Hf. lia. }
              exact X.
           ++ constructor; cbn [i_stream i_written i_wscript i']; auto.
              ** rewrite <- app_assoc, Hbs. exact Hs.
              ** split; [discriminate|]. intros Hp. exfalso. apply is_prefix_spec in Hp. destruct Hp as [r E].
                 assert (Hne : bs <> firstn (length bs) (skipn (length buf) preface)).
                 { intros C. apply list_eqb_N_spec in C. congruence. }
                 apply Hne.
                 assert (E2 : firstn (length buf + length bs) S = buf ++ bs).
                 { rewrite <- Hs, <- Hbs, app_assoc, firstn_app_le by (rewrite app_length; lia).
                   rewrite <- app_length. apply firstn_all. }
                 rewrite E in E2. rewrite firstn_app_le in E2 by (rewrite preface_length; lia).
                 rewrite <- firstn_add, <- Hb in E2. apply app_inv_head in E2. auto.
              ** discriminate.
              ** rewrite app_length. lia.
Qed.

(* For EVERY stream and EVERY fragmentation/pending script: *)
Theorem sniff_spec i :
  Forall chunk_pos (i_rscript i) ->
  match sniff i with
  | SDone v p i' _ => SniffPost (i_stream i) i v p i'
  | SErr _ => has_err (i_rscript i) = true
  | SFuel => False
  end.
Proof.
  intros Hpos. unfold sniff. apply sniff_loop_spec; auto; try reflexivity; cbn [length]; lia.
Qed.

(* the verdict does not depend on the script at all *)
Corollary sniff_fragmentation_independent i1 i2 v1 p1 j1 n1 v2 p2 j2 n2 :
  i_stream i1 = i_stream i2 ->
  Forall chunk_pos (i_rscript i1) -> Forall chunk_pos (i_rscript i2) ->
  sniff i1 = SDone v1 p1 j1 n1 -> sniff i2 = SDone v2 p2 j2 n2 -> v1 = v2.
Proof.
  intros Es P1 P2 E1 E2. pose proof (sniff_spec i1 P1) as S1. pose proof (sniff_spec i2 P2) as S2.
  rewrite E1 in S1. rewrite E2 in S2. destruct S1 as [_ V1 _ _ _], S2 as [_ V2 _ _ _].
  rewrite Es in V1. destruct v1, v2; auto.
  - exfalso. assert (X : H1 = H2) by (apply V1; apply V2; reflexivity). discriminate.
  - exfalso. assert (X : H1 = H2) by (apply V2; apply V1; reflexivity). discriminate.
Qed.

(* sniff, then read everything back through the rewound stream: exactly the client's bytes *)
Theorem sniff_then_run i fwd ops v p i' n :
  Forall chunk_pos (i_rscript i) -> sniff i = SDone v p i' n ->
  let '(rs, a') := run fwd (mkAst (Some p) i') ops in
  concat (map data_of rs) ++ unread a' = i_stream i.
Proof.
  intros Hpos E. pose proof (sniff_spec i Hpos) as Sp. rewrite E in Sp.
  pose proof (run_spec fwd ops (mkAst (Some p) i')) as R.
  destruct (run fwd (mkAst (Some p) i') ops) as [rs a']. destruct R as (R1 & _).
  rewrite R1. unfold unread. cbn [a_prefix a_inner]. apply Sp.
Qed.

(* C18 for the sniffing rewind buffer as the server builds it: sniff first, then any op sequence on
   the rewound stream: the C18 monitor holds w.r.t. the client's bytes from the very first one *)
Theorem sniff_run_mon_C18 i fwd ops v p i' n :
  Forall chunk_pos (i_rscript i) -> i_written i = [] -> sniff i = SDone v p i' n ->
  let '(rs, a') := run fwd (mkAst (Some p) i') ops in
  mon_C18 [] (i_stream i) ops rs (written_of a') = true.
Proof.
  intros Hpos Hw E. pose proof (sniff_spec i Hpos) as Sp. rewrite E in Sp.
  destruct Sp as [Hb _ _ _ [Hw' _]].
  assert (Hw2 : i_written i' = []) by (rewrite Hw'; exact Hw).
  pose proof (run_mon_C18 fwd (Some p) i' ops Hw2) as R.
  destruct (run fwd (mkAst (Some p) i') ops) as [rs a'].
  unfold mon_C18 in *. rewrite Hb in R. cbn [app]. exact R.
Qed.

(* ---------- end of stream is never invented ---------- *)
Definition script_pos (a : ast) : Prop := Forall chunk_pos (i_rscript (a_inner a)).

Lemma inner_read_pos free i :
  Forall chunk_pos (i_rscript i) ->
  let '(r, i') := inner_read free i in
  Forall chunk_pos (i_rscript i')
  /\ match r with RRData [] => free = 0%nat \/ i_stream i = [] | _ => True end.
Proof.
  intros Hp. unfold inner_read. destruct (i_rscript i) as [|[| |k] s] eqn:Hs; cbn [i_rscript].
  - split; [constructor|]. destruct (firstn free (i_stream i)) eqn:E; [|exact I].
    destruct free; [left; reflexivity|]. destruct (i_stream i); [right; reflexivity|discriminate].
  - inversion Hp; subst. split; [assumption|exact I].
  - inversion Hp; subst. split; [assumption|exact I].
  - inversion Hp as [|x l Hk Hrest]; subst. split; [assumption|].
    destruct (firstn (Nat.min k free) (i_stream i)) eqn:E; [|exact I].
    destruct k; [contradiction|]. destruct free; [left; reflexivity|].
    cbn [Nat.min] in E. destruct (i_stream i); [right; reflexivity|discriminate].
Qed.

Lemma adapter_read_pos free a :
  script_pos a ->
  let '(r, a') := adapter_read free a in
  script_pos a' /\ match r with RRData [] => free = 0%nat \/ unread a = [] | _ => True end.
Proof.
  intros Hp. unfold adapter_read, unread, script_pos in *.
  destruct (a_prefix a) as [[|b p]|] eqn:Hpre.
  - pose proof (inner_read_pos free (a_inner a) Hp) as H.
    destruct (inner_read free (a_inner a)) as [r i']. cbn [a_inner app]. exact H.
  - cbn [a_inner]. split; [exact Hp|]. destruct free; [left; reflexivity|].
    cbn [length Nat.min firstn]. exact I.
  - pose proof (inner_read_pos free (a_inner a) Hp) as H.
    destruct (inner_read free (a_inner a)) as [r i']. cbn [a_inner app]. exact H.
Qed.

Lemma step_pos fwd a o :
  script_pos a ->
  let '(r, a') := step fwd a o in
  script_pos a'
  /\ match o, r with
     | ORead cap pre, XData [] => (cap <= pre)%nat \/ unread a = []
     | _, _ => True
     end.
Proof.
  intros Hp. destruct o as [cap pre|bufs| |]; cbn [step].
  - unfold buffered_read. cbn [b_cap b_filled]. rewrite repeat_length.
    pose proof (adapter_read_pos (cap - pre) a Hp) as H.
    destruct (adapter_read (cap - pre) a) as [r a']. destruct H as [H1 H2].
    destruct r as [| |bs]; try (split; [exact H1|exact I]).
    unfold buf_after. cbn [b_filled]. rewrite skipn_repeat_app. split; [exact H1|].
    destruct bs; [|exact I]. destruct H2 as [H2|H2]; [left; lia|right; exact H2].
  - unfold adapter_write, script_pos in *.
    destruct (inner_write (if fwd then concat bufs else first_nonempty bufs) (a_inner a)) as [r i'] eqn:E.
    cbn [a_inner]. split; [|destruct r; exact I].
    unfold inner_write in E. destruct (i_wscript (a_inner a)) as [|[| |k] s]; injection E as <- <-; exact Hp.
  - unfold adapter_flush, script_pos in *. destruct (inner_flush (a_inner a)) as [r i'] eqn:E.
    cbn [a_inner]. split; [|destruct r; exact I].
    unfold inner_flush in E. destruct (i_wscript (a_inner a)) as [|[| |k] s]; injection E as <- <-; exact Hp.
  - unfold adapter_flush, script_pos in *. destruct (inner_flush (a_inner a)) as [r i'] eqn:E.
    cbn [a_inner]. split; [|destruct r; exact I].
    unfold inner_flush in E. destruct (i_wscript (a_inner a)) as [|[| |k] s]; injection E as <- <-; exact Hp.
Qed.

Theorem run_eof_ok fwd total : forall ops a got,
  script_pos a -> (got + length (unread a) = total)%nat ->
  eof_ok total ops (fst (run fwd a ops)) got = true.
Proof.
  induction ops as [|o ops IH]; intros a got Hp Hg; cbn [run]; [reflexivity|].
  pose proof (step_pos fwd a o Hp) as HS. pose proof (step_spec fwd a o) as HD.
  destruct (step fwd a o) as [r a1]. destruct HS as [Hp1 HE]. destruct HD as (HD & _ & _).
  specialize (IH a1 (got + length (data_of r))%nat Hp1).
  destruct (run fwd a1 ops) as [rs a2]. cbn [fst] in *. cbn [eof_ok].
  apply andb_true_iff. split.
  - destruct o as [cap pre|bufs| |]; try reflexivity. destruct r as [| |bs| |]; try reflexivity.
    destruct bs as [|b bs]; [|cbn [length Nat.eqb negb]; destruct (Nat.leb cap pre); reflexivity].
    destruct HE as [HE|HE].
    + apply Nat.leb_le in HE. rewrite HE. reflexivity.
    + rewrite HE in Hg. cbn [length] in Hg. rewrite Nat.add_0_r in Hg. subst got.
      apply orb_true_iff. right. apply Nat.eqb_refl.
  - apply IH. rewrite <- HD in Hg. rewrite app_length in Hg. lia.
Qed.

Theorem run_mon_C18_eof fwd prefix i ops :
  Forall chunk_pos (i_rscript i) ->
  mon_C18_eof (match prefix with Some p => p | None => [] end) (i_stream i) ops
              (fst (run fwd (mkAst prefix i) ops)) = true.
Proof.
  intros Hp. unfold mon_C18_eof. apply run_eof_ok; [exact Hp|].
  unfold unread. cbn [a_prefix a_inner]. reflexivity.
Qed.
