From HD Require Import common.Base io.Model io.Spec.

Record case := mkCase {
  k_sniff : bool;
  k_fwd : bool;                   (* adapter forwards vectored writes *)                 (* run the sniffer first, then the ops on the rewound stream *)
  k_prefix : option (list N);     (* Rewind prefix (None for the forwarding adapters) *)
  k_inner : inner;
  k_ops : list op
}.

(* sniff info: None when not sniffing; Some (verdict, pendings), verdict None = error *)
Record obs := mkObs { o_res : list ores; o_written : list N; o_sniff : option (option ver * nat) }.

Definition model_obs (k : case) : obs :=
  if k_sniff k then
    match sniff (k_inner k) with
    | SDone v p i' pend =>
        let '(rs, a') := run (k_fwd k) (mkAst (Some p) i') (k_ops k) in
        mkObs rs (i_written (a_inner a')) (Some (Some v, pend))
    | SErr pend => mkObs [] [] (Some (None, pend))
    | SFuel => mkObs [] [] None
    end
  else
    let '(rs, a') := run (k_fwd k) (mkAst (k_prefix k) (k_inner k)) (k_ops k) in
    mkObs rs (i_written (a_inner a')) None.

Definition ores_eqb (a b : ores) : bool :=
  match a, b with
  | XPending, XPending | XErr, XErr | XOk, XOk => true
  | XData x, XData y => list_eqb N.eqb x y
  | XWrote n, XWrote m => Nat.eqb n m
  | _, _ => false
  end.

Definition obs_eqb (a b : obs) : bool :=
  list_eqb ores_eqb (o_res a) (o_res b)
  && list_eqb N.eqb (o_written a) (o_written b)
  && option_eqb (fun x y => option_eqb ver_eqb (fst x) (fst y) && Nat.eqb (snd x) (snd y)) (o_sniff a) (o_sniff b).

Definition script_pos_b (s : list rd) : bool :=
  forallb (fun r => match r with RChunk O => false | _ => true end) s.

Definition mon18 (k : case) (o : obs) : bool :=
  if k_sniff k then
    (* the adapter under test is the rewound stream the sniffer produced *)
    match o_sniff o with
    | Some (Some _, _) => mon_C18 [] (i_stream (k_inner k)) (k_ops k) (o_res o) (o_written o)
                          && (negb (script_pos_b (i_rscript (k_inner k)))
                              || mon_C18_eof [] (i_stream (k_inner k)) (k_ops k) (o_res o))
    | _ => true
    end
  else
    mon_C18 (match k_prefix k with Some p => p | None => [] end) (i_stream (k_inner k))
            (k_ops k) (o_res o) (o_written o)
    (* end of stream is never invented (inner reads of 0 bytes with room are excluded: AsyncRead contract) *)
    && (negb (script_pos_b (i_rscript (k_inner k)))
        || mon_C18_eof (match k_prefix k with Some p => p | None => [] end) (i_stream (k_inner k))
                       (k_ops k) (o_res o)).

Definition mon08 (k : case) (o : obs) : bool :=
  if k_sniff k then
    match o_sniff o with
    | Some (v, _) => mon_C08 (i_stream (k_inner k)) (i_rscript (k_inner k)) v (k_ops k) (o_res o)
    | None => false
    end
  else true.

Definition check_all_with (mon : case -> obs -> bool) (cs : list (case * obs)) : list N * list N :=
  (falses (map (fun co => obs_eqb (model_obs (fst co)) (snd co)) cs),
   falses (map (fun co => mon (fst co) (snd co)) cs)).
Definition check_all_C18 := check_all_with mon18.
Definition check_all_C08 := check_all_with mon08.
