(* Executable specifications (monitors) for C18 and C08 over observable behaviour only. *)
From HD Require Import common.Base io.Model.

Fixpoint is_prefix (p l : list N) : bool :=
  match p, l with
  | [], _ => true
  | x :: p', y :: l' => N.eqb x y && is_prefix p' l'
  | _ :: _, [] => false
  end.

Definition data_of (r : ores) : list N := match r with XData bs => bs | _ => [] end.

(* bytes the inner writer must have received: for every accepted write, the accepted prefix *)
Fixpoint accepted (ops : list op) (rs : list ores) : list N :=
  match ops, rs with
  | OWrite bufs :: ops', XWrote n :: rs' => firstn n (concat bufs) ++ accepted ops' rs'
  | _ :: ops', _ :: rs' => accepted ops' rs'
  | _, _ => []
  end.

(* per-operation sanity: a read delivers no more than the room offered, a write accepts no more
   than offered, results have the right kind *)
Fixpoint kinds_ok (ops : list op) (rs : list ores) : bool :=
  match ops, rs with
  | [], [] => true
  | ORead cap pre :: ops', r :: rs' =>
      match r with
      | XData bs => Nat.leb (length bs) (cap - pre)
      | XPending | XErr => true
      | _ => false
      end && kinds_ok ops' rs'
  | OWrite bufs :: ops', r :: rs' =>
      match r with
      | XWrote n => Nat.leb n (length (concat bufs))
      | XPending | XErr => true
      | _ => false
      end && kinds_ok ops' rs'
  | (OFlush | OShutdown) :: ops', r :: rs' =>
      match r with XOk | XPending | XErr => true | _ => false end && kinds_ok ops' rs'
  | _, _ => false
  end.

(* C18 monitor: everything read is, in order, a prefix of what was there to read (replayed
   prefix first, then the peer's bytes): nothing lost, duplicated, reordered or invented; the
   inner writer received exactly the accepted bytes, in order *)
Definition mon_C18 (prefix stream : list N) (ops : list op) (rs : list ores) (written : list N) : bool :=
  kinds_ok ops rs
  && is_prefix (concat (map data_of rs)) (prefix ++ stream)
  && list_eqb N.eqb written (accepted ops rs).

(* end of stream is never invented: a read that had room and delivered nothing (= EOF for the caller) is
   legitimate only once every byte of prefix ++ stream has been delivered ([got] = bytes delivered so far) *)
Fixpoint eof_ok (total : nat) (ops : list op) (rs : list ores) (got : nat) : bool :=
  match ops, rs with
  | o :: ops', r :: rs' =>
      match o, r with
      | ORead cap pre, XData bs =>
          Nat.leb cap pre || negb (Nat.eqb (length bs) 0) || Nat.eqb got total
      | _, _ => true
      end && eof_ok total ops' rs' (got + length (data_of r))
  | _, _ => true
  end.
Definition mon_C18_eof (prefix stream : list N) (ops : list op) (rs : list ores) : bool :=
  eof_ok (length (prefix ++ stream)) ops rs 0.

Definition has_err (s : list rd) : bool :=
  existsb (fun r => match r with RErr => true | _ => false end) s.

Definition ver_eqb (a b : ver) : bool := match a, b with H1, H1 | H2, H2 => true | _, _ => false end.

(* C08 monitor: HTTP/2 exactly when the stream starts with the preface (an inner error is the
   only other acceptable outcome, and only if the script contains one); the bytes then read
   through the rewound stream are the client's bytes from the very first one *)
Definition mon_C08 (stream : list N) (script : list rd) (verdict : option ver)
           (ops : list op) (rs : list ores) : bool :=
  match verdict with
  | Some v =>
      ver_eqb v (if is_prefix preface stream then H2 else H1)
      && kinds_ok ops rs
      && is_prefix (concat (map data_of rs)) stream
  | None => has_err script
  end.
