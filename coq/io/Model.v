(* M-IO / M-SNIFF: byte-level models of
   - src/rewind.rs        Rewind::poll_read (prefix first, then the live stream; writes forwarded)
   - src/bridge/io.rs     TokioIo in both directions (read = inner read into the unfilled part,
                          then advance/set_filled by what the inner delivered; writes forwarded)
   - the enum dispatchers (TlsBraid, client/server Stream, Braid): pure forwarding
   - src/server/conn/auto.rs  ReadVersion::poll (protocol sniffing over at most 24 bytes)
   over a scripted inner stream.  Bytes are N. *)
From HD Require Import common.Base.

(* ---------- scripted inner stream ---------- *)
Inductive rd := RPending | RErr | RChunk (k : nat).     (* behaviour of successive inner reads *)
Inductive wr := WPending | WErr | WAccept (k : nat).    (* behaviour of successive inner writes/flushes *)

Record inner := mkInner {
  i_stream : list N;        (* bytes the peer has sent and the adapter has not read yet *)
  i_rscript : list rd;
  i_wscript : list wr;
  i_written : list N        (* bytes accepted by the inner writer so far *)
}.

Inductive rres := RRPending | RRErr | RRData (bs : list N).
Inductive wres := WRPending | WRErr | WROk (n : nat).

(* one inner poll_read with [free] bytes of room; an exhausted script delivers as much as fits *)
Definition inner_read (free : nat) (i : inner) : rres * inner :=
  match i_rscript i with
  | RPending :: s => (RRPending, mkInner (i_stream i) s (i_wscript i) (i_written i))
  | RErr :: s => (RRErr, mkInner (i_stream i) s (i_wscript i) (i_written i))
  | RChunk k :: s =>
      let n := Nat.min k free in
      (RRData (firstn n (i_stream i)), mkInner (skipn n (i_stream i)) s (i_wscript i) (i_written i))
  | [] =>
      (RRData (firstn free (i_stream i)), mkInner (skipn free (i_stream i)) [] (i_wscript i) (i_written i))
  end.

(* one inner poll_write / poll_write_vectored offered the bytes [bs] *)
Definition inner_write (bs : list N) (i : inner) : wres * inner :=
  match i_wscript i with
  | WPending :: s => (WRPending, mkInner (i_stream i) (i_rscript i) s (i_written i))
  | WErr :: s => (WRErr, mkInner (i_stream i) (i_rscript i) s (i_written i))
  | WAccept k :: s =>
      let n := Nat.min k (length bs) in
      (WROk n, mkInner (i_stream i) (i_rscript i) s (i_written i ++ firstn n bs))
  | [] => (WROk (length bs), mkInner (i_stream i) (i_rscript i) [] (i_written i ++ bs))
  end.

(* poll_flush / poll_shutdown *)
Definition inner_flush (i : inner) : wres * inner :=
  match i_wscript i with
  | WPending :: s => (WRPending, mkInner (i_stream i) (i_rscript i) s (i_written i))
  | WErr :: s => (WRErr, mkInner (i_stream i) (i_rscript i) s (i_written i))
  | WAccept _ :: s => (WROk 0, mkInner (i_stream i) (i_rscript i) s (i_written i))
  | [] => (WROk 0, i)
  end.

(* ---------- adapters ---------- *)
(* state of an adapter stack: the un-replayed sniffing prefix (Rewind only) and the inner stream *)
Record ast := mkAst { a_prefix : option (list N); a_inner : inner }.

(* Rewind::poll_read; with a_prefix = None this is plain forwarding, which is also the read path of
   TokioIo (the inner fills the unfilled part of the caller's buffer, the adapter advances the
   caller's cursor by exactly the number of bytes the inner delivered) and of the dispatchers *)
Definition adapter_read (free : nat) (a : ast) : rres * ast :=
  match a_prefix a with
  | Some (b :: p) =>
      let pre := b :: p in
      let n := Nat.min (length pre) free in
      (RRData (firstn n pre),
       mkAst (match skipn n pre with [] => None | rest => Some rest end) (a_inner a))
  | _ =>
      let '(r, i') := inner_read free (a_inner a) in (r, mkAst None i')
  end.

(* tokio's default poll_write_vectored: the first non-empty buffer *)
Fixpoint first_nonempty (bufs : list (list N)) : list N :=
  match bufs with
  | [] => []
  | [] :: rest => first_nonempty rest
  | b :: _ => b
  end.

(* [fwd]: the adapter forwards poll_write_vectored to the inner stream (TokioIo, Rewind); the enum
   dispatchers (TlsBraid, client/server Stream) inherit tokio's default instead *)
Definition adapter_write (fwd : bool) (bufs : list (list N)) (a : ast) : wres * ast :=
  let '(r, i') := inner_write (if fwd then concat bufs else first_nonempty bufs) (a_inner a) in
  (r, mkAst (a_prefix a) i').

Definition adapter_flush (a : ast) : wres * ast :=
  let '(r, i') := inner_flush (a_inner a) in (r, mkAst (a_prefix a) i').

(* the caller's read buffer: capacity, bytes already filled, bytes known initialised *)
Record rbuf := mkBuf { b_cap : nat; b_filled : list N; b_init : nat }.

(* TokioIo bookkeeping (both directions): filled' = filled ++ delivered, initialised' covers it *)
Definition buf_after (b : rbuf) (bs : list N) : rbuf :=
  mkBuf (b_cap b) (b_filled b ++ bs) (Nat.max (b_init b) (length (b_filled b) + length bs)).

Definition buffered_read (b : rbuf) (a : ast) : rres * rbuf * ast :=
  let '(r, a') := adapter_read (b_cap b - length (b_filled b)) a in
  match r with
  | RRData bs => (r, buf_after b bs, a')
  | _ => (r, b, a')
  end.

(* ---------- outer operations ---------- *)
Inductive op :=
| ORead (cap prefill : nat)           (* poll_read into a buffer of [cap] bytes, [prefill] already filled *)
| OWrite (bufs : list (list N))       (* poll_write (one buffer) / poll_write_vectored (several) *)
| OFlush
| OShutdown.

Inductive ores := XPending | XErr | XData (bs : list N) | XWrote (n : nat) | XOk.

Definition step (fwd : bool) (a : ast) (o : op) : ores * ast :=
  match o with
  | ORead cap prefill =>
      let b := mkBuf cap (repeat 238%N prefill) prefill in
      let '(r, b', a') := buffered_read b a in
      (match r with
       | RRPending => XPending
       | RRErr => XErr
       | RRData _ => XData (skipn prefill (b_filled b'))
       end, a')
  | OWrite bufs =>
      let '(r, a') := adapter_write fwd bufs a in
      (match r with WRPending => XPending | WRErr => XErr | WROk n => XWrote n end, a')
  | OFlush | OShutdown =>
      let '(r, a') := adapter_flush a in
      (match r with WRPending => XPending | WRErr => XErr | WROk _ => XOk end, a')
  end.

Fixpoint run (fwd : bool) (a : ast) (ops : list op) : list ores * ast :=
  match ops with
  | [] => ([], a)
  | o :: rest =>
      let '(r, a') := step fwd a o in
      let '(rs, a'') := run fwd a' rest in (r :: rs, a'')
  end.

(* ---------- protocol sniffing ---------- *)
Definition preface : list N :=
  [80; 82; 73; 32; 42; 32; 72; 84; 84; 80; 47; 50; 46; 48; 13; 10; 13; 10; 83; 77; 13; 10; 13; 10]%N.

Inductive ver := H1 | H2.

Inductive sres :=
| SDone (v : ver) (prefix : list N) (i : inner) (pendings : nat)
| SErr (pendings : nat)
| SFuel.

(* ReadVersion::poll, iterated over re-polls (its state lives in the future, so a Pending read
   simply resumes); [pendings] counts how often it returned Pending *)
Fixpoint sniff_loop (fuel : nat) (buf : list N) (i : inner) (pend : nat) : sres :=
  match fuel with
  | O => SFuel
  | S f =>
      if Nat.leb 24 (length buf) then SDone H2 buf i pend
      else
        let '(r, i') := inner_read (24 - length buf) i in
        match r with
        | RRPending => sniff_loop f buf i' (S pend)
        | RRErr => SErr pend
        | RRData bs =>
            if Nat.eqb (length bs) 0
               || negb (list_eqb N.eqb bs (firstn (length bs) (skipn (length buf) preface)))
            then SDone H1 (buf ++ bs) i' pend
            else sniff_loop f (buf ++ bs) i' pend
        end
  end.

Definition sniff (i : inner) : sres := sniff_loop (length (i_rscript i) + 26) [] i 0.
