From HD Require Import common.Base he.Model he.Spec.

Record case := mkCase { k_cfg : cfg; k_atts : list attempt }.

Definition result_eqb (a b : result) : bool :=
  match a, b with
  | ROk i, ROk j | RErr i, RErr j => Nat.eqb i j
  | RNoProgress, RNoProgress | RTimeout, RTimeout | RHang, RHang | RFuel, RFuel => true
  | _, _ => false
  end.

Definition ev_eqb (a b : ev) : bool :=
  match a, b with
  | EStart i t, EStart j u | EDone i t, EDone j u | EPush i t, EPush j u => Nat.eqb i j && N.eqb t u
  | ETick t, ETick u | EExh t, EExh u => N.eqb t u
  | _, _ => false
  end.

Definition obs_eqb (a b : obs) : bool :=
  result_eqb (fst (fst a)) (fst (fst b))
  && option_eqb N.eqb (snd (fst a)) (snd (fst b))
  && list_eqb ev_eqb (snd a) (snd b).

(* the tie-break the implementation used: the order in which it handed completions back *)
Definition tb_of (o : obs) : list nat :=
  flat_map (fun e => match e with EDone i _ => [i] | _ => [] end) (snd o).

Definition model_obs_tb (k : case) (tb : list nat) : obs := he_obs (k_cfg k) tb (k_atts k).
Definition model_obs (k : case) : obs := model_obs_tb k [].

Definition check_all_with (mon : cfg -> list attempt -> obs -> bool) (cs : list (case * obs)) : list N * list N :=
  (falses (map (fun co => obs_eqb (model_obs_tb (fst co) (tb_of (snd co))) (snd co)) cs),
   falses (map (fun co => mon (k_cfg (fst co)) (k_atts (fst co)) (snd co)) cs)).

Definition check_all_C10 := check_all_with mon_C10.
Definition check_all_C11 := check_all_with mon_C11.
