(* M-HE: discrete-event model of src/happy_eyeballs.rs EyeballSet::{process_all, join_next,
   join_next_with_timeout, finish} in virtual time (milliseconds).

   Attempts are scripted futures: on their first poll they arm a timer for [lat] ms (or, for
   lat = 0, complete on that very poll) and then yield their outcome; [Never] attempts stay
   pending for ever.  The model keeps FuturesUnordered's ready-queue discipline explicit:
   futures pushed into the set are first polled in push order ([pend]); a call of [next]
   hands back the first future found ready and leaves the rest of the queue untouched.
   Which of several attempts whose timers fire at the same instant is handed back first is not
   specified by FuturesUnordered/tokio: it is the tie-break oracle [tb] (a priority list of
   attempt indices), universally quantified in every theorem. *)
From HD Require Import common.Base.

Inductive outcome := Succ | Fail | Never.
Record attempt := mkAtt { a_out : outcome; a_lat : N }.

Record cfg := mkCfg {
  c_delay : option N;       (* stagger delay between attempts (EyeballSet.delay) *)
  c_timeout : option N;     (* overall deadline (EyeballSet.timeout) *)
  c_conc : option nat       (* initial_concurrency *)
}.

Inductive result := ROk (i : nat) | RErr (i : nat) | RNoProgress | RTimeout | RHang | RFuel.

(* observable events, plus the internal triggers (filtered out of the observation) *)
Inductive ev :=
| EStart (i : nat) (t : N)          (* first poll of attempt i *)
| EDone (i : nat) (t : N)           (* attempt i returned Ready *)
| EPush (i : nat) (t : N)           (* internal: attempt i moved from the queue into the task set *)
| ETick (t : N)                     (* internal: stagger timer fired *)
| EExh (t : N).                     (* internal: task set found empty *)

Record run := mkRun { r_idx : nat; r_start : N; r_att : attempt }.

Definition finish_of (r : run) : option N :=
  match a_out (r_att r) with
  | Never => None
  | _ => Some (r_start r + a_lat (r_att r))%N
  end.

Record st := mkSt {
  now : N;
  pend : list (nat * attempt);    (* pushed, not yet polled (FIFO) *)
  running : list run;             (* polled, timer armed or never completing *)
  err : option nat;               (* index of the first failure observed *)
  log : list ev                   (* newest first *)
}.

Definition init_st : st := mkSt 0 [] [] None [].

Definition push (x : nat * attempt) (s : st) : st :=
  mkSt (now s) (pend s ++ [x]) (running s) (err s) (EPush (fst x) (now s) :: log s).

(* earliest finish time among running attempts *)
Fixpoint min_finish (rs : list run) : option N :=
  match rs with
  | [] => None
  | r :: t =>
      match finish_of r, min_finish t with
      | Some a, Some b => Some (N.min a b)
      | Some a, None => Some a
      | None, m => m
      end
  end.

Definition due (t : N) (r : run) : bool :=
  match finish_of r with Some f => N.leb f t | None => false end.

(* position of i in the priority list (length if absent) *)
Fixpoint prio (tb : list nat) (i : nat) : nat :=
  match tb with
  | [] => 0
  | x :: t => if Nat.eqb x i then 0 else S (prio t i)
  end.

(* among the due attempts pick the one the tie-break ranks first (lowest index on equal rank) *)
Fixpoint pick_due (tb : list nat) (t : N) (rs : list run) : option run :=
  match rs with
  | [] => None
  | r :: rest =>
      if due t r then
        match pick_due tb t rest with
        | Some r' =>
            if Nat.ltb (prio tb (r_idx r')) (prio tb (r_idx r)) then Some r'
            else if Nat.ltb (prio tb (r_idx r)) (prio tb (r_idx r')) then Some r
            else if Nat.ltb (r_idx r') (r_idx r) then Some r' else Some r
        | None => Some r
        end
      else pick_due tb t rest
  end.

Fixpoint remove_run (i : nat) (rs : list run) : list run :=
  match rs with
  | [] => []
  | r :: t => if Nat.eqb (r_idx r) i then t else r :: remove_run i t
  end.

(* first poll of the pushed futures, in push order, until one of them is ready at once
   (FuturesUnordered hands the first ready future back and leaves the rest queued).  A polled
   attempt joins [running]; the one found ready is returned as well (its finish time is [t]). *)
Fixpoint poll_pend (t : N) (p : list (nat * attempt)) (rs : list run) (lg : list ev)
  : list (nat * attempt) * list run * list ev * option run :=
  match p with
  | [] => ([], rs, lg, None)
  | (i, a) :: rest =>
      let r := mkRun i t a in
      let lg' := EStart i t :: lg in
      match a_out a with
      | Never => poll_pend t rest (rs ++ [r]) lg'
      | _ => if N.eqb (a_lat a) 0 then (rest, rs ++ [r], lg', Some r)
             else poll_pend t rest (rs ++ [r]) lg'
      end
  end.

Inductive waited :=
| WCompleted (r : run) (s : st)     (* tasks.next() = Some(outcome of r) *)
| WExhausted (s : st)               (* tasks.next() = None *)
| WStagger (s : st)                 (* the stagger timeout elapsed first *)
| WDeadline (lg : list ev)          (* the overall timeout elapsed first *)
| WHang (lg : list ev).             (* nothing can ever happen *)

Definition past_deadline (c : cfg) (t : N) : bool :=
  match c_timeout c with Some d => N.ltb d t | None => false end.

(* One await of join_next (lim = None) or join_next_with_timeout (lim = Some deadline of the
   stagger timer), under the overall timeout.  tokio's Timeout polls the inner future before its
   own timer, hence completions win ties against timers ([<=]) and events due exactly at the
   overall deadline are still delivered ([past_deadline] is strict). *)
Definition note_err (out : outcome) (i : nat) (e : option nat) : option nat :=
  match out, e with
  | Fail, None => Some i
  | _, _ => e
  end.

(* join_next hands back the outcome of r at time t; a first failure is remembered *)
Definition completed (r : run) (t : N) (p : list (nat * attempt)) (rs : list run)
           (e : option nat) (lg : list ev) : waited :=
  WCompleted r (mkSt t p rs (note_err (a_out (r_att r)) (r_idx r) e) (EDone (r_idx r) t :: lg)).

Definition await_next (c : cfg) (tb : list nat) (lim : option N) (s : st) : waited :=
  match pick_due tb (now s) (running s) with
  | Some r => completed r (now s) (pend s) (remove_run (r_idx r) (running s)) (err s) (log s)
  | None =>
      let '(p', rs', lg', ready) := poll_pend (now s) (pend s) (running s) (log s) in
      match ready with
      | Some r => completed r (now s) p' (remove_run (r_idx r) rs') (err s) lg'
      | None =>
          match rs' with
          | [] => WExhausted (mkSt (now s) p' rs' (err s) (EExh (now s) :: lg'))
          | _ =>
              let completion t :=
                if past_deadline c t then WDeadline lg'
                else match pick_due tb t rs' with
                     | Some r => completed r t p' (remove_run (r_idx r) rs') (err s) lg'
                     | None => WHang lg' (* unreachable: t is a finish time of rs' *)
                     end in
              let stagger l :=
                if past_deadline c l then WDeadline lg'
                else WStagger (mkSt l p' rs' (err s) (ETick l :: lg')) in
              match min_finish rs', lim with
              | Some t, Some l => if N.leb t l then completion t else stagger l
              | Some t, None => completion t
              | None, Some l => stagger l
              | None, None => match c_timeout c with Some _ => WDeadline lg' | None => WHang lg' end
              end
          end
      end
  end.

Definition deadline_time (c : cfg) : option N := c_timeout c.

(* second loop of process_all: one await per queued future, then push it *)
Fixpoint phase2 (c : cfg) (tb : list nat) (queue : list (nat * attempt)) (s : st)
  : result * option N * list ev + st :=
  match queue with
  | [] => inr s
  | f :: rest =>
      let lim := match c_delay c with Some d => Some (now s + d)%N | None => None end in
      match await_next c tb lim s with
      | WCompleted r s' =>
          match a_out (r_att r) with
          | Succ => inl (ROk (r_idx r), Some (now s'), log s')
          | _ => phase2 c tb rest (push f s')
          end
      | WExhausted s' => phase2 c tb rest (push f s')
      | WStagger s' => phase2 c tb rest (push f s')
      | WDeadline lg => inl (RTimeout, deadline_time c, lg)
      | WHang lg => inl (RHang, None, lg)
      end
  end.

(* third loop of process_all *)
Fixpoint phase3 (fuel : nat) (c : cfg) (tb : list nat) (s : st) : result * option N * list ev :=
  match fuel with
  | O => (RFuel, None, log s)
  | S fuel' =>
      match await_next c tb None s with
      | WCompleted r s' =>
          match a_out (r_att r) with
          | Succ => (ROk (r_idx r), Some (now s'), log s')
          | _ => phase3 fuel' c tb s'
          end
      | WExhausted s' =>
          (match err s' with Some i => RErr i | None => RNoProgress end, Some (now s'), log s')
      | WStagger s' => (RFuel, None, log s')   (* impossible without a stagger limit *)
      | WDeadline lg => (RTimeout, deadline_time c, lg)
      | WHang lg => (RHang, None, lg)
      end
  end.

Fixpoint index_from (i : nat) (l : list attempt) : list (nat * attempt) :=
  match l with
  | [] => []
  | a :: t => (i, a) :: index_from (S i) t
  end.

Definition initial_count (c : cfg) (n : nat) : nat :=
  match c_conc c with Some k => Nat.min k n | None => n end.

(* EyeballSet::finish on attempts pushed in list order *)
Definition he_run (c : cfg) (tb : list nat) (atts : list attempt) : result * option N * list ev :=
  let q := index_from 0 atts in
  let m := initial_count c (length atts) in
  let s1 := fold_left (fun s x => push x s) (firstn m q) init_st in
  match phase2 c tb (skipn m q) s1 with
  | inl res => res
  | inr s2 => phase3 (S (length (pend s2) + length (running s2))) c tb s2
  end.

(* the observable part of the log, oldest first *)
Definition observable (e : ev) : bool :=
  match e with EStart _ _ | EDone _ _ => true | _ => false end.

Definition he_obs (c : cfg) (tb : list nat) (atts : list attempt) : result * option N * list ev :=
  let '(r, t, lg) := he_run c tb atts in (r, t, rev (filter observable lg)).

(* glue in TcpConnecting::connect: delay = timeout / n (integer division on the Duration),
   the timeout itself when there is no address *)
Definition tcp_delay (he_timeout : option N) (n : N) : option N :=
  match he_timeout with
  | None => None
  | Some t => if N.eqb n 0 then Some t else Some (t / n)%N
  end.
