(* Executable specification (monitor) for C10 and C11 over the OBSERVABLE behaviour of one
   happy-eyeballs run: the result, the completion time and the sequence of first polls
   (EStart) and completions (EDone) of the scripted attempts.  No reference to the model's
   internals: the same predicates judge the implementation's traces. *)
From HD Require Import common.Base he.Model.

Definition obs := (result * option N * list ev)%type.

Section Spec.
  Variable c : cfg.
  Variable atts : list attempt.
  Variable o : obs.

  Let res := fst (fst o).
  Let tdone := snd (fst o).
  Let evs := snd o.

  Definition att (i : nat) : option attempt := nth_error atts i.

  Fixpoint start_in (l : list ev) (i : nat) : option N :=
    match l with
    | [] => None
    | EStart j t :: r => if Nat.eqb i j then Some t else start_in r i
    | _ :: r => start_in r i
    end.
  Definition start_of := start_in evs.

  Fixpoint done_in (l : list ev) (i : nat) : option N :=
    match l with
    | [] => None
    | EDone j t :: r => if Nat.eqb i j then Some t else done_in r i
    | _ :: r => done_in r i
    end.
  Definition done_of := done_in evs.

  Definition starts : list (nat * N) :=
    flat_map (fun e => match e with EStart i t => [(i, t)] | _ => [] end) evs.
  Definition dones : list (nat * N) :=
    flat_map (fun e => match e with EDone i t => [(i, t)] | _ => [] end) evs.

  Definition out_of (i : nat) : option outcome := option_map a_out (att i).
  Definition is_out (i : nat) (x : outcome) : bool :=
    match out_of i, x with
    | Some Succ, Succ | Some Fail, Fail | Some Never, Never => true
    | _, _ => false
    end.

  (* time at which attempt i, started at ts, would complete *)
  Definition fin (i : nat) (ts : N) : option N :=
    match att i with
    | Some a => match a_out a with Never => None | _ => Some (ts + a_lat a)%N end
    | None => None
    end.

  Definition within_deadline (t : N) : bool :=
    match c_timeout c with Some d => N.leb t d | None => true end.

  Definition opt_N_eqb (a b : option N) : bool := option_eqb N.eqb a b.

  (* ---- C10 ---- *)

  (* Ok i: i succeeds, was started, the operation completed exactly when i did, no started
     attempt would have succeeded earlier, and the deadline was met *)
  Definition s_ok_sound : bool :=
    match res with
    | ROk i =>
        is_out i Succ
        && match start_of i with
           | Some ts =>
               opt_N_eqb (fin i ts) tdone
               && match tdone with
                  | Some td =>
                      within_deadline td
                      && forallb (fun st => negb (is_out (fst st) Succ)
                                            || match fin (fst st) (snd st) with
                                               | Some f => N.leb td f | None => true end) starts
                  | None => false
                  end
           | None => false
           end
    | _ => true
    end.

  (* completeness: a failure verdict is only possible if no started attempt succeeds in time *)
  Definition s_complete : bool :=
    match res with
    | ROk _ => true
    | RTimeout =>
        forallb (fun st => negb (is_out (fst st) Succ)
                           || match fin (fst st) (snd st), c_timeout c with
                              | Some f, Some d => N.ltb d f | _, _ => false end) starts
    | _ => forallb (fun st => negb (is_out (fst st) Succ)) starts
    end.

  (* Err i: every candidate was tried, every one failed, i is the first failure observed *)
  Definition s_err : bool :=
    match res with
    | RErr i =>
        forallb (fun j => match start_of j, done_of j with Some _, Some _ => is_out j Fail | _, _ => false end)
                (seq 0 (length atts))
        && match dones with (j, _) :: _ => Nat.eqb i j | [] => false end
        && match tdone with Some td => forallb (fun d => N.leb (snd d) td) dones | None => false end
    | RNoProgress => Nat.eqb (length atts) 0 && opt_N_eqb tdone (Some 0%N)
    | _ => true
    end.

  Definition s_timeout : bool :=
    match res with
    | RTimeout => match c_timeout c with Some d => opt_N_eqb tdone (Some d) | None => false end
    | RHang => match c_timeout c with Some _ => false | None => true end
    | RFuel => false
    | _ => true
    end.

  (* ---- C11 ---- *)

  Fixpoint consecutive_from (k : nat) (l : list (nat * N)) : bool :=
    match l with
    | [] => true
    | (i, _) :: r => Nat.eqb i k && consecutive_from (S k) r
    end.
  (* a later candidate never starts before an earlier one *)
  Definition mono_times (l : list (nat * N)) : bool :=
    forallb (fun p => forallb (fun q => negb (Nat.leb (fst p) (fst q)) || N.leb (snd p) (snd q)) l) l.

  (* started in the given order, each candidate at most once, at non-decreasing times;
     every completion belongs to a started attempt and happens exactly lat after its start *)
  Definition s_order : bool :=
    consecutive_from 0 starts && mono_times starts
    && forallb (fun d => match start_of (fst d) with
                         | Some ts => opt_N_eqb (fin (fst d) ts) (Some (snd d))
                         | None => false end) dones
    && Nat.leb (length starts) (length atts).

  Definition m_init : nat := initial_count c (length atts).

  (* the initial batch: candidates below the configured concurrency start at time 0 *)
  Definition s_initial : bool :=
    forallb (fun st => negb (Nat.ltb (fst st) m_init) || N.eqb (snd st) 0) starts.

  (* time at which the wait that precedes the start of candidate j began *)
  Definition wait_began (j : nat) : N :=
    match j with
    | O => 0%N
    | S p => if Nat.ltb j m_init then 0%N
             else match start_of p with Some t => t | None => 0%N end
    end.

  Definition failed_at (i : nat) (t : N) : bool :=
    is_out i Fail && match done_of i with Some d => N.eqb d t | None => false end.

  Definition all_done_by (j : nat) (t : N) : bool :=
    forallb (fun i => match done_of i with Some d => N.leb d t | None => false end) (seq 0 j).

  (* never earlier: every later start is justified by the stagger timer armed when the previous
     candidate was started, by the failure of a running attempt at that instant, or by an empty
     task set;  as soon as: it is not later than the stagger timer, and no failure of an
     earlier candidate lies strictly between the beginning of the wait and the start *)
  Definition s_pace_one (st : nat * N) : bool :=
    let '(j, t) := st in
    if Nat.ltb j m_init then true else
    let w := wait_began j in
    N.leb w t
    && (match c_delay c with Some d => N.eqb t (w + d) | None => false end
        || existsb (fun i => failed_at i t) (seq 0 j)
        || (N.eqb t w && all_done_by j t))
    && match c_delay c with Some d => N.leb t (w + d) | None => true end
    && forallb (fun i => negb (is_out i Fail)
                         || match done_of i with
                            | Some d => negb (N.ltb w d && N.ltb d t) | None => true end) (seq 0 j).
  Definition s_pace : bool := forallb s_pace_one starts.

  (* candidates never started: the operation must have ended before their trigger *)
  Definition s_unstarted : bool :=
    let k := length starts in
    if Nat.leb (length atts) k then true else
    if Nat.ltb k m_init then
      (* part of the initial batch not polled: only possible if the run ended at time 0 with a success *)
      match res, tdone with ROk _, Some 0%N => true | _, _ => false end
    else
    match res with
    | RErr _ | RNoProgress | RFuel => false
    | _ =>
        let w := wait_began k in
        match tdone with
        | Some td =>
            match c_delay c with Some d => N.leb td (w + d) | None => true end
            && forallb (fun i => negb (is_out i Fail)
                                 || match done_of i with
                                    | Some d => negb (N.ltb w d && N.ltb d td) | None => true end) (seq 0 k)
        | None => match c_delay c with Some _ => false | None => true end
        end
    end.

  Definition s_deadline : bool :=
    match c_timeout c, tdone with
    | Some d, Some td => N.leb td d
    | Some _, None => false
    | None, _ => true
    end.

  (* liveness: with a stagger delay configured, the operation never hangs while a candidate that
     was never started would accept *)
  Definition s_hang : bool :=
    match res with
    | RHang => match c_delay c with
               | Some _ => forallb (fun i => match start_of i with
                                             | Some _ => true
                                             | None => negb (is_out i Succ) end) (seq 0 (length atts))
               | None => true end
    | _ => true end.

  Definition mon_C10 : bool := s_ok_sound && s_complete && s_err && s_timeout && s_hang.
  Definition mon_C11 : bool := s_order && s_initial && s_pace && s_unstarted && s_deadline.
End Spec.
