(* Proofs for M-HE: an inductive invariant of the simulation and the derivation of every
   monitor clause of he/Spec.v from it. *)
From HD Require Import common.Base he.Model he.Spec.
From Coq Require Import Permutation.

Local Open Scope N_scope.

(* ---------- log projections, newest first ---------- *)
Definition lstarts (lg : list ev) : list (nat * N) :=
  flat_map (fun e => match e with EStart i t => [(i, t)] | _ => [] end) lg.
Definition ldones (lg : list ev) : list (nat * N) :=
  flat_map (fun e => match e with EDone i t => [(i, t)] | _ => [] end) lg.

Lemma flat_map_rev_small {A B} (f : A -> list B) (l : list A) :
  (forall x, (length (f x) <= 1)%nat) -> flat_map f (rev l) = rev (flat_map f l).
Proof.
  intros H. induction l as [|a t IH]; cbn [rev flat_map]; [reflexivity|].
  rewrite flat_map_app, IH, rev_app_distr. cbn [flat_map]. rewrite app_nil_r.
  f_equal. specialize (H a). destruct (f a) as [|b [|b' r]]; cbn in *; try reflexivity; lia.
Qed.

Lemma starts_obs r t lg : starts (r, t, rev (filter observable lg)) = rev (lstarts lg).
Proof.
  unfold starts, lstarts. cbn [snd].
  rewrite flat_map_rev_small by (intros [ | | | | ]; cbn; lia). f_equal.
  induction lg as [|e l IH]; cbn [filter flat_map]; [reflexivity|].
  destruct e; cbn [observable flat_map]; rewrite IH; reflexivity.
Qed.

Lemma dones_obs r t lg : dones (r, t, rev (filter observable lg)) = rev (ldones lg).
Proof.
  unfold dones, ldones. cbn [snd].
  rewrite flat_map_rev_small by (intros [ | | | | ]; cbn; lia). f_equal.
  induction lg as [|e l IH]; cbn [filter flat_map]; [reflexivity|].
  destruct e; cbn [observable flat_map]; rewrite IH; reflexivity.
Qed.

(* start_in / done_in on a list agree with membership in the projections when indices are
   functional *)
Lemma start_in_in l i t : start_in l i = Some t ->
  In (i, t) (flat_map (fun e => match e with EStart i t => [(i, t)] | _ => [] end) l).
Proof.
  induction l as [|e r IH]; cbn [start_in flat_map]; [discriminate|].
  destruct e as [j u| | | | ]; cbn [app]; auto.
  destruct (Nat.eqb_spec i j) as [->|Hne]; intros H.
  - injection H as <-. left; reflexivity.
  - right. auto.
Qed.

Lemma in_start_in l i t :
  In (i, t) (flat_map (fun e => match e with EStart i t => [(i, t)] | _ => [] end) l) ->
  exists t', start_in l i = Some t'.
Proof.
  induction l as [|e r IH]; cbn [start_in flat_map]; [intros []|].
  destruct e as [j u| | | | ]; cbn [app]; auto.
  destruct (Nat.eqb_spec i j) as [->|Hne]; intros H; [eauto|].
  destruct H as [H|H]; [congruence|auto].
Qed.

Lemma done_in_in l i t : done_in l i = Some t ->
  In (i, t) (flat_map (fun e => match e with EDone i t => [(i, t)] | _ => [] end) l).
Proof.
  induction l as [|e r IH]; cbn [done_in flat_map]; [discriminate|].
  destruct e as [|j u | | | ]; cbn [app]; auto.
  destruct (Nat.eqb_spec i j) as [->|Hne]; intros H.
  - injection H as <-. left; reflexivity.
  - right. auto.
Qed.

Lemma in_done_in l i t :
  In (i, t) (flat_map (fun e => match e with EDone i t => [(i, t)] | _ => [] end) l) ->
  exists t', done_in l i = Some t'.
Proof.
  induction l as [|e r IH]; cbn [done_in flat_map]; [intros []|].
  destruct e as [|j u | | | ]; cbn [app]; auto.
  destruct (Nat.eqb_spec i j) as [->|Hne]; intros H; [eauto|].
  destruct H as [H|H]; [congruence|auto].
Qed.

(* In terms of the observation of a newest-first log *)
Lemma start_of_in r t lg i ts :
  start_of (r, t, rev (filter observable lg)) i = Some ts -> In (i, ts) (lstarts lg).
Proof.
  unfold start_of. cbn [snd]. intros H. apply start_in_in in H.
  fold (starts (r, t, rev (filter observable lg))) in H.
  change (In (i, ts) (starts (r, t, rev (filter observable lg)))) in H.
  rewrite starts_obs in H. apply in_rev in H. exact H.
Qed.

Lemma in_start_of r t lg i ts :
  In (i, ts) (lstarts lg) -> exists ts', start_of (r, t, rev (filter observable lg)) i = Some ts'.
Proof.
  intros H. unfold start_of. cbn [snd]. apply (in_start_in _ i ts).
  change (In (i, ts) (starts (r, t, rev (filter observable lg)))).
  rewrite starts_obs. apply in_rev. rewrite rev_involutive. exact H.
Qed.

Lemma done_of_in r t lg i td :
  done_of (r, t, rev (filter observable lg)) i = Some td -> In (i, td) (ldones lg).
Proof.
  unfold done_of. cbn [snd]. intros H. apply done_in_in in H.
  change (In (i, td) (dones (r, t, rev (filter observable lg)))) in H.
  rewrite dones_obs in H. apply in_rev in H. exact H.
Qed.

Lemma in_done_of r t lg i td :
  In (i, td) (ldones lg) -> exists td', done_of (r, t, rev (filter observable lg)) i = Some td'.
Proof.
  intros H. unfold done_of. cbn [snd]. apply (in_done_in _ i td).
  change (In (i, td) (dones (r, t, rev (filter observable lg)))).
  rewrite dones_obs. apply in_rev. rewrite rev_involutive. exact H.
Qed.

From Coq Require Import Sorting.Sorted.

Lemma nodup_fst_functional {A B} (l : list (A * B)) i a b :
  NoDup (map fst l) -> In (i, a) l -> In (i, b) l -> a = b.
Proof.
  induction l as [|[j x] t IH]; cbn [map fst]; intros Hnd Ha Hb; [destruct Ha|].
  inversion Hnd as [|? ? Hni Hnd']; subst.
  destruct Ha as [Ha|Ha], Hb as [Hb|Hb].
  - congruence.
  - injection Ha as -> ->. exfalso. apply Hni. apply (in_map fst) in Hb. exact Hb.
  - injection Hb as -> ->. exfalso. apply Hni. apply (in_map fst) in Ha. exact Ha.
  - auto.
Qed.

Lemma remove_run_in r i rs : In r (remove_run i rs) -> In r rs.
Proof.
  induction rs as [|x t IH]; cbn [remove_run]; [auto|].
  destruct (Nat.eqb (r_idx x) i); cbn [In]; tauto.
Qed.

Lemma in_remove_run r i rs : In r rs -> In r (remove_run i rs) \/ r_idx r = i.
Proof.
  induction rs as [|x t IH]; cbn [remove_run In]; [tauto|].
  destruct (Nat.eqb_spec (r_idx x) i) as [E|E]; intros [H|H]; subst; cbn [In]; auto.
  destruct (IH H); auto.
Qed.

Lemma remove_run_length r rs : In r rs -> S (length (remove_run (r_idx r) rs)) = length rs.
Proof.
  induction rs as [|x t IH]; cbn [remove_run In length]; [tauto|].
  destruct (Nat.eqb_spec (r_idx x) (r_idx r)) as [E|E]; [reflexivity|].
  intros [H|H]; [subst; congruence|]. cbn [length]. rewrite IH; auto.
Qed.

Lemma pick_due_some tb t rs r : pick_due tb t rs = Some r -> In r rs /\ due t r = true.
Proof.
  revert r. induction rs as [|x rest IH]; cbn [pick_due]; intros r H; [discriminate|].
  destruct (due t x) eqn:Hd.
  - destruct (pick_due tb t rest) as [r'|] eqn:Hp.
    + destruct (IH r' eq_refl) as [Hin Hdue].
      destruct (Nat.ltb _ _); [injection H as <-; cbn [In]; auto|].
      destruct (Nat.ltb _ _); [injection H as <-; cbn [In]; auto|].
      destruct (Nat.ltb _ _); injection H as <-; cbn [In]; auto.
    + injection H as <-. cbn [In]; auto.
  - destruct (IH r H). cbn [In]; auto.
Qed.

Lemma pick_due_none tb t rs : pick_due tb t rs = None -> forall r, In r rs -> due t r = false.
Proof.
  induction rs as [|x rest IH]; cbn [pick_due]; intros H r Hin; [destruct Hin|].
  destruct (due t x) eqn:Hd.
  - destruct (pick_due tb t rest); [|discriminate].
    destruct (Nat.ltb _ _); [discriminate|]. destruct (Nat.ltb _ _); [discriminate|].
    destruct (Nat.ltb _ _); discriminate.
  - destruct Hin as [<-|Hin]; auto.
Qed.

Lemma min_finish_some rs t : min_finish rs = Some t ->
  (exists r, In r rs /\ finish_of r = Some t) /\ (forall r f, In r rs -> finish_of r = Some f -> t <= f).
Proof.
  revert t. induction rs as [|x rest IH]; cbn [min_finish]; intros t H; [discriminate|].
  destruct (finish_of x) as [a|] eqn:Hx, (min_finish rest) as [b|] eqn:Hm.
  - injection H as <-. destruct (IH b eq_refl) as [[r [Hin Hf]] Hmin]. split.
    + destruct (N.min_spec a b) as [[_ ->]|[_ ->]]; [exists x|exists r]; cbn [In]; auto.
    + intros r' f [<-|Hin'] Hf'; [rewrite Hx in Hf'; injection Hf' as <-; lia|].
      specialize (Hmin r' f Hin' Hf'). lia.
  - injection H as <-. split; [exists x; cbn [In]; auto|].
    intros r' f [<-|Hin'] Hf'; [rewrite Hx in Hf'; injection Hf' as <-; lia|].
    exfalso. clear -Hm Hin' Hf'. induction rest as [|y l IHl]; [destruct Hin'|].
    cbn [min_finish] in Hm. destruct (finish_of y) eqn:Hy, (min_finish l) eqn:Hl; try discriminate.
    destruct Hin' as [<-|Hin']; [congruence|auto].
  - destruct (IH t H) as [[r [Hin Hf]] Hmin]. split; [exists r; cbn [In]; auto|].
    intros r' f [<-|Hin'] Hf'; [congruence|eauto].
  - discriminate.
Qed.

Lemma min_finish_none rs : min_finish rs = None -> forall r, In r rs -> finish_of r = None.
Proof.
  induction rs as [|y l IHl]; intros Hm r Hin; [destruct Hin|].
  cbn [min_finish] in Hm. destruct (finish_of y) eqn:Hy, (min_finish l) eqn:Hl; try discriminate.
  destruct Hin as [<-|Hin]; auto.
Qed.

Section Inv.
  Variable c : cfg.
  Variable atts : list attempt.
  Variable tb : list nat.

  Let m := initial_count c (length atts).

  Fixpoint wfq (from : nat) (l : list (nat * attempt)) : Prop :=
    match l with
    | [] => True
    | (i, a) :: t => i = from /\ nth_error atts i = Some a /\ wfq (S from) t
    end.

  Definition nstarted (s : st) : nat := length (lstarts (log s)).

  Record Inv (s : st) : Prop := {
    i_starts : map fst (lstarts (log s)) = rev (seq 0 (nstarted s));
    i_pend : wfq (nstarted s) (pend s);
    i_run : forall r, In r (running s) ->
              nth_error atts (r_idx r) = Some (r_att r)
              /\ In (r_idx r, r_start r) (lstarts (log s))
              /\ (forall f, finish_of r = Some f -> now s <= f);
    i_started : forall i ts, In (i, ts) (lstarts (log s)) ->
              ts <= now s /\
              ((exists r, In r (running s) /\ r_idx r = i /\ r_start r = ts) \/
               (exists a, nth_error atts i = Some a /\ a_out a = Fail
                          /\ In (i, ts + a_lat a) (ldones (log s))));
    i_dones : forall i t, In (i, t) (ldones (log s)) ->
              t <= now s /\
              exists a ts, nth_error atts i = Some a /\ a_out a = Fail
                           /\ In (i, ts) (lstarts (log s)) /\ t = ts + a_lat a;
    i_sorted : forall i t j u, In (i, t) (lstarts (log s)) -> In (j, u) (lstarts (log s)) ->
               (i <= j)%nat -> t <= u;
    i_zero : nstarted s = 0%nat -> now s = 0;
    i_deadline : forall d, c_timeout c = Some d -> now s <= d;
    i_err : match err s with
            | None => ldones (log s) = []
            | Some i => exists t l, ldones (log s) = l ++ [(i, t)]
            end;
    i_init_pend : forall i a, In (i, a) (pend s) -> (i < m)%nat -> now s = 0;
    i_init_started : forall i ts, In (i, ts) (lstarts (log s)) -> (i < m)%nat -> ts = 0
  }.

  Lemma starts_nodup s : Inv s -> NoDup (map fst (lstarts (log s))).
  Proof.
    intros H. rewrite (i_starts s H). apply NoDup_rev, seq_NoDup.
  Qed.

  Lemma starts_functional s i t1 t2 :
    Inv s -> In (i, t1) (lstarts (log s)) -> In (i, t2) (lstarts (log s)) -> t1 = t2.
  Proof. intros H. apply nodup_fst_functional, starts_nodup, H. Qed.

  Lemma started_lt s i ts : Inv s -> In (i, ts) (lstarts (log s)) -> (i < nstarted s)%nat.
  Proof.
    intros H Hin. apply (in_map fst) in Hin. rewrite (i_starts s H) in Hin.
    rewrite <- in_rev in Hin. apply in_seq in Hin. cbn in Hin. lia.
  Qed.

  (* a state that differs only by a later clock and by internal (unobservable) log entries *)
  Lemma Inv_advance s s' :
    Inv s -> pend s' = pend s -> running s' = running s -> err s' = err s ->
    lstarts (log s') = lstarts (log s) -> ldones (log s') = ldones (log s) ->
    now s <= now s' ->
    (forall r f, In r (running s) -> finish_of r = Some f -> now s' <= f) ->
    (forall d, c_timeout c = Some d -> now s' <= d) ->
    (pend s = [] \/ now s' = now s) ->
    (running s <> [] \/ now s' = now s) ->
    Inv s'.
  Proof.
    intros H Hp Hr He Hs Hd Hle Hfin Hdl Hpe Hne.
    assert (Hn : nstarted s' = nstarted s) by (unfold nstarted; rewrite Hs; reflexivity).
    constructor; rewrite ?Hn, ?Hp, ?Hr, ?He, ?Hs, ?Hd.
    - apply H.
    - apply H.
    - intros r Hin. destruct (i_run s H r Hin) as (A & B & C). repeat split; auto.
      intros f Hf. eapply Hfin; eauto.
    - intros i ts Hin. destruct (i_started s H i ts Hin) as [A B]. split; [lia|exact B].
    - intros i t Hin. destruct (i_dones s H i t Hin) as [A B]. split; [lia|exact B].
    - apply H.
    - intros Hz. destruct Hne as [E|E]; [|rewrite E; apply H; exact Hz].
      exfalso. destruct (running s) as [|r rs] eqn:Er; [congruence|].
      destruct (i_run s H r) as (_ & B & _); [rewrite Er; left; reflexivity|].
      unfold nstarted in Hz. destruct (lstarts (log s)); [destruct B|discriminate].
    - exact Hdl.
    - apply H.
    - intros i a Hin Hlt. destruct Hpe as [E|E]; [rewrite E in Hin; destruct Hin|].
      rewrite E. eapply (i_init_pend s H); eauto.
    - apply H.
  Qed.

  (* first poll of the pushed futures *)
  Definition polled (s : st) : st * option run :=
    let '(p', rs', lg', ready) := poll_pend (now s) (pend s) (running s) (log s) in
    (mkSt (now s) p' rs' (err s) lg', ready).

  Definition polled_post (s : st) (x : st * option run) : Prop :=
    let '(s', ready) := x in
    Inv s' /\ now s' = now s /\ err s' = err s /\ ldones (log s') = ldones (log s)
    /\ (nstarted s' + length (pend s') = nstarted s + length (pend s))%nat
    /\ (length (pend s') + length (running s') = length (pend s) + length (running s))%nat
    /\ (nstarted s <= nstarted s')%nat
    /\ match ready with
       | Some r => In r (running s') /\ finish_of r = Some (now s)
       | None => pend s' = []
       end.

  Lemma polled_spec : forall p s, pend s = p -> Inv s -> polled_post s (polled s).
  Proof.
    induction p as [|[i a] rest IH]; intros s Hp H; unfold polled; rewrite Hp; cbn [poll_pend].
    - destruct s as [n p0 rs e lg]; cbn in *; subst p0. split; [exact H|]. repeat split; auto.
    - pose proof (i_pend s H) as Hw. rewrite Hp in Hw. cbn [wfq] in Hw. destruct Hw as (-> & Hatt & Hw).
      set (r := mkRun (nstarted s) (now s) a).
      set (s1 := mkSt (now s) rest (running s ++ [r]) (err s) (EStart (nstarted s) (now s) :: log s)).
      assert (Hn1 : nstarted s1 = S (nstarted s)) by reflexivity.
      assert (H1 : Inv s1).
      { constructor; cbn [log pend running err now s1]; rewrite ?Hn1; cbn [lstarts flat_map app].
        - cbn [map fst]. rewrite seq_S, rev_app_distr. cbn. f_equal. apply H.
        - exact Hw.
        - intros r' Hin. apply in_app_or in Hin. destruct Hin as [Hin|[<-|[]]].
          + destruct (i_run s H r' Hin) as (A & B & C). repeat split; auto. right; exact B.
          + cbn. repeat split; auto. intros f Hf. unfold finish_of in Hf. cbn in Hf.
            destruct (a_out a); inversion Hf; lia.
        - intros i ts [Hin|Hin].
          + injection Hin as <- <-. split; [lia|]. left. exists r. split; [apply in_or_app; right; left; reflexivity|auto].
          + destruct (i_started s H i ts Hin) as [A [[r' (B1 & B2 & B3)]|B]]; split; auto.
            left. exists r'. split; [apply in_or_app; left; exact B1|auto].
        - intros i t Hin. destruct (i_dones s H i t Hin) as [A (a' & ts & B1 & B2 & B3 & B4)].
          split; auto. exists a', ts. repeat split; auto. right; exact B3.
        - intros i t j u [Hi|Hi] [Hj|Hj] Hle.
          + injection Hi as <- <-. injection Hj as <- <-. lia.
          + injection Hi as <- <-. pose proof (started_lt s j u H Hj). lia.
          + injection Hj as <- <-. apply (i_started s H i t Hi).
          + eapply (i_sorted s H); eauto.
        - discriminate.
        - apply H.
        - apply H.
        - intros i a' Hin Hlt. apply (i_init_pend s H i a'); auto. rewrite Hp. right; exact Hin.
        - intros i ts [Hin|Hin] Hlt.
          + injection Hin as <- <-. apply (i_init_pend s H (nstarted s) a); auto. rewrite Hp; left; reflexivity.
          + eapply (i_init_started s H); eauto. }
      assert (Hlen : (length (pend s1) + length (running s1) = length (pend s) + length (running s))%nat).
      { rewrite Hp. cbn [pend running s1 length]. rewrite app_length. cbn [length]. lia. }
      assert (Hcnt : (nstarted s1 + length (pend s1) = nstarted s + length (pend s))%nat).
      { rewrite Hn1, Hp. cbn [pend s1 length]. lia. }
      assert (Hstop : forall lat0 : finish_of r = Some (now s), polled_post s (s1, Some r)).
      { intros Hf. unfold polled_post. split; [exact H1|]. split; [reflexivity|]. split; [reflexivity|].
        split; [reflexivity|]. split; [exact Hcnt|]. split; [exact Hlen|]. split; [lia|].
        split; [|exact Hf]. cbn [running s1]. apply in_or_app. right; left; reflexivity. }
      assert (Hrec : polled_post s (polled s1)).
      { specialize (IH s1 eq_refl H1). unfold polled_post in *. destruct (polled s1) as [s' ready].
        destruct IH as (A & B & C & D & E & F & G & I).
        split; [exact A|]. split; [exact B|]. split; [exact C|]. split; [exact D|].
        split; [lia|]. split; [lia|]. split; [lia|]. exact I. }
      destruct (a_out a) eqn:Hout.
      + destruct (N.eqb_spec (a_lat a) 0) as [Hl|Hl].
        * change (polled_post s (s1, Some r)). apply Hstop.
          unfold finish_of, r. cbn. rewrite Hout, Hl. f_equal. lia.
        * exact Hrec.
      + destruct (N.eqb_spec (a_lat a) 0) as [Hl|Hl].
        * change (polled_post s (s1, Some r)). apply Hstop.
          unfold finish_of, r. cbn. rewrite Hout, Hl. f_equal. lia.
        * exact Hrec.
      + exact Hrec.
  Qed.
  (* ---------- queue well-formedness ---------- *)
  Lemma wfq_app from l1 l2 : wfq from (l1 ++ l2) <-> wfq from l1 /\ wfq (from + length l1) l2.
  Proof.
    revert from. induction l1 as [|[i a] t IH]; intros from; cbn [app wfq length].
    - rewrite Nat.add_0_r. tauto.
    - rewrite IH. replace (S from + length t)%nat with (from + S (length t))%nat by lia. tauto.
  Qed.

  Lemma wfq_in from l i a : wfq from l -> In (i, a) l -> nth_error atts i = Some a /\ (from <= i)%nat.
  Proof.
    revert from. induction l as [|[j b] t IH]; intros from Hw Hin; [destruct Hin|].
    cbn [wfq] in Hw. destruct Hw as (-> & Hb & Hw). destruct Hin as [Hin|Hin].
    - injection Hin as <- <-. auto.
    - destruct (IH _ Hw Hin). split; auto. lia.
  Qed.

  Lemma wfq_index_from pre l : atts = pre ++ l -> wfq (length pre) (index_from (length pre) l).
  Proof.
    revert pre. induction l as [|a t IH]; intros pre E; cbn [index_from wfq]; [exact I|].
    split; [reflexivity|]. split.
    - rewrite E, nth_error_app2, Nat.sub_diag by lia. reflexivity.
    - specialize (IH (pre ++ [a])). rewrite app_length in IH. cbn [length] in IH.
      rewrite Nat.add_1_r in IH. apply IH. rewrite <- app_assoc. exact E.
  Qed.

  Lemma index_from_length i l : length (index_from i l) = length l.
  Proof. revert i. induction l; intros i; cbn [index_from length]; auto. Qed.

  (* ---------- push ---------- *)
  Lemma push_inv s i a :
    Inv s -> i = (nstarted s + length (pend s))%nat -> nth_error atts i = Some a ->
    ((i < m)%nat -> now s = 0) -> Inv (push (i, a) s).
  Proof.
    intros H Hi Ha Hz. unfold push. cbn [fst].
    constructor; cbn [log pend running err now]; unfold nstarted; cbn [log lstarts ldones flat_map app];
      fold (lstarts (log s)); fold (ldones (log s)); fold (nstarted s); try apply H.
    - apply wfq_app. split; [apply H|]. cbn [wfq]. auto.
    - intros j b Hin Hlt. apply in_app_or in Hin. destruct Hin as [Hin|[Hin|[]]].
      + eapply (i_init_pend s H); eauto.
      + injection Hin as <- <-. auto.
  Qed.

  (* ---------- completion of a failing attempt keeps the invariant ---------- *)
  Lemma complete_fail sm r :
    Inv sm -> In r (running sm) -> finish_of r = Some (now sm) -> a_out (r_att r) = Fail ->
    Inv (mkSt (now sm) (pend sm) (remove_run (r_idx r) (running sm))
              (note_err Fail (r_idx r) (err sm)) (EDone (r_idx r) (now sm) :: log sm)).
  Proof.
    intros H Hin Hf Hout.
    destruct (i_run sm H r Hin) as (Hatt & Hst & _).
    assert (Hnow : now sm = r_start r + a_lat (r_att r)).
    { unfold finish_of in Hf. rewrite Hout in Hf. injection Hf as <-. reflexivity. }
    constructor; cbn [log pend running err now]; unfold nstarted; cbn [log lstarts ldones flat_map app];
      fold (lstarts (log sm)); fold (ldones (log sm)); fold (nstarted sm); try apply H.
    - intros r' Hin'. apply remove_run_in in Hin'. apply H. exact Hin'.
    - intros i ts Hi. destruct (i_started sm H i ts Hi) as [A [[r' (B1 & B2 & B3)]|(a & B1 & B2 & B3)]]; split; auto.
      + destruct (in_remove_run r' (r_idx r) _ B1) as [B|B].
        * left. exists r'. auto.
        * right. exists (r_att r). subst i. rewrite B. split; [exact Hatt|]. split; [exact Hout|].
          left. f_equal. rewrite Hnow. f_equal.
          rewrite B in Hi. symmetry. eapply (starts_functional sm); eauto.
      + right. exists a. repeat split; auto. right; exact B3.
    - intros i t [Hi|Hi].
      + injection Hi as <- <-. split; [lia|]. exists (r_att r), (r_start r). auto.
      + apply H. exact Hi.
    - destruct (err sm) as [e|] eqn:He; cbn [note_err].
      + pose proof (i_err sm H) as Herr. rewrite He in Herr. destruct Herr as (t & l & ->).
        exists t, ((r_idx r, now sm) :: l). reflexivity.
      + pose proof (i_err sm H) as Herr. rewrite He in Herr. rewrite Herr.
        exists (now sm), []. reflexivity.
  Qed.

  (* ---------- final outcomes ---------- *)
  Inductive Final : result -> option N -> list ev -> Prop :=
  | F_ok sm r :
      Inv sm -> In r (running sm) -> finish_of r = Some (now sm) -> a_out (r_att r) = Succ ->
      Final (ROk (r_idx r)) (Some (now sm)) (EDone (r_idx r) (now sm) :: log sm)
  | F_exh s :
      Inv s -> pend s = [] -> running s = [] -> nstarted s = length atts ->
      Final (match err s with Some i => RErr i | None => RNoProgress end) (Some (now s)) (log s)
  | F_deadline sm d :
      Inv sm -> pend sm = [] -> c_timeout c = Some d ->
      (forall r f, In r (running sm) -> finish_of r = Some f -> d < f) ->
      Final RTimeout (Some d) (log sm)
  | F_hang sm :
      Inv sm -> pend sm = [] -> c_timeout c = None ->
      (forall r, In r (running sm) -> finish_of r = None) ->
      Final RHang None (log sm).

  (* what one await can return *)
  Inductive Awaited (lim : option N) (s : st) : waited -> Prop :=
  | A_completed sm r :
      Inv sm -> In r (running sm) -> finish_of r = Some (now sm) ->
      (nstarted sm + length (pend sm) = nstarted s + length (pend s))%nat ->
      (length (pend sm) + length (running sm) = length (pend s) + length (running s))%nat ->
      Awaited lim s (completed r (now sm) (pend sm) (remove_run (r_idx r) (running sm)) (err sm) (log sm))
  | A_exh s' :
      Inv s' -> pend s' = [] -> running s' = [] -> pend s = [] -> running s = [] ->
      nstarted s' = nstarted s -> now s' = now s ->
      Awaited lim s (WExhausted s')
  | A_stagger s' l :
      lim = Some l -> Inv s' -> pend s' = [] -> now s' = l ->
      (nstarted s' = nstarted s + length (pend s))%nat ->
      Awaited lim s (WStagger s')
  | A_deadline sm d :
      Inv sm -> pend sm = [] -> c_timeout c = Some d ->
      (forall r f, In r (running sm) -> finish_of r = Some f -> d < f) ->
      Awaited lim s (WDeadline (log sm))
  | A_hang sm :
      Inv sm -> pend sm = [] -> c_timeout c = None ->
      (forall r, In r (running sm) -> finish_of r = None) ->
      Awaited lim s (WHang (log sm)).

  Lemma past_deadline_false t : past_deadline c t = false -> forall d, c_timeout c = Some d -> t <= d.
  Proof. unfold past_deadline. intros H d E. rewrite E in H. apply N.ltb_ge in H. exact H. Qed.

  Lemma past_deadline_true t : past_deadline c t = true -> exists d, c_timeout c = Some d /\ d < t.
  Proof.
    unfold past_deadline. destruct (c_timeout c) as [d|]; [|discriminate].
    intros H. apply N.ltb_lt in H. eauto.
  Qed.

  Lemma due_iff t r : due t r = true <-> exists f, finish_of r = Some f /\ f <= t.
  Proof.
    unfold due. destruct (finish_of r) as [f|].
    - rewrite N.leb_le. split; [eauto|]. intros (f' & E & L). congruence.
    - split; [discriminate|]. intros (f' & E & _). discriminate.
  Qed.

  Lemma await_next_spec lim s :
    Inv s -> (forall l, lim = Some l -> now s <= l) -> Awaited lim s (await_next c tb lim s).
  Proof.
    intros H Hlim. unfold await_next.
    destruct (pick_due tb (now s) (running s)) as [r|] eqn:Hpick.
    - (* a completion is already due *)
      destruct (pick_due_some _ _ _ _ Hpick) as [Hin Hdue].
      apply due_iff in Hdue. destruct Hdue as (f & Hf & Hle).
      destruct (i_run s H r Hin) as (_ & _ & Hge). specialize (Hge f Hf).
      assert (f = now s) by lia. subst f.
      apply (A_completed _ s s r); auto.
    - pose proof (polled_spec (pend s) s eq_refl H) as Hpoll. unfold polled_post, polled in Hpoll.
      destruct (poll_pend (now s) (pend s) (running s) (log s)) as [[[p' rs'] lg'] ready].
      set (sm := mkSt (now s) p' rs' (err s) lg') in *.
      destruct Hpoll as (Hm & Hnow & Herr & Hd & Hcnt & Hlen & Hmono & Hready).
      destruct ready as [r|].
      + destruct Hready as [Hin Hf].
        apply (A_completed _ s sm r); auto.
      + cbn [pend sm] in Hready. subst p'.
        destruct rs' as [|r0 rs0].
        * (* exhausted *)
          assert (Hps : pend s = [] /\ running s = []).
          { cbn [pend running sm length] in Hlen. destruct (pend s), (running s); cbn [length] in Hlen; try lia. auto. }
          destruct Hps as [Hps Hrs].
          apply A_exh; cbn [pend running now]; auto.
          -- apply (Inv_advance sm); [exact Hm|reflexivity|reflexivity|reflexivity|reflexivity|reflexivity|..].
             ++ cbn [now]. lia.
             ++ intros r f [].
             ++ apply Hm.
             ++ right; reflexivity.
             ++ right; reflexivity.
          -- unfold nstarted. cbn [log lstarts flat_map app]. fold (lstarts lg').
             cbn [pend sm length] in Hcnt. rewrite Hps in Hcnt. cbn [length] in Hcnt.
             unfold nstarted in Hcnt. cbn [log sm] in Hcnt. lia.
        * cbv iota. set (rs' := r0 :: rs0) in *.
          assert (Hne : running sm <> []) by (cbn [running sm]; discriminate).
          (* helper: completion at the earliest finish time t *)
          assert (Hcompl : forall t, min_finish rs' = Some t ->
                    Awaited lim s (if past_deadline c t then WDeadline lg'
                                   else match pick_due tb t rs' with
                                        | Some r => completed r t [] (remove_run (r_idx r) rs') (err s) lg'
                                        | None => WHang lg'
                                        end)).
          { intros t Hmin. destruct (min_finish_some _ _ Hmin) as [(rmin & Hrin & Hrf) Hall].
            destruct (past_deadline c t) eqn:Hpd.
            - destruct (past_deadline_true _ Hpd) as (d & Hd' & Hlt).
              apply (A_deadline _ s sm d); auto.
              intros r f Hr Hf. specialize (Hall r f Hr Hf). lia.
            - assert (Hnt : now s <= t).
              { destruct (i_run sm Hm rmin Hrin) as (_ & _ & G). specialize (G t Hrf). exact G. }
              set (sa := mkSt t [] rs' (err s) lg').
              assert (Ha : Inv sa).
              { apply (Inv_advance sm); [exact Hm|reflexivity|reflexivity|reflexivity|reflexivity|reflexivity|..].
                - exact Hnt.
                - intros r f Hr Hf. apply (Hall r f Hr Hf).
                - apply past_deadline_false. exact Hpd.
                - left; reflexivity.
                - left; exact Hne. }
              destruct (pick_due tb t rs') as [r|] eqn:Hp2.
              + destruct (pick_due_some _ _ _ _ Hp2) as [Hin Hdue].
                apply due_iff in Hdue. destruct Hdue as (f & Hf & Hle).
                specialize (Hall r f Hin Hf). assert (f = t) by lia. subst f.
                apply (A_completed _ s sa r); cbn [now pend running err log sa]; auto.
              + exfalso. pose proof (pick_due_none _ _ _ Hp2 rmin Hrin) as Hnd.
                assert (due t rmin = true) by (apply due_iff; exists t; split; [auto|lia]). congruence. }
          assert (Hstag : forall l, lim = Some l ->
                    (forall r f, In r rs' -> finish_of r = Some f -> l < f) ->
                    Awaited lim s (if past_deadline c l then WDeadline lg'
                                   else WStagger (mkSt l [] rs' (err s) (ETick l :: lg')))).
          { intros l El Hall. specialize (Hlim l El).
            destruct (past_deadline c l) eqn:Hpd.
            - destruct (past_deadline_true _ Hpd) as (d & Hd' & Hlt).
              apply (A_deadline _ s sm d); auto.
              intros r f Hr Hf. specialize (Hall r f Hr Hf). lia.
            - apply (A_stagger _ s _ l); cbn [pend now]; auto.
              + apply (Inv_advance sm); [exact Hm|reflexivity|reflexivity|reflexivity|reflexivity|reflexivity|..].
                * exact Hlim.
                * intros r f Hr Hf. specialize (Hall r f Hr Hf). cbn [now]. lia.
                * apply past_deadline_false. exact Hpd.
                * left; reflexivity.
                * left; exact Hne.
              + unfold nstarted. cbn [log lstarts flat_map app]. fold (lstarts lg').
                cbn [pend sm length] in Hcnt. unfold nstarted in Hcnt. cbn [log sm] in Hcnt. lia. }
          destruct (min_finish rs') as [t|] eqn:Hmin, lim as [l|] eqn:El.
          -- destruct (N.leb_spec t l) as [Htl|Htl].
             ++ apply Hcompl. reflexivity.
             ++ apply (Hstag l eq_refl). intros r f Hr Hf.
                destruct (min_finish_some _ _ Hmin) as [_ Hall]. specialize (Hall r f Hr Hf). lia.
          -- apply Hcompl. reflexivity.
          -- apply (Hstag l eq_refl). intros r f Hr Hf.
             rewrite (min_finish_none _ Hmin r Hr) in Hf. discriminate.
          -- destruct (c_timeout c) as [d|] eqn:Hto.
             ++ apply (A_deadline _ s sm d); auto.
                intros r f Hr Hf. rewrite (min_finish_none _ Hmin r Hr) in Hf. discriminate.
             ++ apply (A_hang _ s sm); auto. apply (min_finish_none _ Hmin).
  Qed.

  Lemma finish_never r f : finish_of r = Some f -> a_out (r_att r) <> Never.
  Proof. unfold finish_of. destruct (a_out (r_att r)); congruence. Qed.

  Lemma nstarted_push x s : nstarted (push x s) = nstarted s.
  Proof. reflexivity. Qed.

  Lemma m_le : (m <= length atts)%nat.
  Proof. unfold m, initial_count. destruct (c_conc c); lia. Qed.

  Definition FinalT (x : result * option N * list ev) : Prop :=
    Final (fst (fst x)) (snd (fst x)) (snd x).

  Lemma phase2_spec : forall queue s,
    Inv s -> wfq (nstarted s + length (pend s)) queue ->
    (nstarted s + length (pend s) + length queue = length atts)%nat ->
    (m <= nstarted s + length (pend s))%nat ->
    match phase2 c tb queue s with
    | inl x => FinalT x
    | inr s2 => Inv s2 /\ (nstarted s2 + length (pend s2) = length atts)%nat
    end.
  Proof.
    induction queue as [|[i a] rest IH]; intros s H Hw Hcnt Hm; cbn [phase2].
    - cbn [length] in Hcnt. split; [exact H|lia].
    - cbn [wfq] in Hw. destruct Hw as (Hi & Ha & Hw). cbn [length] in Hcnt.
      rewrite <- Hi in Hw, Hcnt, Hm.
      set (lim := match c_delay c with Some d => Some (now s + d) | None => None end).
      assert (Hlim : forall l, lim = Some l -> now s <= l).
      { unfold lim. destruct (c_delay c); intros l E; inversion E; lia. }
      assert (Hnext : forall s', Inv s' -> (nstarted s' + length (pend s') = i)%nat ->
                match phase2 c tb rest (push (i, a) s') with
                | inl x => FinalT x
                | inr s2 => Inv s2 /\ (nstarted s2 + length (pend s2) = length atts)%nat
                end).
      { intros s' H' E'. apply IH.
        - apply push_inv; auto. intros Hlt. lia.
        - rewrite nstarted_push. unfold push. cbn [pend]. rewrite app_length. cbn [length].
          replace (nstarted s' + (length (pend s') + 1))%nat with (S i) by lia. exact Hw.
        - rewrite nstarted_push. unfold push. cbn [pend]. rewrite app_length. cbn [length]. lia.
        - rewrite nstarted_push. unfold push. cbn [pend]. rewrite app_length. cbn [length]. lia. }
      generalize (await_next_spec lim s H Hlim). generalize (await_next c tb lim s).
      intros w HA. destruct HA as [sm r Hsm Hin Hf Hc Hl|s' Hs' Hp' Hr' Hp Hr Hn Hnow|s' l El Hs' Hp' Hnow Hn
                                  |sm d Hsm Hp' Hd Hall|sm Hsm Hp' Hd Hall].
      + unfold completed. cbv iota beta.
        destruct (a_out (r_att r)) eqn:Hout.
        * unfold FinalT. cbn [fst snd now log]. apply F_ok; auto.
        * apply Hnext.
          -- cbn [note_err]. change (note_err Fail (r_idx r) (err sm)) with (note_err Fail (r_idx r) (err sm)).
             apply complete_fail; auto.
          -- unfold nstarted. cbn [log pend lstarts flat_map app]. fold (lstarts (log sm)). fold (nstarted sm). lia.
        * exfalso. apply (finish_never r _ Hf). exact Hout.
      + apply Hnext; auto. rewrite Hp', Hn. rewrite Hp in Hi. cbn [length] in *. lia.
      + apply Hnext; auto. rewrite Hp', Hn. cbn [length]. lia.
      + unfold FinalT, deadline_time. cbn [fst snd]. rewrite Hd. apply F_deadline; auto.
      + unfold FinalT. cbn [fst snd]. apply F_hang; auto.
  Qed.

  Lemma phase3_spec : forall fuel s,
    Inv s -> (nstarted s + length (pend s) = length atts)%nat ->
    (length (pend s) + length (running s) < fuel)%nat ->
    FinalT (phase3 fuel c tb s).
  Proof.
    induction fuel as [|fuel IH]; intros s H Hcnt Hfuel; [lia|]. cbn [phase3].
    assert (Hlim : forall l, @None N = Some l -> now s <= l) by discriminate.
    generalize (await_next_spec None s H Hlim). generalize (await_next c tb None s).
    intros w HA. destruct HA as [sm r Hsm Hin Hf Hc Hl|s' Hs' Hp' Hr' Hp Hr Hn Hnow|s' l El Hs' Hp' Hnow Hn
                                |sm d Hsm Hp' Hd Hall|sm Hsm Hp' Hd Hall].
    - unfold completed. cbv iota beta.
      destruct (a_out (r_att r)) eqn:Hout.
      + unfold FinalT. cbn [fst snd now log]. apply F_ok; auto.
      + apply IH.
        * apply complete_fail; auto.
        * unfold nstarted. cbn [log pend lstarts flat_map app]. fold (lstarts (log sm)). fold (nstarted sm). lia.
        * cbn [pend running]. pose proof (remove_run_length r _ Hin). lia.
      + exfalso. apply (finish_never r _ Hf). exact Hout.
    - unfold FinalT. cbn [fst snd]. apply F_exh; auto. rewrite Hn. rewrite Hp in Hcnt. cbn [length] in Hcnt. lia.
    - discriminate.
    - unfold FinalT, deadline_time. cbn [fst snd]. rewrite Hd. apply F_deadline; auto.
    - unfold FinalT. cbn [fst snd]. apply F_hang; auto.
  Qed.

  Lemma Inv_init : Inv init_st.
  Proof.
    constructor; cbn; try tauto; try discriminate; try reflexivity; try (intros; lia).
  Qed.

  Lemma fold_push_inv : forall l s,
    Inv s -> now s = 0 -> wfq (nstarted s + length (pend s)) l ->
    let s' := fold_left (fun s x => push x s) l s in
    Inv s' /\ nstarted s' = nstarted s /\ length (pend s') = (length (pend s) + length l)%nat.
  Proof.
    induction l as [|[i a] t IH]; intros s H Hz Hw; cbn [fold_left].
    - split; [exact H|]. cbn [length]. split; [reflexivity|lia].
    - cbn [wfq] in Hw. destruct Hw as (Hi & Ha & Hw).
      assert (Hp : Inv (push (i, a) s)) by (apply push_inv; auto).
      specialize (IH (push (i, a) s) Hp Hz).
      rewrite nstarted_push in IH. unfold push at 1 in IH. cbn [pend] in IH.
      rewrite app_length in IH. cbn [length] in IH.
      replace (nstarted s + (length (pend s) + 1))%nat with (S i) in IH by lia.
      rewrite <- Hi in Hw.
      destruct (IH Hw) as (A & B & C). split; [exact A|]. split; [exact B|]. cbn [length]. change (pend (push (i, a) s)) with (pend s ++ [(i, a)]) in C. rewrite app_length in C. cbn [length] in C. lia.
  Qed.

  Theorem he_run_final : FinalT (he_run c tb atts).
  Proof.
    unfold he_run. fold m.
    set (q := index_from 0 atts).
    assert (Hq : wfq 0 q) by (apply (wfq_index_from [] atts); reflexivity).
    assert (Hlq : length q = length atts) by apply index_from_length.
    rewrite <- (firstn_skipn m q) in Hq. apply wfq_app in Hq. destruct Hq as [Hq1 Hq2].
    assert (Hlf : length (firstn m q) = m) by (rewrite firstn_length; pose proof m_le; lia).
    rewrite Hlf in Hq2. cbn [Nat.add] in Hq2.
    destruct (fold_push_inv (firstn m q) init_st Inv_init eq_refl Hq1) as (H1 & Hn1 & Hl1).
    set (s1 := fold_left (fun s x => push x s) (firstn m q) init_st) in *.
    cbn [pend init_st length Nat.add] in Hl1. change (nstarted init_st) with 0%nat in Hn1.
    assert (Hsk : length (skipn m q) = (length atts - m)%nat) by (rewrite skipn_length; lia).
    pose proof m_le as Hmle.
    pose proof (phase2_spec (skipn m q) s1 H1) as P2.
    rewrite Hn1, Hl1, Hlf in P2. cbn [Nat.add] in P2.
    specialize (P2 Hq2). rewrite Hsk in P2. specialize (P2 ltac:(lia) ltac:(lia)).
    destruct (phase2 c tb (skipn m q) s1) as [x|s2]; [exact P2|].
    destruct P2 as [H2 Hc2]. apply phase3_spec; auto.
  Qed.

  (* ---------- from final outcomes to the monitor clauses ---------- *)

  Lemma nstarted_le s : Inv s -> (nstarted s <= length atts)%nat.
  Proof.
    intros H. destruct (nstarted s) as [|k] eqn:Hk; [lia|].
    assert (Hin : In k (map fst (lstarts (log s)))).
    { rewrite (i_starts s H), Hk, <- in_rev. apply in_seq. lia. }
    apply in_map_iff in Hin. destruct Hin as [[i ts] [E Hin]]. cbn in E. subst i.
    assert (Hsome : nth_error atts k <> None).
    { destruct (i_started s H k ts Hin) as [_ [[r (A & B & _)]|(a & A & _)]].
      - destruct (i_run s H r A) as (C & _). rewrite B in C. congruence.
      - congruence. }
    apply nth_error_Some in Hsome. lia.
  Qed.

  Record LogOK (lg : list ev) : Prop := {
    l_starts : map fst (lstarts lg) = rev (seq 0 (length (lstarts lg)));
    l_len : (length (lstarts lg) <= length atts)%nat;
    l_mono : forall i t j u, In (i, t) (lstarts lg) -> In (j, u) (lstarts lg) -> (i <= j)%nat -> t <= u;
    l_dones : forall i t, In (i, t) (ldones lg) ->
              exists a ts, nth_error atts i = Some a /\ a_out a <> Never
                           /\ In (i, ts) (lstarts lg) /\ t = ts + a_lat a;
    l_init : forall i ts, In (i, ts) (lstarts lg) -> (i < m)%nat -> ts = 0
  }.

  Lemma Inv_logok s : Inv s -> LogOK (log s).
  Proof.
    intros H. constructor.
    - apply H.
    - apply (nstarted_le s H).
    - apply H.
    - intros i t Hin. destruct (i_dones s H i t Hin) as [_ (a & ts & A & B & C & D)].
      exists a, ts. repeat split; auto. congruence.
    - apply H.
  Qed.

  Lemma Final_logok res td lg : Final res td lg -> LogOK lg.
  Proof.
    intros HF. destruct HF as [sm r Hsm Hin Hf Hout|s Hs _ _ _|sm d Hsm _ _ _|sm Hsm _ _ _];
      try (apply Inv_logok; assumption).
    destruct (Inv_logok sm Hsm) as [A B C D E].
    constructor; cbn [lstarts ldones flat_map app]; fold (lstarts (log sm)); fold (ldones (log sm)); auto.
    intros i t [Hi|Hi]; [|auto].
    injection Hi as <- <-. destruct (i_run sm Hsm r Hin) as (X & Y & _).
    exists (r_att r), (r_start r). repeat split; auto; [congruence|].
    unfold finish_of in Hf. rewrite Hout in Hf. injection Hf as <-. reflexivity.
  Qed.

  Section Clauses.
    Variables (res : result) (td : option N) (lg : list ev).
    Hypothesis HF : Final res td lg.
    Let o : obs := (res, td, rev (filter observable lg)).
    Let HL : LogOK lg := Final_logok res td lg HF.

    Lemma lg_nodup : NoDup (map fst (lstarts lg)).
    Proof. rewrite (l_starts lg HL). apply NoDup_rev, seq_NoDup. Qed.

    Lemma start_of_eq i ts : In (i, ts) (lstarts lg) -> start_of o i = Some ts.
    Proof.
      intros Hin. destruct (in_start_of res td lg i ts Hin) as [ts' E]. unfold o.
      rewrite E. f_equal. apply start_of_in in E.
      eapply nodup_fst_functional; eauto using lg_nodup.
    Qed.

    Lemma dones_functional i t1 t2 : In (i, t1) (ldones lg) -> In (i, t2) (ldones lg) -> t1 = t2.
    Proof.
      intros H1 H2.
      destruct (l_dones lg HL i t1 H1) as (a1 & s1 & A1 & _ & C1 & ->).
      destruct (l_dones lg HL i t2 H2) as (a2 & s2 & A2 & _ & C2 & ->).
      assert (a1 = a2) by congruence. subst a2.
      assert (s1 = s2) by (eapply nodup_fst_functional; eauto using lg_nodup). subst. reflexivity.
    Qed.

    Lemma done_of_eq i t : In (i, t) (ldones lg) -> done_of o i = Some t.
    Proof.
      intros Hin. destruct (in_done_of res td lg i t Hin) as [t' E]. unfold o.
      rewrite E. f_equal. apply done_of_in in E. eapply dones_functional; eauto.
    Qed.

    Lemma in_starts_o x : In x (starts o) <-> In x (lstarts lg).
    Proof. unfold o. rewrite starts_obs. symmetry. apply in_rev. Qed.

    Lemma in_dones_o x : In x (dones o) <-> In x (ldones lg).
    Proof. unfold o. rewrite dones_obs. symmetry. apply in_rev. Qed.

    Lemma consecutive_from_spec k l : map fst l = seq k (length l) -> consecutive_from k l = true.
    Proof.
      revert k. induction l as [|[i t] r IH]; intros k E; cbn [consecutive_from]; [reflexivity|].
      cbn [map fst length seq] in E. injection E as -> E. rewrite Nat.eqb_refl. cbn. auto.
    Qed.

    Theorem clause_order : s_order atts o = true.
    Proof.
      unfold s_order. rewrite !andb_true_iff. repeat split.
      - apply consecutive_from_spec. unfold o. rewrite starts_obs, map_rev, rev_length, (l_starts lg HL).
        apply rev_involutive.
      - unfold mono_times. apply forallb_forall. intros [i t] Hi. apply forallb_forall. intros [j u] Hj.
        cbn [fst snd]. apply in_starts_o in Hi. apply in_starts_o in Hj.
        destruct (Nat.leb_spec i j) as [Hle|Hgt]; cbn [negb orb]; [|reflexivity].
        apply N.leb_le. eapply (l_mono lg HL); eauto.
      - apply forallb_forall. intros [i t] Hi. cbn [fst snd]. apply in_dones_o in Hi.
        destruct (l_dones lg HL i t Hi) as (a & ts & A & B & C & ->).
        rewrite (start_of_eq i ts C). unfold fin, att. rewrite A.
        destruct (a_out a); try congruence; cbn; apply N.eqb_refl.
      - apply Nat.leb_le. unfold o. rewrite starts_obs, rev_length. apply (l_len lg HL).
    Qed.

    Theorem clause_initial : s_initial c atts o = true.
    Proof.
      unfold s_initial. apply forallb_forall. intros [i t] Hi. cbn [fst snd]. apply in_starts_o in Hi.
      fold m. change (m_init c atts) with m.
      destruct (Nat.ltb_spec i m) as [Hlt|Hge]; cbn [negb orb]; [|reflexivity].
      apply N.eqb_eq. eapply (l_init lg HL); eauto.
    Qed.

  End Clauses.

  Lemma is_out_spec i a x : nth_error atts i = Some a -> is_out atts i x = true <-> a_out a = x.
  Proof.
    intros E. unfold is_out, out_of, att. rewrite E. cbn.
    destruct (a_out a), x; split; intros; try reflexivity; try discriminate.
  Qed.

  Lemma not_succ j a : nth_error atts j = Some a -> a_out a <> Succ -> is_out atts j Succ = false.
  Proof.
    intros Ha Hn. destruct (is_out atts j Succ) eqn:E; [|reflexivity].
    apply (is_out_spec _ _ Succ Ha) in E. congruence.
  Qed.

  (* every started attempt, in a state satisfying the invariant, either is still running or failed *)
  Lemma started_cases sm i ts : Inv sm -> In (i, ts) (lstarts (log sm)) ->
    exists a, nth_error atts i = Some a /\
      ((exists r, In r (running sm) /\ r_idx r = i /\ r_start r = ts /\ r_att r = a) \/ a_out a = Fail).
  Proof.
    intros Hsm Hin. destruct (i_started sm Hsm i ts Hin) as [_ [[r (A & B & C)]|(a & A & B & _)]].
    - destruct (i_run sm Hsm r A) as (D & _). exists (r_att r). rewrite <- B. split; [exact D|].
      left. exists r. auto.
    - exists a. auto.
  Qed.

  Definition obs_of (res : result) (td : option N) (lg : list ev) : obs :=
    (res, td, rev (filter observable lg)).

  Theorem clause_deadline res td lg (HF : Final res td lg) : s_deadline c (obs_of res td lg) = true.
  Proof.
    unfold s_deadline, obs_of. cbn [fst snd].
    destruct HF as [sm r Hsm Hin Hf Hout|s Hs _ _ _|sm d Hsm _ Hd _|sm Hsm _ Hd _].
    - destruct (c_timeout c) as [d|] eqn:E; [|reflexivity]. apply N.leb_le. apply (i_deadline sm Hsm d E).
    - destruct (c_timeout c) as [d|] eqn:E; [|reflexivity]. apply N.leb_le. apply (i_deadline s Hs d E).
    - rewrite Hd. apply N.leb_refl.
    - rewrite Hd. reflexivity.
  Qed.

  Theorem clause_timeout res td lg (HF : Final res td lg) : s_timeout c (obs_of res td lg) = true.
  Proof.
    unfold s_timeout, obs_of. cbn [fst snd].
    destruct HF as [sm r Hsm Hin Hf Hout|s Hs _ _ _|sm d Hsm _ Hd _|sm Hsm _ Hd _]; auto.
    - destruct (err s); reflexivity.
    - rewrite Hd. cbn. apply N.eqb_refl.
    - rewrite Hd. reflexivity.
  Qed.

  Theorem clause_ok_sound res td lg (HF : Final res td lg) : s_ok_sound c atts (obs_of res td lg) = true.
  Proof.
    pose proof (start_of_eq res td lg HF) as Hso.
    pose proof (in_starts_o res td lg) as Hins.
    unfold s_ok_sound, obs_of in *. cbn [fst snd].
    destruct HF as [sm r Hsm Hin Hf Hout|s Hs _ _ _|sm d Hsm _ Hd _|sm Hsm _ Hd _]; auto.
    2:{ destruct (err s); reflexivity. }
    destruct (i_run sm Hsm r Hin) as (Hatt & Hst & Hge).
    assert (Hnow : now sm = r_start r + a_lat (r_att r)).
    { unfold finish_of in Hf. rewrite Hout in Hf. injection Hf as <-. reflexivity. }
    rewrite (proj2 (is_out_spec _ _ Succ Hatt) Hout). cbn [andb].
    assert (Hst' : In (r_idx r, r_start r) (lstarts (EDone (r_idx r) (now sm) :: log sm))) by exact Hst.
    rewrite (Hso _ _ Hst').
    unfold fin, att. rewrite Hatt, Hout, <- Hnow. cbn [opt_N_eqb option_eqb]. rewrite N.eqb_refl. cbn [andb].
    rewrite andb_true_iff. split.
    - unfold within_deadline. destruct (c_timeout c) as [d|] eqn:E; [|reflexivity].
      apply N.leb_le. apply (i_deadline sm Hsm d E).
    - apply forallb_forall. intros [j tj] Hj. cbn [fst snd]. apply Hins in Hj.
      change (In (j, tj) (lstarts (log sm))) in Hj.
      destruct (started_cases sm j tj Hsm Hj) as (a & Ha & [(r' & A & B & C & D)|Hfail]).
      + destruct (a_out a) eqn:Ho.
        * rewrite (proj2 (is_out_spec _ _ Succ Ha) Ho). cbn [negb orb].
          rewrite Ha, Ho. apply N.leb_le.
          destruct (i_run sm Hsm r' A) as (_ & _ & G). apply G.
          unfold finish_of. rewrite D, Ho, C. reflexivity.
        * rewrite (not_succ j a Ha); [reflexivity|congruence].
        * rewrite (not_succ j a Ha); [reflexivity|congruence].
      + rewrite (not_succ j a Ha); [reflexivity|congruence].
  Qed.

  Theorem clause_complete res td lg (HF : Final res td lg) : s_complete c atts (obs_of res td lg) = true.
  Proof.
    pose proof (in_starts_o res td lg) as Hins.
    unfold s_complete, obs_of in *. cbn [fst snd].
    destruct HF as [sm r Hsm Hin Hf Hout|s Hs Hp Hr Hn|sm d Hsm Hp Hd Hall|sm Hsm Hp Hd Hall]; auto.
    - assert (forallb (fun st0 => negb (is_out atts (fst st0) Succ))
                (starts (match err s with Some i => RErr i | None => RNoProgress end, Some (now s),
                         rev (filter observable (log s)))) = true).
      { apply forallb_forall. intros [j tj] Hj. cbn [fst]. apply Hins in Hj.
        destruct (started_cases s j tj Hs Hj) as (a & Ha & [(r' & A & _)|Hfail]).
        - rewrite Hr in A. destruct A.
        - rewrite (not_succ j a Ha); [reflexivity|congruence]. }
      destruct (err s); exact H.
    - apply forallb_forall. intros [j tj] Hj. cbn [fst snd]. apply Hins in Hj.
      destruct (started_cases sm j tj Hsm Hj) as (a & Ha & [(r' & A & B & C & D)|Hfail]).
      + destruct (a_out a) eqn:Ho.
        * rewrite (proj2 (is_out_spec _ _ Succ Ha) Ho). cbn [negb orb].
          unfold fin, att. rewrite Ha, Ho, Hd. apply N.ltb_lt.
          apply (Hall r' _ A). unfold finish_of. rewrite D, Ho, C. reflexivity.
        * rewrite (not_succ j a Ha); [reflexivity|congruence].
        * rewrite (not_succ j a Ha); [reflexivity|congruence].
      + rewrite (not_succ j a Ha); [reflexivity|congruence].
    - apply forallb_forall. intros [j tj] Hj. cbn [fst]. apply Hins in Hj.
      destruct (started_cases sm j tj Hsm Hj) as (a & Ha & [(r' & A & B & C & D)|Hfail]).
      + pose proof (Hall r' A) as Hnone. unfold finish_of in Hnone. rewrite D in Hnone.
        destruct (a_out a) eqn:Ho; try discriminate.
        rewrite (not_succ j a Ha); [reflexivity|congruence].
      + rewrite (not_succ j a Ha); [reflexivity|congruence].
  Qed.

  Theorem clause_err res td lg (HF : Final res td lg) : s_err atts (obs_of res td lg) = true.
  Proof.
    pose proof (start_of_eq res td lg HF) as Hso.
    pose proof (done_of_eq res td lg HF) as Hdo.
    pose proof (in_dones_o res td lg) as Hind.
    pose proof (dones_obs res td lg) as Hdobs.
    unfold s_err, obs_of in *. cbn [fst snd].
    destruct HF as [sm r Hsm Hin Hf Hout|s Hs Hp Hr Hn|sm d Hsm Hp Hd Hall|sm Hsm Hp Hd Hall]; auto.
    assert (Hall : forall j, (j < length atts)%nat -> exists ts a,
               In (j, ts) (lstarts (log s)) /\ nth_error atts j = Some a /\ a_out a = Fail
               /\ In (j, ts + a_lat a) (ldones (log s))).
    { intros j Hj. assert (Hin : In j (map fst (lstarts (log s)))).
      { rewrite (i_starts s Hs), Hn, <- in_rev. apply in_seq. lia. }
      apply in_map_iff in Hin. destruct Hin as [[i ts] [E Hin]]. cbn in E. subst i.
      destruct (i_started s Hs j ts Hin) as [_ [[r (A & _)]|(a & A & B & C)]].
      - rewrite Hr in A. destruct A.
      - exists ts, a. auto. }
    pose proof (i_err s Hs) as Herr.
    destruct (err s) as [i|] eqn:He.
    - destruct Herr as (t & l & El).
      rewrite !andb_true_iff. repeat split.
      + apply forallb_forall. intros j Hj. apply in_seq in Hj.
        destruct (Hall j ltac:(lia)) as (ts & a & A & B & C & D).
        rewrite (Hso j ts A), (Hdo j _ D).
        apply (is_out_spec _ _ Fail B). exact C.
      + rewrite Hdobs, El, rev_app_distr. cbn. apply Nat.eqb_refl.
      + apply forallb_forall. intros [j t'] Hj. cbn [snd]. apply Hind in Hj.
        apply N.leb_le. apply (i_dones s Hs j t' Hj).
    - rewrite andb_true_iff. split.
      + apply Nat.eqb_eq. destruct (Nat.eq_dec (length atts) 0) as [E0|Hpos]; [exact E0|].
        destruct (Hall 0%nat ltac:(lia)) as (ts & a & _ & _ & _ & D). rewrite Herr in D. destruct D.
      + cbn. apply N.eqb_eq. apply (i_zero s Hs). rewrite Hn.
        destruct (Nat.eq_dec (length atts) 0) as [E0|Hpos]; [exact E0|].
        destruct (Hall 0%nat ltac:(lia)) as (ts & a & _ & _ & _ & D). rewrite Herr in D. destruct D.
  Qed.

  Lemma he_obs_final : exists res td lg, he_obs c tb atts = obs_of res td lg /\ Final res td lg.
  Proof.
    pose proof he_run_final as HF. unfold he_obs, FinalT in *.
    destruct (he_run c tb atts) as [[res td] lg]. exists res, td, lg. auto.
  Qed.

End Inv.

(* ---------- packaged results ---------- *)
(* the four clauses of mon_C10 about started attempts; the liveness clause s_hang and the full
   mon_C10_holds are in he/ProofsPace.v (they need the pacing invariant) *)
Definition mon_C10_core (c : cfg) (atts : list attempt) (o : obs) : bool :=
  s_ok_sound c atts o && s_complete c atts o && s_err atts o && s_timeout c o.

Lemma mon_C10_core_holds c tb atts : mon_C10_core c atts (he_obs c tb atts) = true.
Proof.
  destruct (he_obs_final c atts tb) as (res & td & lg & E & HF). rewrite E.
  unfold mon_C10_core.
  rewrite (clause_ok_sound c atts res td lg HF), (clause_complete c atts res td lg HF),
          (clause_err c atts res td lg HF), (clause_timeout c atts res td lg HF). reflexivity.
Qed.

Definition mon_C11_proved (c : cfg) (atts : list attempt) (o : obs) : bool :=
  s_order atts o && s_initial c atts o && s_deadline c o.

Lemma mon_C11_proved_holds c tb atts : mon_C11_proved c atts (he_obs c tb atts) = true.
Proof.
  destruct (he_obs_final c atts tb) as (res & td & lg & E & HF). rewrite E.
  unfold mon_C11_proved.
  pose proof (clause_order c atts res td lg HF) as A. pose proof (clause_initial c atts res td lg HF) as B.
  cbv zeta in A, B. fold (obs_of res td lg) in A, B. rewrite A, B. clear A B.
  rewrite (clause_deadline c atts res td lg HF). reflexivity.
Qed.
Lemma he_never_out_of_fuel c tb atts : fst (fst (he_obs c tb atts)) <> RFuel.
Proof.
  destruct (he_obs_final c atts tb) as (res & td & lg & E & HF). rewrite E. cbn.
  destruct HF as [| s | |]; try discriminate. destruct (err s); discriminate.
Qed.
