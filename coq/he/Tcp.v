(* M-TCPGLUE: the glue of TcpConnecting::connect (src/client/conn/transport/tcp.rs) that turns a
   TcpTransportConfig and a list of candidate addresses into an EyeballSet run (M-HE, he/Model.v):

     delay       = happy_eyeballs_timeout / addresses.len()   (the timeout itself if there is no
                   address; None if there is no timeout)
     timeout     = happy_eyeballs_timeout
     concurrency = happy_eyeballs_concurrency
     candidates pushed in pop order (SocketAddrs::pop = pop_front: the order of the list)
     error mapping: Timeout -> "Connection attempts timed out after ..ms", NoProgress ->
                   "Exhausted connection candidates", Error(e) -> the attempt's own error e.

   Times are in NANOSECONDS here (the model M-HE does not care about the unit).  `Duration / u32`
   is core::time::Duration::checked_div: secs/rhs, and the remainder of the seconds together with
   the remainder of the nanoseconds divided again by rhs -- exactly floor(total_ns / rhs) (checked
   against the installed toolchain, rustc 1.95: library/core/src/time.rs, and by running it); it
   panics for rhs = 0, which the is_empty guard excludes.  `len() as u32` wraps for 2^32 or more
   addresses; the model takes n < 2^32. *)
From HD Require Import common.Base he.Model he.Spec.

Definition tcp_cfg (timeout : option N) (conc : option nat) (n : nat) : cfg :=
  mkCfg (tcp_delay timeout (N.of_nat n)) timeout conc.

(* connect_to_addrs / TcpConnecting::connect on candidates behaving like [atts] *)
Definition tcp_connect (timeout : option N) (conc : option nat) (tb : list nat) (atts : list attempt) : obs :=
  he_obs (tcp_cfg timeout conc (length atts)) tb atts.

(* what the caller of connect sees *)
Inductive tcp_class :=
| TOk (i : nat)          (* Ok(stream of candidate i) *)
| TErrTimeout            (* "Connection attempts timed out after ..ms" *)
| TErrExhausted          (* "Exhausted connection candidates" *)
| TErrAttempt (i : nat)  (* the error of attempt i (the first failure observed) *)
| THang.                 (* the future never resolves *)

Definition tcp_class_of (r : result) : tcp_class :=
  match r with
  | ROk i => TOk i
  | RErr i => TErrAttempt i
  | RNoProgress => TErrExhausted
  | RTimeout => TErrTimeout
  | RHang | RFuel => THang
  end.

Definition tcp_result (timeout : option N) (conc : option nat) (tb : list nat) (atts : list attempt) : tcp_class :=
  tcp_class_of (fst (fst (tcp_connect timeout conc tb atts))).

(* candidates on the local host: a listening port accepts at once, a refusing one fails at once *)
Definition local_atts (l : list bool) : list attempt :=
  map (fun b : bool => mkAtt (if b then Succ else Fail) 0) l.
