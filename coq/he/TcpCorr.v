(* Correspondence between M-TCPGLUE (he/Tcp.v) and the real TcpTransport::connect_to_addrs driven
   over 127.0.0.1 (harness/src/bin/tcpglue.rs).  The implementation's observation consists of the
   parameters it handed to EyeballSet::new, read off the library's own trace events (delay,
   timeout in ns; number of attempts pushed), and of the class of the result.  Real time is never
   compared: the candidates answer at once (listening = Succ 0, refusing = Fail 0). *)
From HD Require Import common.Base he.Model he.Spec he.Tcp.

Record case := mkTCase { k_timeout : option N; k_conc : option nat; k_listen : list bool }.

Inductive oclass := COk (i : nat) | CErrTimeout | CErrExhausted | CErrOther | CHang | CPanic.

(* outer None = the trace event was not emitted *)
Record obs := mkTObs {
  o_delay : option (option N);
  o_timeout : option (option N);
  o_n : option nat;
  o_class : oclass
}.

Definition class_of_tcp (x : tcp_class) : oclass :=
  match x with
  | TOk i => COk i
  | TErrTimeout => CErrTimeout
  | TErrExhausted => CErrExhausted
  | TErrAttempt _ => CErrOther
  | THang => CHang
  end.

Definition model_obs (k : case) : obs :=
  let n := length (k_listen k) in
  let cf := tcp_cfg (k_timeout k) (k_conc k) n in
  mkTObs (Some (c_delay cf)) (Some (c_timeout cf)) (Some n)
         (class_of_tcp (tcp_result (k_timeout k) (k_conc k) [] (local_atts (k_listen k)))).

Definition listening (k : case) (i : nat) : bool :=
  match nth_error (k_listen k) i with Some b => b | None => false end.

(* candidates are tried strictly one after the other *)
Definition sequential (k : case) : bool :=
  match k_conc k with Some 0%nat | Some 1%nat => true | _ => false end.

(* with several connects in flight at once the kernel decides which accepting candidate is handed
   back first; the index is compared exactly only for sequential runs *)
Definition class_eqb (k : case) (a b : oclass) : bool :=
  match a, b with
  | COk i, COk j => Nat.eqb i j || (negb (sequential k) && listening k i && listening k j)
  | CErrTimeout, CErrTimeout | CErrExhausted, CErrExhausted | CErrOther, CErrOther
  | CHang, CHang | CPanic, CPanic => true
  | _, _ => false
  end.

Definition oo_eqb (a b : option (option N)) : bool := option_eqb (option_eqb N.eqb) a b.

Definition obs_eqb (k : case) (a b : obs) : bool :=
  oo_eqb (o_delay a) (o_delay b) && oo_eqb (o_timeout a) (o_timeout b)
  && option_eqb Nat.eqb (o_n a) (o_n b) && class_eqb k (o_class a) (o_class b).

(* the glue rule and the C10 reading of the outcome, judged on the implementation's observation
   alone: delay = timeout / n (the timeout itself for n = 0, none without a timeout), timeout and
   number of attempts as configured; a listening candidate wins if there is one, the first one in
   a sequential run; no candidate: "exhausted"; only refusing candidates: an attempt's error *)
Definition mon_tcp (k : case) (o : obs) : bool :=
  let n := length (k_listen k) in
  oo_eqb (o_delay o) (Some (tcp_delay (k_timeout k) (N.of_nat n)))
  && oo_eqb (o_timeout o) (Some (k_timeout k))
  && option_eqb Nat.eqb (o_n o) (Some n)
  && match o_class o with
     | COk i => listening k i
                && (negb (sequential k) || forallb (fun j => negb (listening k j)) (seq 0 i))
     | CErrExhausted => Nat.eqb n 0
     | CErrOther => negb (Nat.eqb n 0) && forallb negb (k_listen k)
     | CErrTimeout | CHang | CPanic => false
     end.

Definition check_all_tcp (cs : list (case * obs)) : list N * list N :=
  (falses (map (fun co => obs_eqb (fst co) (model_obs (fst co)) (snd co)) cs),
   falses (map (fun co => mon_tcp (fst co) (snd co)) cs)).
