(* Proofs for M-HE, pacing clauses of C11 (s_pace, s_unstarted): a second invariant [Pace] of the
   simulation, carried next to [Inv] of he/Proofs.v, a frame lemma for [await_next], and the
   derivation of the two monitor clauses and of the full monitor mon_C11. *)
From HD Require Import common.Base he.Model he.Spec he.Proofs.

Local Open Scope N_scope.

Section Pace.
  Variable c : cfg.
  Variable atts : list attempt.
  Variable tb : list nat.

  Let m := initial_count c (length atts).

  (* "virtual" starts: attempts already polled, and attempts pushed but not yet polled, which will
     be polled at the current instant (the clock does not advance while [pend] is non-empty) *)
  Definition InV' (t : N) (p : list (nat * attempt)) (lg : list ev) (j : nat) (u : N) : Prop :=
    In (j, u) (lstarts lg) \/ (u = t /\ exists a, In (j, a) p).
  Definition InV (s : st) : nat -> N -> Prop := InV' (now s) (pend s) (log s).

  (* beginning of the wait that precedes the start of candidate j *)
  Definition WB (V : nat -> N -> Prop) (j : nat) (w : N) : Prop :=
    match j with O => w = 0 | S p => V p w end.

  Definition NoFailBetween (D : list (nat * N)) (j : nat) (w t : N) : Prop :=
    forall i dd, (i < j)%nat -> In (i, dd) D -> ~ (w < dd /\ dd < t).

  Definition Trigger (D : list (nat * N)) (j : nat) (w t : N) : Prop :=
    (exists d, c_delay c = Some d /\ t = w + d)
    \/ (exists i a, (i < j)%nat /\ In (i, t) D /\ nth_error atts i = Some a /\ a_out a = Fail)
    \/ (t = w /\ forall i, (i < j)%nat -> exists dd, In (i, dd) D /\ dd <= t).

  Definition Bounded (w t : N) : Prop := forall d, c_delay c = Some d -> t <= w + d.

  Definition PaceOK (V : nat -> N -> Prop) (D : list (nat * N)) (j : nat) (t : N) : Prop :=
    exists w, WB V j w /\ w <= t /\ Trigger D j w t /\ Bounded w t /\ NoFailBetween D j w t
              /\ (j = 0%nat -> t = 0).

  Definition Pace (s : st) : Prop :=
    forall j t, InV s j t -> (m <= j)%nat -> PaceOK (InV s) (ldones (log s)) j t.

  Lemma WB_mono (V V' : nat -> N -> Prop) j w :
    (forall p u, V p u -> V' p u) -> WB V j w -> WB V' j w.
  Proof. destruct j; cbn; auto. Qed.

  (* PaceOK is stable under more virtual starts and under new completions not earlier than t *)
  Lemma PaceOK_mono (V V' : nat -> N -> Prop) D D' j t :
    (forall p u, V p u -> V' p u) ->
    (forall x, In x D -> In x D') ->
    (forall i dd, In (i, dd) D' -> In (i, dd) D \/ t <= dd) ->
    PaceOK V D j t -> PaceOK V' D' j t.
  Proof.
    intros HV HD HD' (w & A & B & C & E & F & Z). exists w. split; [eapply WB_mono; eauto|].
    split; [exact B|]. split; [|split; [exact E|split; [|exact Z]]].
    - destruct C as [C|[(i & a & C1 & C2 & C3)|(C1 & C2)]].
      + left; exact C.
      + right; left. exists i, a. auto.
      + right; right. split; [exact C1|]. intros i Hi. destruct (C2 i Hi) as (dd & G1 & G2). eauto.
    - intros i dd Hi Hin. destruct (HD' i dd Hin) as [G|G]; [apply (F i dd Hi G)|lia].
  Qed.

  Lemma InV_le s j t : Inv c atts s -> InV s j t -> t <= now s.
  Proof.
    intros H [Hin|[-> _]]; [apply (i_started c atts s H j t Hin)|lia].
  Qed.

  Lemma InV_lt s j t : Inv c atts s -> InV s j t -> (j < nstarted s + length (pend s))%nat.
  Proof.
    intros H [Hin|[_ [a Hin]]].
    - pose proof (started_lt c atts s j t H Hin). lia.
    - pose proof (i_pend c atts s H) as Hw. revert Hw Hin. generalize (nstarted s).
      induction (pend s) as [|[i b] l IH]; intros from Hw Hin; [destruct Hin|].
      cbn [wfq] in Hw. destruct Hw as (-> & _ & Hw). destruct Hin as [Hin|Hin].
      + injection Hin as <- _. cbn [length]. lia.
      + specialize (IH _ Hw Hin). cbn [length]. lia.
  Qed.

  (* a virtual start of an index already polled is a real start *)
  Lemma InV_started s j t : Inv c atts s -> InV s j t -> (j < nstarted s)%nat -> In (j, t) (lstarts (log s)).
  Proof.
    intros H [Hin|[_ [a Hin]]] Hlt; [exact Hin|].
    destruct (wfq_in c atts _ _ _ _ (i_pend c atts s H) Hin) as [_ Hge]. lia.
  Qed.

  (* every index below the number of starts has a start entry *)
  Lemma started_has s j : Inv c atts s -> (j < nstarted s)%nat -> exists t, In (j, t) (lstarts (log s)).
  Proof.
    intros H Hlt. assert (Hin : In j (map fst (lstarts (log s)))).
    { rewrite (i_starts c atts s H), <- in_rev. apply in_seq. lia. }
    apply in_map_iff in Hin. destruct Hin as [[i ts] [E Hin]]. cbn in E. subst i. eauto.
  Qed.

  Lemma wfq_has from l i : wfq atts from l -> (from <= i < from + length l)%nat -> exists a, In (i, a) l.
  Proof.
    revert from. induction l as [|[k b] l IH]; intros from Hw Hi; cbn [length] in Hi; [lia|].
    cbn [wfq] in Hw. destruct Hw as (-> & _ & Hw).
    destruct (Nat.eq_dec i from) as [->|Hne]; [exists b; left; reflexivity|].
    destruct (IH (S from) Hw ltac:(lia)) as [a Ha]. exists a. right; exact Ha.
  Qed.

  (* every index pushed so far has a virtual start *)
  Lemma InV_has s j : Inv c atts s -> (j < nstarted s + length (pend s))%nat -> exists t, InV s j t.
  Proof.
    intros H Hlt. destruct (Nat.lt_ge_cases j (nstarted s)) as [Hs|Hs].
    - destruct (started_has s j H Hs) as [t Ht]. exists t. left; exact Ht.
    - destruct (wfq_has _ _ j (i_pend c atts s H) ltac:(lia)) as [a Ha]. exists (now s). right. eauto.
  Qed.

  Lemma InV_functional s j t u : Inv c atts s -> InV s j t -> InV s j u -> t = u.
  Proof.
    intros H Ht Hu. destruct (Nat.lt_ge_cases j (nstarted s)) as [Hs|Hs].
    - eapply (starts_functional c atts s); eauto using InV_started.
    - destruct Ht as [Ht|[-> _]]; [pose proof (started_lt c atts s j t H Ht); lia|].
      destruct Hu as [Hu|[-> _]]; [pose proof (started_lt c atts s j u H Hu); lia|]. reflexivity.
  Qed.
  (* ---------- preservation of Pace ---------- *)
  Lemma Pace_equiv s s' :
    (forall j u, InV s' j u <-> InV s j u) -> ldones (log s') = ldones (log s) -> Pace s -> Pace s'.
  Proof.
    intros HV HD HP j t Hj Hm. rewrite HD. apply HV in Hj.
    apply (PaceOK_mono (InV s) (InV s') (ldones (log s)) (ldones (log s)) j t); auto.
    intros p u. apply HV.
  Qed.

  (* a completion observed at the current instant *)
  Lemma Pace_done sm i rs e :
    Inv c atts sm -> Pace sm ->
    Pace (mkSt (now sm) (pend sm) rs e (EDone i (now sm) :: log sm)).
  Proof.
    intros H HP j t Hj Hm.
    change (InV sm j t) in Hj.
    apply (PaceOK_mono (InV sm) _ (ldones (log sm)) _ j t); auto.
    - intros x Hx. right; exact Hx.
    - intros k dd [Hk|Hk]; [|left; exact Hk]. injection Hk as <- <-. right. eapply InV_le; eauto.
  Qed.

  Lemma InV_push s x j u : InV s j u -> InV (push x s) j u.
  Proof.
    intros [Hin|[-> [a Hin]]]; [left; exact Hin|]. right. split; [reflexivity|].
    exists a. cbn [push pend]. apply in_or_app. left; exact Hin.
  Qed.

  Lemma InV_push_new s j a : InV (push (j, a) s) j (now s).
  Proof.
    right. split; [reflexivity|]. exists a. cbn [push pend]. apply in_or_app. right; left; reflexivity.
  Qed.

  Lemma InV_push_inv s i a j u : InV (push (i, a) s) j u -> InV s j u \/ (j = i /\ u = now s).
  Proof.
    intros [Hin|[-> [b Hin]]]; [left; left; exact Hin|].
    cbn [push pend] in Hin. apply in_app_or in Hin. destruct Hin as [Hin|[Hin|[]]].
    - left. right. split; [reflexivity|]. eauto.
    - injection Hin as <- _. right. auto.
  Qed.

  Lemma Pace_push s j a :
    Pace s -> ((m <= j)%nat -> PaceOK (InV (push (j, a) s)) (ldones (log s)) j (now s)) ->
    Pace (push (j, a) s).
  Proof.
    intros HP Hnew k t Hk Hm. change (ldones (log (push (j, a) s))) with (ldones (log s)).
    destruct (InV_push_inv s j a k t Hk) as [Hold|[-> ->]].
    - apply (PaceOK_mono (InV s) _ (ldones (log s)) _ k t); auto. intros p u. apply InV_push.
    - apply Hnew. exact Hm.
  Qed.

  (* ---------- frame of poll_pend ---------- *)
  Lemma poll_frame t : forall p rs lg p' rs' lg' ready,
    poll_pend t p rs lg = (p', rs', lg', ready) ->
    ldones lg' = ldones lg
    /\ (forall j u, InV' t p' lg' j u <-> InV' t p lg j u)
    /\ (length (lstarts lg') + length p' = length (lstarts lg) + length p)%nat
    /\ (ready = None -> p' = []).
  Proof.
    induction p as [|[i a] rest IH]; intros rs lg p' rs' lg' ready E; cbn [poll_pend] in E.
    - injection E as <- <- <- <-. repeat split; auto.
    - assert (Hstep : forall j u, InV' t rest (EStart i t :: lg) j u <-> InV' t ((i, a) :: rest) lg j u).
      { intros j u. unfold InV'. cbn [lstarts flat_map app In]. fold (lstarts lg). split.
        - intros [[Hh|Hh]|[-> [b Hb]]]; [injection Hh as <- <-; right; split; eauto|auto|right; split; eauto].
        - intros [Hh|[-> [b [Hb|Hb]]]]; [auto| |right; split; eauto].
          injection Hb as <- _. left; left; reflexivity. }
      assert (Hrec : poll_pend t rest (rs ++ [mkRun i t a]) (EStart i t :: lg) = (p', rs', lg', ready) ->
                ldones lg' = ldones lg
                /\ (forall j u, InV' t p' lg' j u <-> InV' t ((i, a) :: rest) lg j u)
                /\ (length (lstarts lg') + length p' = length (lstarts lg) + length ((i, a) :: rest))%nat
                /\ (ready = None -> p' = [])).
      { intros E'. destruct (IH _ _ _ _ _ _ E') as (A & B & C & D). split; [exact A|].
        split; [intros j u; rewrite B; apply Hstep|]. split; [|exact D].
        cbn [lstarts flat_map app length] in C. fold (lstarts lg) in C. cbn [length]. lia. }
      assert (Hstop : (rest, rs ++ [mkRun i t a], EStart i t :: lg, Some (mkRun i t a)) = (p', rs', lg', ready) ->
                ldones lg' = ldones lg
                /\ (forall j u, InV' t p' lg' j u <-> InV' t ((i, a) :: rest) lg j u)
                /\ (length (lstarts lg') + length p' = length (lstarts lg) + length ((i, a) :: rest))%nat
                /\ (ready = None -> p' = [])).
      { intros E'. injection E' as <- <- <- <-. split; [reflexivity|]. split; [exact Hstep|].
        split; [|discriminate]. cbn [lstarts flat_map app length]. fold (lstarts lg). lia. }
      destruct (a_out a); [destruct (N.eqb (a_lat a) 0)|destruct (N.eqb (a_lat a) 0)|]; auto.
  Qed.
  (* ---------- frame of one await ---------- *)
  Definition FrameCore (s : st) (t : N) (p : list (nat * attempt)) (lg : list ev) : Prop :=
    ldones lg = ldones (log s)
    /\ (forall j u, InV' t p lg j u <-> InV s j u)
    /\ (length (lstarts lg) + length p = nstarted s + length (pend s))%nat.

  Definition Frame (lim : option N) (s : st) (w : waited) : Prop :=
    match w with
    | WCompleted r s' =>
        exists lgm, log s' = EDone (r_idx r) (now s') :: lgm /\ FrameCore s (now s') (pend s') lgm
                    /\ (forall l, lim = Some l -> now s' <= l)
    | WExhausted s' => now s' = now s /\ FrameCore s (now s') (pend s') (log s')
    | WStagger s' => FrameCore s (now s') (pend s') (log s')
    | WDeadline lg =>
        FrameCore s 0 [] lg /\ (forall l dto, lim = Some l -> c_timeout c = Some dto -> dto < l)
    | WHang lg => FrameCore s 0 [] lg /\ lim = None
    end.

  Lemma InV'_nil t t' lg j u : InV' t [] lg j u <-> InV' t' [] lg j u.
  Proof. unfold InV'. split; intros [H|[_ [a []]]]; auto. Qed.

  Lemma FrameCore_nil s t t' lg : FrameCore s t [] lg -> FrameCore s t' [] lg.
  Proof.
    intros (A & B & C). split; [exact A|]. split; [|exact C].
    intros j u. rewrite <- B. apply InV'_nil.
  Qed.

  Lemma FrameCore_internal s t p lg e :
    observable e = false -> FrameCore s t p lg -> FrameCore s t p (e :: lg).
  Proof.
    intros He (A & B & C). unfold FrameCore, InV'.
    destruct e; try discriminate; cbn [lstarts ldones flat_map app]; fold (lstarts lg); fold (ldones lg); auto.
  Qed.

  Lemma await_frame lim s :
    (forall l, lim = Some l -> now s <= l) -> Frame lim s (await_next c tb lim s).
  Proof.
    intros Hlim. unfold await_next.
    assert (Hself : FrameCore s (now s) (pend s) (log s)).
    { split; [reflexivity|]. split; [intros; reflexivity|reflexivity]. }
    destruct (pick_due tb (now s) (running s)) as [r|] eqn:Hpick.
    - unfold completed, Frame. cbn [log now pend]. exists (log s). auto.
    - destruct (poll_pend (now s) (pend s) (running s) (log s)) as [[[p' rs'] lg'] ready] eqn:Ep.
      destruct (poll_frame _ _ _ _ _ _ _ _ Ep) as (A & B & C & D).
      assert (Hcore : FrameCore s (now s) p' lg') by (split; [exact A|]; split; [exact B|exact C]).
      destruct ready as [r|].
      + unfold completed, Frame. cbn [log now pend]. exists lg'. auto.
      + specialize (D eq_refl). subst p'.
        destruct rs' as [|r0 rs0].
        * cbn [Frame now pend log]. split; [reflexivity|]. apply FrameCore_internal; auto.
        * cbv iota. set (rs' := r0 :: rs0) in *.
          assert (Hcompl : forall t, min_finish rs' = Some t -> (forall l, lim = Some l -> t <= l) ->
                    Frame lim s (if past_deadline c t then WDeadline lg'
                                 else match pick_due tb t rs' with
                                      | Some r => completed r t [] (remove_run (r_idx r) rs') (err s) lg'
                                      | None => WHang lg'
                                      end)).
          { intros t Hmin Htl. destruct (past_deadline c t) eqn:Hpd.
            - cbn [Frame]. split; [eapply FrameCore_nil; eauto|].
              intros l dto El Ed. destruct (past_deadline_true c t Hpd) as (d' & Ed' & Hlt).
              specialize (Htl l El). assert (d' = dto) by congruence. lia.
            - destruct (pick_due tb t rs') as [r|] eqn:Hp2.
              + unfold completed, Frame. cbn [log now pend]. exists lg'.
                split; [reflexivity|]. split; [eapply FrameCore_nil; eauto|exact Htl].
              + exfalso. destruct (min_finish_some _ _ Hmin) as [(rmin & Hrin & Hrf) _].
                pose proof (pick_due_none _ _ _ Hp2 rmin Hrin) as Hnd.
                assert (due t rmin = true) by (apply due_iff; exists t; split; [auto|lia]). congruence. }
          assert (Hstag : forall l, lim = Some l ->
                    Frame lim s (if past_deadline c l then WDeadline lg'
                                 else WStagger (mkSt l [] rs' (err s) (ETick l :: lg')))).
          { intros l El. destruct (past_deadline c l) eqn:Hpd.
            - cbn [Frame]. split; [eapply FrameCore_nil; eauto|].
              intros l' dto El' Ed. destruct (past_deadline_true c l Hpd) as (d' & Ed' & Hlt).
              assert (l' = l) by congruence. assert (d' = dto) by congruence. lia.
            - cbn [Frame now pend log]. apply FrameCore_internal; [reflexivity|].
              eapply FrameCore_nil; eauto. }
          destruct (min_finish rs') as [t|] eqn:Hmin, lim as [l|] eqn:El.
          -- destruct (N.leb_spec t l) as [Htl|Htl].
             ++ apply Hcompl; [reflexivity|]. intros l' E'. injection E' as <-. exact Htl.
             ++ apply (Hstag l eq_refl).
          -- apply Hcompl; [reflexivity|discriminate].
          -- apply (Hstag l eq_refl).
          -- destruct (c_timeout c) as [d|] eqn:Hto; cbn [Frame].
             ++ split; [eapply FrameCore_nil; eauto|discriminate].
             ++ split; [eapply FrameCore_nil; eauto|reflexivity].
  Qed.
  (* one await reports a hang only if some attempt never completes *)
  Lemma await_hang lim s lg :
    Inv c atts s -> await_next c tb lim s = WHang lg ->
    exists i a, nth_error atts i = Some a /\ a_out a = Never.
  Proof.
    intros H. unfold await_next.
    destruct (pick_due tb (now s) (running s)) as [r|] eqn:Hpick; [unfold completed; discriminate|].
    pose proof (polled_spec c atts (pend s) s eq_refl H) as Hpoll. unfold polled_post, polled in Hpoll.
    destruct (poll_pend (now s) (pend s) (running s) (log s)) as [[[p' rs'] lg'] ready].
    destruct Hpoll as (Hm & _).
    destruct ready as [r|]; [unfold completed; discriminate|].
    destruct rs' as [|r0 rs0]; [discriminate|]. cbv iota. set (rs' := r0 :: rs0) in *. cbv zeta beta.
    assert (Hnever : min_finish rs' = None -> exists i a, nth_error atts i = Some a /\ a_out a = Never).
    { intros Hmin. pose proof (min_finish_none _ Hmin r0 (or_introl eq_refl)) as Hf.
      destruct (i_run c atts _ Hm r0) as (Hatt & _); [cbn [running]; left; reflexivity|].
      exists (r_idx r0), (r_att r0). split; [exact Hatt|]. unfold finish_of in Hf.
      destruct (a_out (r_att r0)); [discriminate|discriminate|reflexivity]. }
    assert (Hcompl : forall t, min_finish rs' = Some t ->
              (if past_deadline c t then WDeadline lg'
               else match pick_due tb t rs' with
                    | Some r => completed r t p' (remove_run (r_idx r) rs') (err s) lg'
                    | None => WHang lg'
                    end) = WHang lg -> False).
    { intros t Hmin. destruct (past_deadline c t); [discriminate|].
      destruct (pick_due tb t rs') as [r|] eqn:Hp2; [unfold completed; discriminate|]. intros _.
      destruct (min_finish_some _ _ Hmin) as [(rmin & Hrin & Hrf) _].
      pose proof (pick_due_none _ _ _ Hp2 rmin Hrin) as Hnd.
      assert (due t rmin = true) by (apply due_iff; exists t; split; [auto|lia]). congruence. }
    destruct (min_finish rs') as [t|] eqn:Hmin, lim as [l|].
    - destruct (N.leb t l).
      + intros E. destruct (Hcompl t eq_refl E).
      + destruct (past_deadline c l); discriminate.
    - intros E. destruct (Hcompl t eq_refl E).
    - destruct (past_deadline c l); discriminate.
    - intros _. apply Hnever. reflexivity.
  Qed.

  (* an await that ends in the deadline or in a hang has polled at least one attempt *)
  Lemma await_stuck lim s lg :
    Inv c atts s -> await_next c tb lim s = WDeadline lg \/ await_next c tb lim s = WHang lg ->
    lstarts lg <> [].
  Proof.
    intros H. unfold await_next.
    destruct (pick_due tb (now s) (running s)) as [r|] eqn:Hpick; [unfold completed; intros [E|E]; discriminate E|].
    pose proof (polled_spec c atts (pend s) s eq_refl H) as Hpoll. unfold polled_post, polled in Hpoll.
    destruct (poll_pend (now s) (pend s) (running s) (log s)) as [[[p' rs'] lg'] ready].
    destruct Hpoll as (Hm & _).
    destruct ready as [r|]; [unfold completed; intros [E|E]; discriminate E|].
    destruct rs' as [|r0 rs0]; [intros [E|E]; discriminate E|]. cbv iota.
    assert (Hne : lstarts lg' <> []).
    { destruct (i_run c atts _ Hm r0) as (_ & Hst & _); [cbn [running]; left; reflexivity|].
      cbn [log] in Hst. intros E0. rewrite E0 in Hst. destruct Hst. }
    cbv zeta beta.
    assert (Hres : forall w : waited,
              match w with WDeadline l | WHang l => l = lg' | _ => True end ->
              w = WDeadline lg \/ w = WHang lg -> lstarts lg <> []).
    { intros w Hw [E|E]; subst w; cbn in Hw; subst lg; exact Hne. }
    destruct (min_finish (r0 :: rs0)) as [t|], lim as [l|]; apply Hres;
      repeat match goal with
             | |- context [if ?b then _ else _] => destruct b
             | |- context [match pick_due ?a ?b ?c with _ => _ end] => destruct (pick_due a b c)
             | |- context [match c_timeout c with _ => _ end] => destruct (c_timeout c)
             end; unfold completed; cbn; auto.
  Qed.

  (* ---------- what the final log must satisfy ---------- *)
  Definition VL (lg : list ev) (p : nat) (w : N) : Prop := In (p, w) (lstarts lg).

  Definition PaceLog (lg : list ev) : Prop :=
    forall j t, In (j, t) (lstarts lg) -> (m <= j)%nat -> PaceOK (VL lg) (ldones lg) j t.

  Definition UnstOK (lg : list ev) (td : option N) : Prop :=
    exists w, WB (VL lg) (length (lstarts lg)) w /\
      match td with
      | Some t => Bounded w t /\ NoFailBetween (ldones lg) (length (lstarts lg)) w t
      | None => c_delay c = None
      end.

  Definition Unstarted (res : result) (td : option N) (lg : list ev) : Prop :=
    (length (lstarts lg) < length atts)%nat ->
    ((length (lstarts lg) < m)%nat -> (exists i, res = ROk i) /\ td = Some 0)
    /\ ((m <= length (lstarts lg))%nat -> UnstOK lg td).

  (* a hang needs an attempt that never completes *)
  Definition HangNever (res : result) : Prop :=
    res = RHang -> exists i a, nth_error atts i = Some a /\ a_out a = Never.

  (* a timeout with a candidate not started: the deadline lies strictly before the stagger timer *)
  Definition TimeoutStrict (res : result) (td : option N) (lg : list ev) : Prop :=
    res = RTimeout -> (length (lstarts lg) < length atts)%nat ->
    exists w, WB (VL lg) (length (lstarts lg)) w /\
              forall d T, c_delay c = Some d -> td = Some T -> T < w + d.

  (* unless there is no candidate at all, the run polls at least one *)
  Definition SomeStart (lg : list ev) : Prop := atts <> [] -> lstarts lg <> [].

  Definition Post (x : result * option N * list ev) : Prop :=
    FinalT c atts x /\ PaceLog (snd x) /\ Unstarted (fst (fst x)) (snd (fst x)) (snd x)
    /\ HangNever (fst (fst x)) /\ TimeoutStrict (fst (fst x)) (snd (fst x)) (snd x)
    /\ SomeStart (snd x).

  Lemma WB_started s j w : Inv c atts s -> (j <= nstarted s)%nat -> WB (InV s) j w -> WB (VL (log s)) j w.
  Proof.
    intros H Hj. destruct j as [|p]; cbn [WB]; [auto|]. intros Hw. apply InV_started; auto.
  Qed.

  Lemma Pace_log s : Inv c atts s -> Pace s -> PaceLog (log s).
  Proof.
    intros H HP j t Hj Hm. pose proof (started_lt c atts s j t H Hj) as Hlt.
    destruct (HP j t (or_introl Hj) Hm) as (w & A & B). exists w. split; [|exact B].
    apply WB_started; auto. lia.
  Qed.

  Lemma PaceLog_done sm i : Inv c atts sm -> PaceLog (log sm) -> PaceLog (EDone i (now sm) :: log sm).
  Proof.
    intros H HP j t Hj Hm. change (In (j, t) (lstarts (log sm))) in Hj.
    apply (PaceOK_mono (VL (log sm)) _ (ldones (log sm)) _ j t); auto.
    - intros x Hx. right; exact Hx.
    - intros k dd [Hk|Hk]; [|left; exact Hk]. injection Hk as <- <-. right.
      apply (i_started c atts sm H j t Hj).
  Qed.

  Lemma UnstOK_done lg i t : UnstOK lg (Some t) -> UnstOK (EDone i t :: lg) (Some t).
  Proof.
    intros (w & A & B & C). exists w. split; [exact A|]. split; [exact B|].
    intros k dd Hk [Hin|Hin]; [injection Hin as <- <-; lia|]. apply (C k dd Hk Hin).
  Qed.

  Lemma pend_head s : Inv c atts s -> pend s <> [] -> exists a, In (nstarted s, a) (pend s).
  Proof.
    intros H Hne. pose proof (i_pend c atts s H) as Hw.
    destruct (pend s) as [|[i a] l]; [congruence|]. cbn [wfq] in Hw. destruct Hw as (-> & _).
    exists a. left; reflexivity.
  Qed.

  (* the next candidate is queued: its virtual start is now *)
  Lemma Unst_pend sm :
    Inv c atts sm -> Pace sm -> (m <= nstarted sm)%nat -> pend sm <> [] -> UnstOK (log sm) (Some (now sm)).
  Proof.
    intros H HP Hm Hne. destruct (pend_head sm H Hne) as [a Ha].
    assert (HV : InV sm (nstarted sm) (now sm)) by (right; split; eauto).
    destruct (HP _ _ HV Hm) as (w & A & B & C & D & E & _).
    exists w. split; [apply WB_started; auto|]. split; [exact D|exact E].
  Qed.

  Lemma WB_wait s tm lg :
    WB (InV s) (nstarted s + length (pend s)) (now s) -> FrameCore s tm [] lg ->
    WB (VL lg) (length (lstarts lg)) (now s).
  Proof.
    intros HW (A & B & C). cbn [length] in C. rewrite Nat.add_0_r in C. rewrite C.
    destruct (nstarted s + length (pend s))%nat as [|p]; cbn [WB] in *; [exact HW|].
    apply B in HW. destruct HW as [HW|[_ [a []]]]. exact HW.
  Qed.

  (* the next candidate is not queued yet: the run ends during the wait that began at [now s] *)
  Lemma Unst_wait s tm lg td :
    Inv c atts s -> WB (InV s) (nstarted s + length (pend s)) (now s) -> FrameCore s tm [] lg ->
    match td with Some t => Bounded (now s) t | None => c_delay c = None end ->
    UnstOK lg td.
  Proof.
    intros H HW (A & B & C) Htd. cbn [length] in C. rewrite Nat.add_0_r in C.
    exists (now s). rewrite C. split.
    - destruct (nstarted s + length (pend s))%nat as [|p]; cbn [WB] in *; [exact HW|].
      apply B in HW. destruct HW as [HW|[_ [a []]]]. exact HW.
    - destruct td as [t|]; [|exact Htd]. split; [exact Htd|].
      intros i dd _ Hin. rewrite A in Hin. pose proof (proj1 (i_dones c atts s H i dd Hin)). lia.
  Qed.
  (* ---------- a success ends the run ---------- *)
  Lemma ok_post sm r :
    Inv c atts sm -> Pace sm -> In r (running sm) -> finish_of r = Some (now sm) ->
    a_out (r_att r) = Succ -> (m <= nstarted sm + length (pend sm))%nat ->
    (pend sm = [] -> (nstarted sm < length atts)%nat -> UnstOK (log sm) (Some (now sm))) ->
    Post (ROk (r_idx r), Some (now sm), EDone (r_idx r) (now sm) :: log sm).
  Proof.
    intros H HP Hin Hf Hout Hm Hwait. split; [|split; [|split; [|split; [|split]]]].
    4:{ cbn [fst snd]. intros E. discriminate E. }
    4:{ cbn [fst snd]. intros E. discriminate E. }
    4:{ cbn [snd]. intros _ E0. destruct (i_run c atts sm H r Hin) as (_ & Hst & _).
        change (lstarts (EDone (r_idx r) (now sm) :: log sm)) with (lstarts (log sm)) in E0.
        rewrite E0 in Hst. destruct Hst. }
    - unfold FinalT. cbn [fst snd]. apply F_ok; auto.
    - cbn [snd]. apply PaceLog_done; auto. apply Pace_log; auto.
    - cbn [fst snd]. intros Hk. change (lstarts (EDone (r_idx r) (now sm) :: log sm)) with (lstarts (log sm)) in *.
      fold (nstarted sm) in *. split.
      + intros Hlt. split; [eauto|]. f_equal.
        assert (Hne : pend sm <> []) by (destruct (pend sm); cbn [length] in Hm; [lia|discriminate]).
        destruct (pend_head sm H Hne) as [a Ha]. apply (i_init_pend c atts sm H _ _ Ha). exact Hlt.
      + intros Hge. apply UnstOK_done.
        destruct (pend sm) as [|x l] eqn:Ep; [apply Hwait; auto|].
        apply Unst_pend; auto. rewrite Ep. discriminate.
  Qed.

  (* ---------- the three triggers of a later start ---------- *)
  Lemma dones_le s i dd : Inv c atts s -> In (i, dd) (ldones (log s)) -> dd <= now s.
  Proof. intros H Hin. apply (i_dones c atts s H i dd Hin). Qed.

  (* the wait began at [w] in state s (all completions so far are <= w); it ends at [t >= w] with
     the dones D' = D or D plus one completion at t *)
  Lemma NoFail_new s D' j t :
    Inv c atts s -> (forall i dd, In (i, dd) D' -> In (i, dd) (ldones (log s)) \/ dd = t) ->
    NoFailBetween D' j (now s) t.
  Proof.
    intros H HD i dd _ Hin. destruct (HD i dd Hin) as [G| ->]; [|lia].
    pose proof (dones_le s i dd H G). lia.
  Qed.
  Lemma wait_le s s' j :
    Inv c atts s' -> WB (InV s) j (now s) -> (forall p u, InV s p u -> InV s' p u) -> now s <= now s'.
  Proof.
    intros H HW HV. destruct j as [|p]; cbn [WB] in HW; [lia|]. eapply InV_le; eauto.
  Qed.

  Lemma Pace_frame s s' :
    FrameCore s (now s') (pend s') (log s') -> Pace s -> Pace s'.
  Proof. intros (A & B & _). apply Pace_equiv; auto. Qed.

  Lemma FrameCore_st s sm t : pend sm = [] -> FrameCore s t [] (log sm) -> FrameCore s (now sm) (pend sm) (log sm).
  Proof. intros -> HF. eapply FrameCore_nil; eauto. Qed.

  Definition P2post (x : result * option N * list ev + st) : Prop :=
    match x with
    | inl x => Post x
    | inr s2 => Inv c atts s2 /\ Pace s2 /\ (nstarted s2 + length (pend s2) = length atts)%nat
    end.

  (* pushing candidate i after a wait that began at [now s] and ended in state s' *)
  Lemma push_step s s' i a :
    Inv c atts s -> WB (InV s) i (now s) -> (m <= i)%nat -> nth_error atts i = Some a ->
    Inv c atts s' -> Pace s' -> (nstarted s' + length (pend s') = i)%nat ->
    (forall p u, InV s p u -> InV s' p u) ->
    Trigger (ldones (log s')) i (now s) (now s') -> Bounded (now s) (now s') ->
    (forall k dd, In (k, dd) (ldones (log s')) -> In (k, dd) (ldones (log s)) \/ dd = now s') ->
    let s2 := push (i, a) s' in
    Inv c atts s2 /\ Pace s2 /\ (nstarted s2 + length (pend s2) = S i)%nat
    /\ WB (InV s2) (S i) (now s2).
  Proof.
    intros H HW Hm Ha H' HP' E' HV HT HB HD s2. subst s2.
    split; [apply push_inv; auto; intros; lia|]. split; [|split].
    - apply Pace_push; auto. intros _. exists (now s).
      split; [eapply WB_mono; [|exact HW]; intros; apply InV_push; auto|].
      split; [eapply wait_le; eauto|]. split; [exact HT|]. split; [exact HB|].
      split; [apply (NoFail_new s _ i (now s')); auto|].
      intros ->. apply (i_zero c atts s' H'). lia.
    - unfold push, nstarted. cbn [pend log lstarts flat_map app]. fold (lstarts (log s')). fold (nstarted s').
      rewrite app_length. cbn [length]. lia.
    - exact (InV_push_new s' i a).
  Qed.
  Lemma phase2_pace : forall queue s,
    Inv c atts s -> Pace s -> wfq atts (nstarted s + length (pend s)) queue ->
    (nstarted s + length (pend s) + length queue = length atts)%nat ->
    (m <= nstarted s + length (pend s))%nat ->
    WB (InV s) (nstarted s + length (pend s)) (now s) ->
    P2post (phase2 c tb queue s).
  Proof.
    induction queue as [|[i a] rest IH]; intros s H HP Hw Hcnt Hm HW; cbn [phase2].
    - cbn [length] in Hcnt. split; [exact H|]. split; [exact HP|lia].
    - cbn [wfq] in Hw. destruct Hw as (Hi & Ha & Hw). cbn [length] in Hcnt.
      rewrite <- Hi in Hw, Hcnt, Hm, HW.
      set (lim := match c_delay c with Some d => Some (now s + d) | None => None end).
      assert (Hlim : forall l, lim = Some l -> now s <= l).
      { unfold lim. destruct (c_delay c); intros l E; inversion E; lia. }
      assert (Hbound : forall t, (forall l, lim = Some l -> t <= l) -> Bounded (now s) t).
      { intros t Ht d Ed. apply Ht. unfold lim. rewrite Ed. reflexivity. }
      assert (Hnext : forall s', Inv c atts s' -> Pace s' -> (nstarted s' + length (pend s') = i)%nat ->
                (forall p u, InV s p u -> InV s' p u) ->
                Trigger (ldones (log s')) i (now s) (now s') -> Bounded (now s) (now s') ->
                (forall k dd, In (k, dd) (ldones (log s')) -> In (k, dd) (ldones (log s)) \/ dd = now s') ->
                P2post (phase2 c tb rest (push (i, a) s'))).
      { intros s' H' HP' E' HV HT HB HD.
        destruct (push_step s s' i a H HW Hm Ha H' HP' E' HV HT HB HD) as (A & B & C & D).
        apply IH; auto; rewrite C; auto. lia. }
      pose proof (await_next_spec c atts tb lim s H Hlim) as HA.
      pose proof (await_frame lim s Hlim) as HFr.
      pose proof (fun lg => await_hang lim s lg H) as HH.
      pose proof (fun lg => await_stuck lim s lg H) as HS. revert HA HFr HH HS.
      generalize (await_next c tb lim s). intros w HA HFr HH HS.
      destruct HA as [sm r Hsm Hin Hf Hc Hl|s' Hs' Hp' Hr' Hp Hr Hn Hnow|s' l El Hs' Hp' Hnow Hn
                     |sm d Hsm Hp' Hd Hall|sm Hsm Hp' Hd Hall].
      + unfold completed, Frame in HFr. cbn [log now pend] in HFr.
        destruct HFr as (lgm & E & Hcore & Hle). injection E as <-.
        assert (HPm : Pace sm) by (apply (Pace_frame s sm); auto).
        unfold completed. cbv iota beta.
        destruct (a_out (r_att r)) eqn:Hout.
        * cbn [now log P2post]. apply ok_post; auto; [lia|].
          intros Ep _. rewrite Ep in Hcore. apply (Unst_wait s (now sm) (log sm) (Some (now sm))); auto.
          rewrite <- Hi. exact HW.
        * destruct (i_run c atts sm Hsm r Hin) as (Hatt & Hst & _).
          pose proof (started_lt c atts sm _ _ Hsm Hst) as Hlt.
          apply Hnext.
          -- apply complete_fail; auto.
          -- apply Pace_done; auto.
          -- unfold nstarted. cbn [log pend lstarts flat_map app]. fold (lstarts (log sm)). fold (nstarted sm). lia.
          -- intros p u Hpu. apply (proj1 (proj2 Hcore)) in Hpu. exact Hpu.
          -- right; left. exists (r_idx r), (r_att r). cbn [now log ldones flat_map app].
             split; [lia|]. split; [left; reflexivity|auto].
          -- apply Hbound. exact Hle.
          -- cbn [now log ldones flat_map app]. fold (ldones (log sm)). rewrite (proj1 Hcore).
             intros k dd [Hk|Hk]; [injection Hk as <- <-; right; reflexivity|left; exact Hk].
        * exfalso. apply (finish_never r _ Hf). exact Hout.
      + cbn [Frame] in HFr. destruct HFr as (Hn' & Hcore).
        apply Hnext; auto.
        -- apply (Pace_frame s s'); auto.
        -- rewrite Hp', Hn. rewrite Hp in Hi. cbn [length] in *. lia.
        -- intros p u Hpu. apply (proj1 (proj2 Hcore)) in Hpu. exact Hpu.
        -- right; right. split; [exact Hn'|]. intros k Hk.
           assert (Hk' : (k < nstarted s')%nat) by (rewrite Hn; rewrite Hp in Hi; cbn [length] in Hi; lia).
           destruct (started_has s' k Hs' Hk') as [ts Hts].
           destruct (i_started c atts s' Hs' k ts Hts) as [_ [[r0 (A & _)]|(a0 & _ & _ & A)]].
           ++ rewrite Hr' in A. destruct A.
           ++ exists (ts + a_lat a0). split; [exact A|]. eapply dones_le; eauto.
        -- rewrite Hn'. intros d _. lia.
        -- rewrite (proj1 Hcore). auto.
      + cbn [Frame] in HFr. rename HFr into Hcore.
        apply Hnext; auto.
        -- apply (Pace_frame s s'); auto.
        -- rewrite Hp', Hn. cbn [length]. lia.
        -- intros p u Hpu. apply (proj1 (proj2 Hcore)) in Hpu. exact Hpu.
        -- left. unfold lim in El. destruct (c_delay c) as [d|]; [|discriminate].
           exists d. split; [reflexivity|]. injection El as El. lia.
        -- apply Hbound. intros l' El'. assert (l' = l) by congruence. lia.
        -- rewrite (proj1 Hcore). auto.
      + cbn [Frame] in HFr. destruct HFr as (Hcore & Hdl).
        assert (HPm : Pace sm) by (apply (Pace_frame s sm); auto; apply (FrameCore_st s sm 0); auto).
        unfold deadline_time. rewrite Hd. cbn [P2post]. split; [|split; [|split; [|split; [|split]]]]; cbn [fst snd].
        4:{ intros E. discriminate E. }
        4:{ intros _ Hk. exists (now s). split; [apply (WB_wait s 0); auto; rewrite <- Hi; exact HW|].
            intros d0 T Ed ET. injection ET as <-.
            apply (Hdl (now s + d0) d); [unfold lim; rewrite Ed; reflexivity|exact Hd]. }
        4:{ intros _. apply (HS (log sm)). left; reflexivity. }
        * unfold FinalT. cbn [fst snd]. apply F_deadline; auto.
        * apply Pace_log; auto.
        * intros Hk. pose proof (proj2 (proj2 Hcore)) as Hc. cbn [length] in Hc. split; [intros; lia|].
          intros _. apply (Unst_wait s 0 (log sm) (Some d)); auto; [rewrite <- Hi; exact HW|].
          apply Hbound. intros l El. specialize (Hdl l d El Hd). lia.
      + cbn [Frame] in HFr. destruct HFr as (Hcore & Hnl).
        assert (HPm : Pace sm) by (apply (Pace_frame s sm); auto; apply (FrameCore_st s sm 0); auto).
        cbn [P2post]. split; [|split; [|split; [|split; [|split]]]]; cbn [fst snd].
        4:{ intros _. apply (HH (log sm) eq_refl). }
        4:{ intros E. discriminate E. }
        4:{ intros _. apply (HS (log sm)). right; reflexivity. }
        * unfold FinalT. cbn [fst snd]. apply F_hang; auto.
        * apply Pace_log; auto.
        * intros Hk. pose proof (proj2 (proj2 Hcore)) as Hc. cbn [length] in Hc. split; [intros; lia|].
          intros _. apply (Unst_wait s 0 (log sm) None); auto; [rewrite <- Hi; exact HW|].
          unfold lim in Hnl. destruct (c_delay c); [discriminate|reflexivity].
  Qed.
  Lemma phase3_pace : forall fuel s,
    Inv c atts s -> Pace s -> (nstarted s + length (pend s) = length atts)%nat ->
    (length (pend s) + length (running s) < fuel)%nat ->
    Post (phase3 fuel c tb s).
  Proof.
    induction fuel as [|fuel IH]; intros s H HP Hcnt Hfuel; [lia|]. cbn [phase3].
    assert (Hlim : forall l, @None N = Some l -> now s <= l) by discriminate.
    pose proof (await_next_spec c atts tb None s H Hlim) as HA.
    pose proof (await_frame None s Hlim) as HFr.
    pose proof (fun lg => await_hang None s lg H) as HH.
    pose proof (fun lg => await_stuck None s lg H) as HS. revert HA HFr HH HS.
    generalize (await_next c tb None s). intros w HA HFr HH HS.
    pose proof (m_le c atts) as Hmle. fold m in Hmle.
    destruct HA as [sm r Hsm Hin Hf Hc Hl|s' Hs' Hp' Hr' Hp Hr Hn Hnow|s' l El Hs' Hp' Hnow Hn
                   |sm d Hsm Hp' Hd Hall|sm Hsm Hp' Hd Hall].
    - unfold completed, Frame in HFr. cbn [log now pend] in HFr.
      destruct HFr as (lgm & E & Hcore & Hle). injection E as <-.
      assert (HPm : Pace sm) by (apply (Pace_frame s sm); auto).
      unfold completed. cbv iota beta.
      destruct (a_out (r_att r)) eqn:Hout.
      + cbn [now log]. apply ok_post; auto; [lia|].
        intros Ep Hlt. rewrite Ep in Hc. cbn [length] in Hc. lia.
      + apply IH.
        * apply complete_fail; auto.
        * apply Pace_done; auto.
        * unfold nstarted. cbn [log pend lstarts flat_map app]. fold (lstarts (log sm)). fold (nstarted sm). lia.
        * cbn [pend running]. pose proof (remove_run_length r _ Hin). lia.
      + exfalso. apply (finish_never r _ Hf). exact Hout.
    - cbn [Frame] in HFr. destruct HFr as (Hn' & Hcore).
      split; [|split; [|split; [|split; [|split]]]]; cbn [fst snd].
      4:{ intros E. destruct (err s'); discriminate E. }
      4:{ intros E. destruct (err s'); discriminate E. }
      4:{ intros Hne E0. apply Hne. apply length_zero_iff_nil.
          assert (Hz0 : nstarted s' = 0%nat) by (unfold nstarted; rewrite E0; reflexivity).
          rewrite Hp in Hcnt. cbn [length] in Hcnt. lia. }
      + unfold FinalT. cbn [fst snd]. apply F_exh; auto. rewrite Hn. rewrite Hp in Hcnt. cbn [length] in Hcnt. lia.
      + apply Pace_log; auto. apply (Pace_frame s s'); auto.
      + intros Hk. fold (nstarted s') in Hk. rewrite Hn in Hk. rewrite Hp in Hcnt. cbn [length] in Hcnt. lia.
    - discriminate.
    - cbn [Frame] in HFr. destruct HFr as (Hcore & _).
      assert (HPm : Pace sm) by (apply (Pace_frame s sm); auto; apply (FrameCore_st s sm 0); auto).
      unfold deadline_time. rewrite Hd. split; [|split; [|split; [|split; [|split]]]]; cbn [fst snd].
      4:{ intros E. discriminate E. }
      4:{ intros _ Hk. pose proof (proj2 (proj2 Hcore)) as Hc. cbn [length] in Hc. lia. }
      4:{ intros _. apply (HS (log sm)). left; reflexivity. }
      + unfold FinalT. cbn [fst snd]. apply F_deadline; auto.
      + apply Pace_log; auto.
      + intros Hk. pose proof (proj2 (proj2 Hcore)) as Hc. cbn [length] in Hc. lia.
    - cbn [Frame] in HFr. destruct HFr as (Hcore & _).
      assert (HPm : Pace sm) by (apply (Pace_frame s sm); auto; apply (FrameCore_st s sm 0); auto).
      split; [|split; [|split; [|split; [|split]]]]; cbn [fst snd].
      4:{ intros _. apply (HH (log sm) eq_refl). }
      4:{ intros E. discriminate E. }
      4:{ intros _. apply (HS (log sm)). right; reflexivity. }
      + unfold FinalT. cbn [fst snd]. apply F_hang; auto.
      + apply Pace_log; auto.
      + intros Hk. pose proof (proj2 (proj2 Hcore)) as Hc. cbn [length] in Hc. lia.
  Qed.
  Lemma Pace_init : Pace init_st.
  Proof. intros j t Hj. unfold InV, InV' in Hj. cbn in Hj. destruct Hj as [[]|[_ [a []]]]. Qed.

  Lemma fold_push_pace : forall l s,
    Inv c atts s -> Pace s -> now s = 0 -> wfq atts (nstarted s + length (pend s)) l ->
    (nstarted s + length (pend s) + length l <= m)%nat ->
    let s' := fold_left (fun s x => push x s) l s in
    Inv c atts s' /\ Pace s' /\ nstarted s' = nstarted s
    /\ length (pend s') = (length (pend s) + length l)%nat /\ now s' = 0
    /\ (forall p u, InV s p u -> InV s' p u)
    /\ (forall i a, In (i, a) l -> InV s' i 0).
  Proof.
    induction l as [|[i a] t IH]; intros s H HP Hz Hw Hle; cbn [fold_left].
    - cbn [length]. split; [exact H|]. split; [exact HP|]. split; [reflexivity|]. split; [lia|].
      split; [exact Hz|]. split; [auto|]. intros i a [].
    - cbn [wfq] in Hw. destruct Hw as (Hi & Ha & Hw). cbn [length] in Hle.
      rewrite <- Hi in Hw, Hle.
      assert (Hp : Inv c atts (push (i, a) s)) by (apply push_inv; auto).
      assert (HPp : Pace (push (i, a) s)) by (apply Pace_push; auto; intros; lia).
      assert (Hc : (nstarted (push (i, a) s) + length (pend (push (i, a) s)) = S i)%nat).
      { unfold push, nstarted. cbn [pend log lstarts flat_map app]. fold (lstarts (log s)). fold (nstarted s).
        rewrite app_length. cbn [length]. lia. }
      specialize (IH (push (i, a) s) Hp HPp Hz). rewrite Hc in IH.
      destruct (IH Hw ltac:(lia)) as (A & B & C & D & E & F & G).
      split; [exact A|]. split; [exact B|]. split; [exact C|]. split; [|split; [exact E|split]].
      + rewrite D. unfold push. cbn [pend length]. rewrite app_length. cbn [length]. lia.
      + intros p u Hpu. apply F. apply InV_push. exact Hpu.
      + intros j b [Hin|Hin]; [|eauto]. injection Hin as <- <-. apply F.
        rewrite <- Hz. exact (InV_push_new s i a).
  Qed.

  Theorem he_run_post : Post (he_run c tb atts).
  Proof.
    unfold he_run. fold m.
    set (q := index_from 0 atts).
    assert (Hq : wfq atts 0 q) by (apply (wfq_index_from c atts [] atts); reflexivity).
    assert (Hlq : length q = length atts) by apply index_from_length.
    rewrite <- (firstn_skipn m q) in Hq. apply (wfq_app c) in Hq. destruct Hq as [Hq1 Hq2].
    pose proof (m_le c atts) as Hmle. fold m in Hmle.
    assert (Hlf : length (firstn m q) = m) by (rewrite firstn_length; lia).
    rewrite Hlf in Hq2. cbn [Nat.add] in Hq2.
    destruct (fold_push_pace (firstn m q) init_st (Inv_init c atts) Pace_init eq_refl Hq1)
      as (H1 & HP1 & Hn1 & Hl1 & Hz1 & _ & HV1).
    { change (nstarted init_st) with 0%nat. cbn [pend init_st length Nat.add]. lia. }
    set (s1 := fold_left (fun s x => push x s) (firstn m q) init_st) in *.
    cbn [pend init_st length Nat.add] in Hl1. change (nstarted init_st) with 0%nat in Hn1.
    assert (Hsk : length (skipn m q) = (length atts - m)%nat) by (rewrite skipn_length; lia).
    pose proof (phase2_pace (skipn m q) s1 H1 HP1) as P2.
    rewrite Hn1, Hl1, Hlf in P2. cbn [Nat.add] in P2.
    specialize (P2 Hq2). rewrite Hsk in P2. specialize (P2 ltac:(lia) ltac:(lia)).
    assert (HW : WB (InV s1) m (now s1)).
    { rewrite Hz1. destruct m as [|p] eqn:Em; cbn [WB]; [reflexivity|].
      destruct (wfq_has 0 (firstn (S p) q) p Hq1 ltac:(lia)) as [a Ha]. eauto. }
    specialize (P2 HW). unfold P2post in P2.
    destruct (phase2 c tb (skipn m q) s1) as [x|s2]; [exact P2|].
    destruct P2 as (H2 & HP2 & Hc2). apply phase3_pace; auto.
  Qed.
  (* ---------- from the final log to the monitor clauses ---------- *)
  Lemma final_res res td lg :
    Final c atts res td lg -> (length (lstarts lg) < length atts)%nat ->
    match res with RErr _ | RNoProgress | RFuel => False | _ => True end.
  Proof.
    intros HF Hk. destruct HF as [sm r Hsm Hin Hf Hout|s Hs Hp Hr Hn|sm d Hsm Hp Hd Hall|sm Hsm Hp Hd Hall];
      cbn; auto.
    unfold nstarted in Hn. destruct (err s); lia.
  Qed.

  Lemma wait_began_eq res td lg j w :
    Final c atts res td lg -> (m <= j)%nat -> WB (VL lg) j w ->
    wait_began c atts (obs_of res td lg) j = w.
  Proof.
    intros HF Hm HW. unfold wait_began. destruct j as [|p]; cbn [WB] in HW; [auto|].
    change (m_init c atts) with m. destruct (Nat.ltb_spec (S p) m) as [Hlt|_]; [lia|].
    unfold obs_of. rewrite (start_of_eq c atts res td lg HF p w HW). reflexivity.
  Qed.

  Lemma nofail_bool res td lg j w t :
    Final c atts res td lg -> NoFailBetween (ldones lg) j w t ->
    forallb (fun i => negb (is_out atts i Fail)
                      || match done_of (obs_of res td lg) i with
                         | Some d => negb (N.ltb w d && N.ltb d t) | None => true end) (seq 0 j) = true.
  Proof.
    intros HF HN. apply forallb_forall. intros i Hi. apply in_seq in Hi.
    destruct (is_out atts i Fail); cbn [negb orb]; [|reflexivity].
    destruct (done_of (obs_of res td lg) i) as [d|] eqn:E; [|reflexivity].
    apply done_of_in in E. specialize (HN i d ltac:(lia) E).
    destruct (N.ltb_spec w d), (N.ltb_spec d t); cbn; auto; exfalso; apply HN; lia.
  Qed.

  Lemma bounded_bool w t :
    Bounded w t -> match c_delay c with Some d => N.leb t (w + d) | None => true end = true.
  Proof. intros HB. destruct (c_delay c) as [d|] eqn:E; [|reflexivity]. apply N.leb_le. apply HB. exact E. Qed.

  Theorem clause_pace res td lg (HF : Final c atts res td lg) (HPL : PaceLog lg) :
    s_pace c atts (obs_of res td lg) = true.
  Proof.
    unfold s_pace. apply forallb_forall. intros [j t] Hj. apply in_starts_o in Hj.
    unfold s_pace_one. change (m_init c atts) with m.
    destruct (Nat.ltb_spec j m) as [Hlt|Hge]; [reflexivity|].
    destruct (HPL j t Hj Hge) as (w & HW & Hle & HT & HB & HN & _).
    rewrite (wait_began_eq res td lg j w HF Hge HW).
    rewrite (nofail_bool res td lg j w t HF HN), (bounded_bool w t HB), !andb_true_r.
    rewrite andb_true_iff. split; [apply N.leb_le; exact Hle|].
    rewrite !orb_true_iff.
    destruct HT as [(d & Ed & ->)|[(i & a & Hi & Hin & Ha & Hout)|(-> & Hall)]].
    - left; left. rewrite Ed. apply N.eqb_refl.
    - left; right. apply existsb_exists. exists i. split; [apply in_seq; lia|].
      unfold failed_at. rewrite (proj2 (is_out_spec atts i a Fail Ha) Hout).
      unfold obs_of. rewrite (done_of_eq c atts res td lg HF i t Hin). cbn. apply N.eqb_refl.
    - right. rewrite N.eqb_refl. cbn [andb]. unfold all_done_by. apply forallb_forall.
      intros i Hi. apply in_seq in Hi. destruct (Hall i ltac:(lia)) as (dd & Hin & Hdd).
      unfold obs_of. rewrite (done_of_eq c atts res td lg HF i dd Hin). apply N.leb_le. exact Hdd.
  Qed.

  Theorem clause_unstarted res td lg (HF : Final c atts res td lg) (HU : Unstarted res td lg) :
    s_unstarted c atts (obs_of res td lg) = true.
  Proof.
    unfold s_unstarted. change (m_init c atts) with m.
    assert (Hlen : length (starts (obs_of res td lg)) = length (lstarts lg)).
    { unfold obs_of. rewrite starts_obs, rev_length. reflexivity. }
    rewrite Hlen. set (k := length (lstarts lg)) in *.
    destruct (Nat.leb_spec (length atts) k) as [_|Hk]; [reflexivity|].
    destruct (HU Hk) as [HA HB]. pose proof (final_res res td lg HF Hk) as Hres.
    destruct (Nat.ltb_spec k m) as [Hlt|Hge].
    - destruct (HA Hlt) as [[i ->] ->]. reflexivity.
    - destruct (HB Hge) as (w & HW & Htd).
      rewrite (wait_began_eq res td lg k w HF Hge HW).
      assert (G : match td with
                  | Some t => match c_delay c with Some d => N.leb t (w + d) | None => true end
                      && forallb (fun i => negb (is_out atts i Fail)
                                   || match done_of (obs_of res td lg) i with
                                      | Some d => negb (N.ltb w d && N.ltb d t) | None => true end) (seq 0 k)
                  | None => match c_delay c with Some _ => false | None => true end
                  end = true).
      { destruct td as [t|].
        - destruct Htd as [Hb Hn]. rewrite (bounded_bool w t Hb). apply (nofail_bool res (Some t) lg k w t HF Hn).
        - rewrite Htd. reflexivity. }
      unfold obs_of in *. cbn [fst snd] in *. destruct res; try contradiction; exact G.
  Qed.
  (* C10 liveness clause: a hang is impossible while a stagger delay is configured and some
     candidate has not been started (a fortiori one that would accept) *)
  Theorem clause_hang res td lg (HF : Final c atts res td lg) (HU : Unstarted res td lg) :
    s_hang c atts (obs_of res td lg) = true.
  Proof.
    pose proof (start_of_eq c atts res td lg HF) as Hso.
    unfold s_hang, obs_of in *. cbn [fst snd].
    destruct HF as [sm r Hsm Hin Hf Hout|s Hs Hp Hr Hn|sm d Hsm Hp Hd Hall|sm Hsm Hp Hd Hall]; auto.
    { destruct (err s); reflexivity. }
    destruct (c_delay c) as [dl|] eqn:Ed; [|reflexivity].
    assert (Hall' : (length atts <= nstarted sm)%nat).
    { destruct (Nat.lt_ge_cases (nstarted sm) (length atts)) as [Hlt|Hge]; [|exact Hge]. exfalso.
      destruct (HU Hlt) as [HA HB]. fold (nstarted sm) in HA, HB.
      destruct (Nat.lt_ge_cases (nstarted sm) m) as [Hk|Hk].
      - destruct (HA Hk) as [[i Hi] _]. discriminate.
      - destruct (HB Hk) as (w & _ & Hnone). congruence. }
    apply forallb_forall. intros i Hi. apply in_seq in Hi.
    destruct (started_has sm i Hsm ltac:(lia)) as [ts Hts].
    rewrite (Hso i ts Hts). reflexivity.
  Qed.
End Pace.

(* ---------- packaged results ---------- *)
Lemma he_obs_post c tb atts :
  exists res td lg, he_obs c tb atts = obs_of res td lg /\ Final c atts res td lg
                    /\ PaceLog c atts lg /\ Unstarted c atts res td lg
                    /\ HangNever atts res /\ TimeoutStrict c atts res td lg /\ SomeStart atts lg.
Proof.
  pose proof (he_run_post c atts tb) as HP. unfold he_obs, Post, FinalT in *.
  destruct (he_run c tb atts) as [[res td] lg]. cbn [fst snd] in HP.
  exists res, td, lg. unfold obs_of. tauto.
Qed.

Theorem s_pace_holds c tb atts : s_pace c atts (he_obs c tb atts) = true.
Proof.
  destruct (he_obs_post c tb atts) as (res & td & lg & E & HF & HPL & _). rewrite E.
  exact (clause_pace c atts res td lg HF HPL).
Qed.

Theorem s_unstarted_holds c tb atts : s_unstarted c atts (he_obs c tb atts) = true.
Proof.
  destruct (he_obs_post c tb atts) as (res & td & lg & E & HF & _ & HU & _). rewrite E.
  exact (clause_unstarted c atts res td lg HF HU).
Qed.

Theorem mon_C11_holds : forall c tb atts, mon_C11 c atts (he_obs c tb atts) = true.
Proof.
  intros c tb atts. unfold mon_C11.
  pose proof (mon_C11_proved_holds c tb atts) as H. unfold mon_C11_proved in H.
  apply andb_true_iff in H. destruct H as [H H3]. apply andb_true_iff in H. destruct H as [H1 H2].
  rewrite H1, H2, H3, (s_pace_holds c tb atts), (s_unstarted_holds c tb atts). reflexivity.
Qed.

Theorem s_hang_holds c tb atts : s_hang c atts (he_obs c tb atts) = true.
Proof.
  destruct (he_obs_post c tb atts) as (res & td & lg & E & HF & _ & HU & _). rewrite E.
  exact (clause_hang c atts res td lg HF HU).
Qed.

Theorem mon_C10_holds : forall c tb atts, mon_C10 c atts (he_obs c tb atts) = true.
Proof.
  intros c tb atts. unfold mon_C10.
  pose proof (mon_C10_core_holds c tb atts) as H. unfold mon_C10_core in H.
  rewrite H, (s_hang_holds c tb atts). reflexivity.
Qed.
