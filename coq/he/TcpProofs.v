(* Consequences of the M-HE theorems for the configuration TcpConnecting::connect builds. *)
From HD Require Import common.Base he.Model he.Spec he.Proofs he.ProofsPace he.Tcp.

Local Open Scope N_scope.

Section Gen.
  Variable c : cfg.
  Variable atts : list attempt.
  Let m := initial_count c (length atts).

  Lemma log_lt lg j t : LogOK c atts lg -> In (j, t) (lstarts lg) -> (j < length (lstarts lg))%nat.
  Proof.
    intros HL Hin. apply (in_map fst) in Hin. rewrite (l_starts c atts lg HL) in Hin.
    rewrite <- in_rev in Hin. apply in_seq in Hin. cbn in Hin. lia.
  Qed.

  Lemma log_has lg j : LogOK c atts lg -> (j < length (lstarts lg))%nat -> exists t, In (j, t) (lstarts lg).
  Proof.
    intros HL Hlt. assert (Hin : In j (map fst (lstarts lg))).
    { rewrite (l_starts c atts lg HL), <- in_rev. apply in_seq. lia. }
    apply in_map_iff in Hin. destruct Hin as [[i ts] [E Hin]]. cbn in E. subst i. eauto.
  Qed.

  (* candidate j is polled no later than j stagger delays after the beginning *)
  Lemma log_start_bound lg d :
    LogOK c atts lg -> PaceLog c atts lg -> c_delay c = Some d ->
    forall j t, In (j, t) (lstarts lg) -> t <= N.of_nat j * d.
  Proof.
    intros HL HPL Hd. induction j as [|p IH]; intros t Hin.
    - destruct (Nat.eq_dec m 0) as [E0|Hpos].
      + destruct (HPL 0%nat t Hin) as (w & _ & _ & _ & _ & _ & HZ); [fold m; lia|].
        rewrite (HZ eq_refl). lia.
      + rewrite (l_init c atts lg HL 0%nat t Hin); [lia|fold m; lia].
    - destruct (Nat.lt_ge_cases (S p) m) as [Hlt|Hge].
      + rewrite (l_init c atts lg HL (S p) t Hin); [lia|exact Hlt].
      + destruct (HPL (S p) t Hin Hge) as (w & HW & _ & _ & HB & _). cbn [WB] in HW.
        specialize (IH w HW). specialize (HB d Hd).
        rewrite Nat2N.inj_succ, N.mul_succ_l. lia.
  Qed.

  (* a candidate that is never polled: the operation completed before that candidate's turn *)
  Lemma unstarted_bound res td lg d :
    LogOK c atts lg -> PaceLog c atts lg -> Unstarted c atts res td lg -> SomeStart atts lg ->
    c_delay c = Some d -> (length (lstarts lg) < length atts)%nat ->
    exists t, td = Some t /\ t <= N.of_nat (length (lstarts lg)) * d.
  Proof.
    intros HL HPL HU HS Hd Hk. destruct (HU Hk) as [HA HB].
    destruct (Nat.lt_ge_cases (length (lstarts lg)) m) as [Hlt|Hge].
    - destruct (HA Hlt) as [_ ->]. exists 0. split; [reflexivity|lia].
    - destruct (HB Hge) as (w & HW & Htd). destruct td as [t|]; [|congruence].
      exists t. split; [reflexivity|]. destruct Htd as [Hb _]. specialize (Hb d Hd).
      destruct (length (lstarts lg)) as [|p] eqn:Ek.
      + exfalso. apply HS; [intros E; rewrite E in Hk; cbn in Hk; lia|].
        destruct (lstarts lg); [reflexivity|discriminate].
      + cbn [WB] in HW. pose proof (log_start_bound lg d HL HPL Hd p w HW).
        rewrite Nat2N.inj_succ, N.mul_succ_l. lia.
  Qed.
  (* full-strength success: a candidate that accepts early enough (or, without a deadline, when no
     attempt blocks for ever) makes the operation succeed *)
  Lemma succeeds_gen res td lg i a :
    Final c atts res td lg -> PaceLog c atts lg -> HangNever atts res ->
    TimeoutStrict c atts res td lg -> SomeStart atts lg ->
    nth_error atts i = Some a -> a_out a = Succ ->
    match c_timeout c with
    | Some T => exists d, c_delay c = Some d /\ N.of_nat i * d + a_lat a <= T
    | None => forall b, In b atts -> a_out b <> Never
    end ->
    exists r, res = ROk r.
  Proof.
    intros HF HPL HH HT HS Ha Hout Hc.
    assert (Hi : (i < length atts)%nat) by (apply nth_error_Some; congruence).
    destruct HF as [sm r Hsm Hin Hf Hout'|s Hs Hp Hr Hn|sm T Hsm Hp Hd Hall|sm Hsm Hp Hd Hall].
    - eauto.
    - exfalso. destruct (started_has c atts s i Hs ltac:(lia)) as [ts Hts].
      destruct (i_started c atts s Hs i ts Hts) as [_ [[r0 (A & _)]|(a0 & A & B & _)]].
      + rewrite Hr in A. destruct A.
      + congruence.
    - exfalso. rewrite Hd in Hc. destruct Hc as (d & Hdl & Hle).
      pose proof (Inv_logok c atts sm Hsm) as HL.
      destruct (Nat.lt_ge_cases i (nstarted sm)) as [Hlt|Hge].
      + destruct (started_has c atts sm i Hsm Hlt) as [ts Hts].
        pose proof (log_start_bound (log sm) d HL HPL Hdl i ts Hts) as Hb.
        destruct (started_cases c atts sm i ts Hsm Hts) as (a0 & Ha0 & [(r' & A & B & C & D)|Hfail]); [|congruence].
        assert (Ea : a0 = a) by congruence. rewrite Ea in D.
        assert (Hfin : finish_of r' = Some (ts + a_lat a)) by (unfold finish_of; rewrite D, Hout, C; reflexivity).
        specialize (Hall r' _ A Hfin). lia.
      + destruct (HT eq_refl) as (w & HW & Hstrict); [fold (nstarted sm); lia|].
        fold (nstarted sm) in HW. specialize (Hstrict d T Hdl eq_refl).
        destruct (nstarted sm) as [|p] eqn:Ek.
        * apply HS; [intros E; rewrite E in Hi; cbn in Hi; lia|].
          unfold nstarted in Ek. destruct (lstarts (log sm)); [reflexivity|discriminate].
        * cbn [WB] in HW. pose proof (log_start_bound (log sm) d HL HPL Hdl p w HW) as Hb.
          assert (Hmul : N.of_nat (S p) * d <= N.of_nat i * d) by (apply N.mul_le_mono_r; lia).
          rewrite Nat2N.inj_succ, N.mul_succ_l in Hmul. lia.
    - exfalso. rewrite Hd in Hc. destruct (HH eq_refl) as (i0 & a0 & A & B).
      apply (Hc a0); [eapply nth_error_In; eauto|exact B].
  Qed.
End Gen.

(* ---------- the configuration TcpConnecting::connect builds ---------- *)

(* (c) the stagger delays of all candidates fit into the overall timeout *)
Theorem tcp_delay_fits T n d : tcp_delay (Some T) (N.of_nat n) = Some d -> N.of_nat n * d <= T.
Proof.
  unfold tcp_delay. destruct (N.eqb_spec (N.of_nat n) 0) as [E|E]; intros H; injection H as <-.
  - rewrite E. lia.
  - apply N.mul_div_le. exact E.
Qed.

Lemma tcp_cfg_delay T conc n : (0 < n)%nat -> c_delay (tcp_cfg (Some T) conc n) = Some (T / N.of_nat n).
Proof.
  intros Hn. unfold tcp_cfg, tcp_delay. cbn [c_delay].
  destruct (N.eqb_spec (N.of_nat n) 0) as [E|E]; [lia|reflexivity].
Qed.

(* (a) candidate j is polled no later than j * d, d = T / n; in particular before the deadline *)
Theorem tcp_start_bound T conc tb atts j t :
  In (j, t) (starts (tcp_connect (Some T) conc tb atts)) ->
  t <= N.of_nat j * (T / N.of_nat (length atts)) /\ (0 < T -> t < T).
Proof.
  unfold tcp_connect. set (n := length atts). set (cf := tcp_cfg (Some T) conc n).
  destruct (he_obs_post cf tb atts) as (res & td & lg & E & HF & HPL & _). rewrite E.
  intros Hin. apply in_starts_o in Hin.
  pose proof (Final_logok cf atts res td lg HF) as HL.
  pose proof (log_lt cf atts lg j t HL Hin) as Hlt. pose proof (l_len cf atts lg HL) as Hlen. fold n in Hlen.
  assert (Hd : c_delay cf = Some (T / N.of_nat n)) by (apply tcp_cfg_delay; lia).
  pose proof (log_start_bound cf atts lg _ HL HPL Hd j t Hin) as Hb. split; [exact Hb|].
  intros HT. pose proof (tcp_delay_fits T n (T / N.of_nat n)) as Hfit.
  unfold tcp_delay in Hfit. destruct (N.eqb_spec (N.of_nat n) 0) as [E0|E0]; [lia|]. specialize (Hfit eq_refl).
  set (d := T / N.of_nat n) in *.
  assert (Hmul : N.of_nat j * d <= (N.of_nat n - 1) * d) by (apply N.mul_le_mono_r; lia).
  rewrite N.mul_sub_distr_r in Hmul. destruct (N.eq_dec d 0) as [Ez|Ez]; [rewrite Ez in *; lia|]. lia.
Qed.

(* (a') every candidate is attempted in its turn unless the operation completed before: candidate j
   is polled by j * d, or the operation is over by j * d.  This holds for every concurrency,
   including Some 0 (an empty task set makes the first await return at once, so candidate 0 is
   polled at time 0 in that case too). *)
Theorem tcp_attempted T conc tb atts j :
  (j < length atts)%nat ->
  let o := tcp_connect (Some T) conc tb atts in
  let d := T / N.of_nat (length atts) in
  (exists t, start_of o j = Some t /\ t <= N.of_nat j * d)
  \/ (exists td, snd (fst o) = Some td /\ td <= N.of_nat j * d).
Proof.
  intros Hj. unfold tcp_connect. set (n := length atts) in *. set (cf := tcp_cfg (Some T) conc n).
  destruct (he_obs_post cf tb atts) as (res & td & lg & E & HF & HPL & HU & _ & _ & HS). rewrite E.
  cbv zeta. pose proof (Final_logok cf atts res td lg HF) as HL.
  assert (Hd : c_delay cf = Some (T / N.of_nat n)) by (apply tcp_cfg_delay; lia).
  destruct (Nat.lt_ge_cases j (length (lstarts lg))) as [Hlt|Hge].
  - left. destruct (log_has cf atts lg j HL Hlt) as [t Ht]. exists t. split.
    + unfold obs_of. apply (start_of_eq cf atts res td lg HF j t Ht).
    + apply (log_start_bound cf atts lg _ HL HPL Hd j t Ht).
  - right. destruct (unstarted_bound cf atts res td lg _ HL HPL HU HS Hd ltac:(fold n; lia)) as (t & -> & Hb).
    exists t. split; [reflexivity|].
    assert (N.of_nat (length (lstarts lg)) * (T / N.of_nat n) <= N.of_nat j * (T / N.of_nat n))
      by (apply N.mul_le_mono_r; lia). lia.
Qed.

(* (b) the operation succeeds whenever some candidate would accept in time: candidate i accepts
   lat_i after its first poll, which is no later than i * d *)
Theorem tcp_succeeds T conc tb atts i a :
  nth_error atts i = Some a -> a_out a = Succ ->
  N.of_nat i * (T / N.of_nat (length atts)) + a_lat a <= T ->
  exists r, fst (fst (tcp_connect (Some T) conc tb atts)) = ROk r.
Proof.
  intros Ha Hout Hle. unfold tcp_connect. set (n := length atts) in *. set (cf := tcp_cfg (Some T) conc n).
  assert (Hi : (i < n)%nat) by (apply nth_error_Some; congruence).
  destruct (he_obs_post cf tb atts) as (res & td & lg & E & HF & HPL & HU & HH & HT & HS). rewrite E.
  cbn [fst obs_of]. apply (succeeds_gen cf atts res td lg i a HF HPL HH HT HS Ha Hout).
  cbn [c_timeout cf tcp_cfg]. exists (T / N.of_nat n). split; [apply tcp_cfg_delay; lia|exact Hle].
Qed.

(* a candidate that accepts at once wins whatever the timeout is *)
Corollary tcp_instant_accept T conc tb atts i a :
  nth_error atts i = Some a -> a_out a = Succ -> a_lat a = 0 ->
  exists r, fst (fst (tcp_connect (Some T) conc tb atts)) = ROk r.
Proof.
  intros Ha Hout Hl. apply (tcp_succeeds T conc tb atts i a Ha Hout). rewrite Hl.
  assert (Hi : (i < length atts)%nat) by (apply nth_error_Some; congruence).
  pose proof (tcp_delay_fits T (length atts) (T / N.of_nat (length atts))) as Hfit.
  unfold tcp_delay in Hfit. destruct (N.eqb_spec (N.of_nat (length atts)) 0) as [E0|E0]; [lia|].
  specialize (Hfit eq_refl).
  assert (N.of_nat i * (T / N.of_nat (length atts)) <= N.of_nat (length atts) * (T / N.of_nat (length atts)))
    by (apply N.mul_le_mono_r; lia). lia.
Qed.

(* without a timeout there is no stagger timer either: the operation succeeds whenever some
   candidate accepts, provided no attempt blocks for ever (otherwise it may hang, see the example
   in props/C10.v) *)
Theorem tcp_succeeds_no_timeout conc tb atts i a :
  nth_error atts i = Some a -> a_out a = Succ ->
  (forall b, In b atts -> a_out b <> Never) ->
  exists r, fst (fst (tcp_connect None conc tb atts)) = ROk r.
Proof.
  intros Ha Hout Hn. unfold tcp_connect. set (cf := tcp_cfg None conc (length atts)).
  destruct (he_obs_post cf tb atts) as (res & td & lg & E & HF & HPL & HU & HH & HT & HS). rewrite E.
  cbn [fst obs_of]. apply (succeeds_gen cf atts res td lg i a HF HPL HH HT HS Ha Hout).
  cbn [c_timeout cf tcp_cfg]. exact Hn.
Qed.

(* error mapping: "Exhausted connection candidates" exactly when there is no candidate;
   "timed out" only with a timeout configured *)
Theorem tcp_exhausted_iff timeout conc tb atts :
  tcp_result timeout conc tb atts = TErrExhausted <-> atts = [].
Proof.
  unfold tcp_result, tcp_connect. split.
  - intros H. pose proof (mon_C10_core_holds (tcp_cfg timeout conc (length atts)) tb atts) as M.
    unfold mon_C10_core in M. rewrite !andb_true_iff in M. destruct M as [[[_ _] Herr] _].
    unfold s_err in Herr.
    destruct (fst (fst (he_obs (tcp_cfg timeout conc (length atts)) tb atts))); try discriminate H.
    rewrite andb_true_iff in Herr. destruct Herr as [Hl _]. apply Nat.eqb_eq in Hl.
    apply length_zero_iff_nil. exact Hl.
  - intros ->. unfold he_obs, he_run, tcp_cfg. cbn [length]. destruct conc as [[|k]|]; reflexivity.
Qed.

Theorem tcp_timeout_only_configured conc tb atts : tcp_result None conc tb atts <> TErrTimeout.
Proof.
  unfold tcp_result, tcp_connect.
  pose proof (mon_C10_core_holds (tcp_cfg None conc (length atts)) tb atts) as M.
  unfold mon_C10_core in M. rewrite !andb_true_iff in M. destruct M as [_ Hto].
  unfold s_timeout in Hto. cbn [c_timeout tcp_cfg] in Hto.
  destruct (fst (fst (he_obs (tcp_cfg None conc (length atts)) tb atts))); cbn; discriminate.
Qed.

(* candidates on the local host (listening = accepts at once, refusing = fails at once), any
   timeout, any concurrency: if some port listens, the connect succeeds, and with a listening port *)
Theorem tcp_local_succeeds timeout conc tb l i :
  nth_error l i = Some true ->
  exists r, fst (fst (tcp_connect timeout conc tb (local_atts l))) = ROk r /\ nth_error l r = Some true.
Proof.
  intros Hi.
  assert (Ha : nth_error (local_atts l) i = Some (mkAtt Succ 0)).
  { unfold local_atts. rewrite nth_error_map, Hi. reflexivity. }
  assert (Hok : exists r, fst (fst (tcp_connect timeout conc tb (local_atts l))) = ROk r).
  { destruct timeout as [T|].
    - apply (tcp_instant_accept T conc tb _ i _ Ha); reflexivity.
    - apply (tcp_succeeds_no_timeout conc tb _ i _ Ha); [reflexivity|].
      intros b Hb. unfold local_atts in Hb. apply in_map_iff in Hb. destruct Hb as (x & <- & _).
      destruct x; discriminate. }
  destruct Hok as [r Hr]. exists r. split; [exact Hr|].
  unfold tcp_connect in *.
  pose proof (mon_C10_core_holds (tcp_cfg timeout conc (length (local_atts l))) tb (local_atts l)) as M.
  unfold mon_C10_core in M. rewrite !andb_true_iff in M. destruct M as [[[Hs _] _] _].
  unfold s_ok_sound in Hs. rewrite Hr in Hs. apply andb_true_iff in Hs. destruct Hs as [Hs _].
  unfold is_out, out_of, att, local_atts in Hs. rewrite nth_error_map in Hs.
  destruct (nth_error l r) as [[|]|]; cbn in Hs; try discriminate Hs. reflexivity.
Qed.
