(* Proofs for M-CONN: the contract holds for the model along EVERY operation sequence. *)
From HD Require Import common.Base http.Model http.Spec conn.Model conn.Spec.

Lemma prdy_eqb_refl x : prdy_eqb x x = true.
Proof. destruct x; reflexivity. Qed.

Lemma hver_eqb_refl v : hver_eqb v v = true.
Proof. destruct v; reflexivity. Qed.

Definition seen_ok (s : hstate) : Prop := h_seen s = None \/ h_seen s = Some (wire_version (h_proto s)).

Lemma step_proto s o : h_proto (hc_step s o) = h_proto s.
Proof.
  destruct s as [p ph k e sv]. destruct o; destruct ph as [|[|n]|[|n]|[|n]]; destruct p; reflexivity.
Qed.

Lemma seen_ok_step s o : seen_ok s -> seen_ok (hc_step s o).
Proof.
  unfold seen_ok. destruct s as [p ph k e sv]. cbn [h_seen h_proto]. intros H.
  destruct o; destruct ph as [|[|n]|[|n]|[|n]]; destruct p; cbn; auto.
Qed.

(* clauses about one observation: (a) (b) (e) (f) *)
Lemma point_ok s : seen_ok s -> mon_point (h_proto s) (hc_obs s) = true.
Proof.
  intros Hs. unfold mon_point, hc_obs. cbn [o_open o_share o_reuse o_ver o_rdy o_clone o_seen].
  rewrite !Bool.eqb_reflx, hver_eqb_refl. cbn [andb].
  assert (B : negb (hc_open s) || prdy_eqb (hc_rdy s) PReadyOk = true).
  { unfold hc_open, hc_rdy. destruct (h_proto s), (h_phase s); reflexivity. }
  rewrite B. cbn [andb].
  assert (E : match (if is_h2 (h_proto s) then Some (hc_open s, is_h2 (h_proto s), hc_rdy s) else None) with
              | Some (op_, sh, rd) => is_h2 (h_proto s) && Bool.eqb op_ (hc_open s) && Bool.eqb sh (is_h2 (h_proto s)) && prdy_eqb rd (hc_rdy s)
              | None => negb (is_h2 (h_proto s))
              end = true).
  { destruct (is_h2 (h_proto s)); [|reflexivity]. rewrite !Bool.eqb_reflx, prdy_eqb_refl. reflexivity. }
  rewrite E. cbn [andb].
  destruct Hs as [-> | ->]; [reflexivity|apply hver_eqb_refl].
Qed.

Lemma nat_eqb_succ n : Nat.eqb n (S n) = false.
Proof. induction n; cbn; auto. Qed.

(* clauses about one operation: (c) (d) *)
Lemma edge_ok s o : mon_edge (h_proto s) (hc_obs s) o (hc_obs (hc_step s o)) = true.
Proof.
  destruct s as [p ph k e sv].
  destruct o; destruct p; destruct ph as [|[|n]|[|n]|[|n]];
    unfold mon_edge, closed_obs, busy_obs, hc_obs, hc_step, respond, hc_open, hc_rdy, add_ok, add_err, set_phase, saw, inflight;
    cbn -[Nat.eqb]; rewrite ?Nat.eqb_refl, ?nat_eqb_succ; reflexivity.
Qed.

Lemma edges_ok ops : forall s, seen_ok s ->
  mon_edges (h_proto s) (hc_obs s) ops (hc_trace_from s ops) = true.
Proof.
  induction ops as [|o t IH]; intros s Hs; cbn [mon_edges hc_trace_from]; [reflexivity|].
  pose proof (seen_ok_step s o Hs) as Hs'.
  pose proof (point_ok _ Hs') as P. rewrite step_proto in P. rewrite P, edge_ok. cbn [andb].
  specialize (IH _ Hs'). rewrite step_proto in IH. exact IH.
Qed.

(* the contract monitor accepts the model's observations of every history *)
Theorem mon_conn_holds p ops : mon_conn p ops (hc_trace p ops) = true.
Proof.
  unfold mon_conn, hc_trace.
  assert (Hs : seen_ok (hc_init p)) by (left; reflexivity).
  pose proof (point_ok _ Hs) as P. cbn [hc_init h_proto] in P. rewrite P. cbn [andb].
  apply (edges_ok ops (hc_init p) Hs).
Qed.

(* ---- the clauses read as propositions, for every reachable state ---- *)
Lemma run_proto p ops : h_proto (hc_run p ops) = p.
Proof.
  unfold hc_run. generalize (hc_init p) (eq_refl : h_proto (hc_init p) = p).
  induction ops as [|o t IH]; intros s H; cbn [fold_left]; [exact H|].
  apply IH. rewrite step_proto. exact H.
Qed.

(* (a) sharing is a constant of the protocol *)
Theorem share_constant p ops :
  let o := hc_obs (hc_run p ops) in
  o_share o = is_h2 p /\ o_reuse o = is_h2 p /\ o_ver o = wire_version p.
Proof. cbn. rewrite run_proto. auto. Qed.

(* (b) open => ready *)
Theorem open_ready s : hc_open s = true -> hc_rdy s = PReadyOk.
Proof. unfold hc_open, hc_rdy. destruct (h_proto s), (h_phase s); intros H; try discriminate; reflexivity. Qed.

(* (c) closed is absorbing, reports not open and poll_ready = Ready(Err); the peer's drop and a delivered
   HTTP/1 `Connection: close` response lead there *)
Theorem dead_absorbing s o : hc_dead s = true -> hc_dead (hc_step s o) = true.
Proof.
  destruct s as [p ph k e sv]. unfold hc_dead. cbn [h_phase].
  destruct ph as [| | |[|n]]; try discriminate; intros _; destruct o, p; reflexivity.
Qed.

Theorem dead_forever s ops : hc_dead s = true ->
  let s' := fold_left hc_step ops s in hc_open s' = false /\ hc_rdy s' = PReadyErr.
Proof.
  revert s. induction ops as [|o t IH]; intros s H; cbn [fold_left].
  - unfold hc_dead in H. unfold hc_open, hc_rdy. destruct (h_phase s); try discriminate. destruct (h_proto s); auto.
  - apply IH. apply dead_absorbing. exact H.
Qed.

Theorem peer_drop_closes s : hc_dead (hc_step s HPeerDrop) = true.
Proof. reflexivity. Qed.

Theorem close_response_closes s :
  h_proto s = PH1 -> h_ok (hc_step s HCloseResp) = S (h_ok s) -> hc_dead (hc_step s HCloseResp) = true.
Proof.
  destruct s as [p ph k e sv]. cbn [h_proto h_ok]. intros -> H.
  destruct ph as [|[|n]|[|n]|[|n]]; cbn in *; try reflexivity; exfalso; lia.
Qed.

(* (d) a busy HTTP/1 connection is never open and its poll_ready is Pending *)
Theorem h1_busy s : h_proto s = PH1 -> hc_dead s = false -> inflight s <> 0 ->
  hc_open s = false /\ hc_rdy s = PPending.
Proof.
  destruct s as [p ph k e sv]. unfold hc_dead, inflight, hc_open, hc_rdy. cbn [h_proto h_phase].
  intros -> Hd Hi. destruct ph; try discriminate; auto. contradiction.
Qed.

Theorem h1_send_makes_busy s v : h_proto s = PH1 -> hc_open s = true ->
  let s' := hc_step s (HSend v) in hc_open s' = false /\ hc_rdy s' = PPending.
Proof.
  destruct s as [p ph k e sv]. unfold hc_open. cbn [h_proto h_phase]. intros -> H.
  destruct ph; try discriminate. cbn. auto.
Qed.

(* (e) a reuse()d handle observes the same state as the original *)
Theorem clone_same s : is_h2 (h_proto s) = true ->
  o_clone (hc_obs s) = Some (o_open (hc_obs s), o_share (hc_obs s), o_rdy (hc_obs s)).
Proof. intros H. unfold hc_obs. cbn. rewrite H. reflexivity. Qed.

Lemma seen_ok_run ops : forall s, seen_ok s -> seen_ok (fold_left hc_step ops s).
Proof.
  induction ops as [|o t IH]; intros s Hs; cbn [fold_left]; [exact Hs|]. apply IH. apply seen_ok_step. exact Hs.
Qed.

(* (f) the server is given the connection's version, whatever the caller wrote *)
Theorem seen_version p ops v : h_seen (hc_run p ops) = Some v -> v = wire_version p.
Proof.
  intros H. assert (S : seen_ok (hc_run p ops)) by (apply seen_ok_run; left; reflexivity).
  destruct S as [S|S]; rewrite S in H; [discriminate|]. rewrite run_proto in H. inversion H. reflexivity.
Qed.
