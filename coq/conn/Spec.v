(* The contract the pool (model) assumes of a PoolableConnection, as an executable monitor over the
   observations of one connection's history: it judges what the REAL HttpConnection reported.
   Anchors: C05 "is_open reflects the sender's readiness" / WhenReady::drop pushes only if is_open();
   C02 "only connections that report can_share are cloned ... HttpConnection::reuse", "connection returns
   to the pool only after it reports ready again". *)
From HD Require Import common.Base http.Model http.Spec conn.Model.

Definition prdy_eqb (a b : prdy) : bool :=
  match a, b with PReadyOk, PReadyOk | PPending, PPending | PReadyErr, PReadyErr => true | _, _ => false end.

Definition closed_obs (o : hobs) : bool := negb (o_open o) && prdy_eqb (o_rdy o) PReadyErr.
Definition busy_obs (o : hobs) : bool := negb (o_open o) && prdy_eqb (o_rdy o) PPending.

(* clauses about one observation *)
Definition mon_point (p : proto) (o : hobs) : bool :=
  (* (a) sharing is a constant of the protocol: can_share = reuse().is_some() = HTTP/2; version = the protocol's *)
  Bool.eqb (o_share o) (is_h2 p) && Bool.eqb (o_reuse o) (is_h2 p) && hver_eqb (o_ver o) (wire_version p)
  (* (b) a connection that reports open is ready: poll_ready = Ready(Ok) *)
  && (negb (o_open o) || prdy_eqb (o_rdy o) PReadyOk)
  (* (e) a handle obtained from reuse() sees the same state *)
  && match o_clone o with
     | Some (op_, sh, rd) => is_h2 p && Bool.eqb op_ (o_open o) && Bool.eqb sh (o_share o) && prdy_eqb rd (o_rdy o)
     | None => negb (is_h2 p)
     end
  (* (f) whatever version the caller wrote, the server is given the connection's *)
  && match o_seen o with Some v => hver_eqb v (wire_version p) | None => true end.

Definition is_send (o : hop) : bool := match o with HSend _ => true | _ => false end.
Definition is_quiet (o : hop) : bool := match o with HSend _ | HSettle | HGoaway => true | _ => false end.

(* clauses about one operation: observation before, operation, observation after *)
Definition mon_edge (p : proto) (prev : hobs) (op : hop) (cur : hobs) : bool :=
  (* (c) closed is absorbing *)
  (negb (prdy_eqb (o_rdy prev) PReadyErr) || closed_obs cur)
  (* (c) the peer dropping the connection closes it *)
  && (match op with HPeerDrop => closed_obs cur | _ => true end)
  (* (c) an HTTP/1 response with `Connection: close` that was delivered closes it *)
  && (match op, p with
      | HCloseResp, PH1 => negb (Nat.eqb (o_ok cur) (S (o_ok prev))) || closed_obs cur
      | _, _ => true
      end)
  (* (d) HTTP/1: the connection that has just accepted a request is busy: not open, poll_ready Pending ... *)
  && (match p with
      | PH1 => negb (is_send op && o_open prev) || busy_obs cur
      | PH2 => true
      end)
  (* (d) ... and stays so until a response or the end of the connection *)
  && (match p with
      | PH1 => negb (busy_obs prev && is_quiet op) || busy_obs cur
      | PH2 => true
      end).

Fixpoint mon_edges (p : proto) (prev : hobs) (ops : list hop) (obs : list hobs) : bool :=
  match ops, obs with
  | [], [] => true
  | op :: ops', cur :: obs' => mon_point p cur && mon_edge p prev op cur && mon_edges p cur ops' obs'
  | _, _ => false
  end.

(* obs = the observation after the handshake followed by one observation per operation *)
Definition mon_conn (p : proto) (ops : list hop) (obs : list hobs) : bool :=
  match obs with
  | o0 :: rest => mon_point p o0 && mon_edges p o0 ops rest
  | [] => false
  end.
