(* Link between M-CONN and the connection flags of the pool model (coq/pool/Model.v, read only):
   the pool model abstracts a connection to (c_share, c_open, c_ready); PoolableConnection::is_open is
   [pool.Model.is_open], the WhenReady task classifies poll_ready as in [pool.Model.run_task], the
   environment may at any time apply ConnReady (c_set_ready true) and ConnClose (c_set_open false), and
   the hand-out itself makes a non-shared connection busy (c_set_ready false in do_poll).
   Under   share := (protocol = HTTP/2),  open := not closed,  ready := no exchange in flight (HTTP/1)
   every step of the real connection's model is one of those moves (or nothing), and what the pool
   model computes from the flags is what M-CONN says the real connection reports. *)
From HD Require Import common.Base http.Model conn.Model conn.Spec conn.Proofs.
From HD Require pool.Model.

Definition flag_ready (s : hstate) : bool :=
  match h_proto s, h_phase s with
  | PH2, _ => true
  | PH1, HIdle => true
  | PH1, HDead _ => true         (* irrelevant once closed *)
  | PH1, _ => false
  end.

Definition abs (s : hstate) : pool.Model.conn :=
  pool.Model.mkConn 0 (is_h2 (h_proto s)) (negb (hc_dead s)) (flag_ready s) 1 0 [].

(* PoolableConnection::is_open as the pool model computes it from the flags *)
Theorem link_is_open s ps c :
  pool.Model.get_conn ps c = Some (abs s) -> pool.Model.is_open ps c = hc_open s.
Proof.
  intros H. unfold pool.Model.is_open. rewrite H. unfold abs, hc_open, hc_dead, flag_ready. cbn.
  destruct (h_proto s), (h_phase s); reflexivity.
Qed.

(* the poll_ready classification of the WhenReady task (pool.Model.run_task, TWhenReady branch):
   closed -> ERdy false, shared or ready -> ERdy true, otherwise parked *)
Definition pool_rdy (cn : pool.Model.conn) : prdy :=
  if negb (pool.Model.c_open cn) then PReadyErr
  else if pool.Model.c_share cn || pool.Model.c_ready cn then PReadyOk
  else PPending.

Theorem link_poll_ready s : pool_rdy (abs s) = hc_rdy s.
Proof. unfold pool_rdy, abs, hc_rdy, hc_dead, flag_ready. cbn. destruct (h_proto s), (h_phase s); reflexivity. Qed.

(* the moves the pool model allows on a connection's flags *)
Inductive envop := EReady (* ConnReady c *) | EClose (* ConnClose c *) | EUse (* hand-out of a non-shared connection *).

Definition apply_env (cn : pool.Model.conn) (e : envop) : pool.Model.conn :=
  match e with
  | EReady => pool.Model.c_set_ready true cn
  | EClose => pool.Model.c_set_open false cn
  | EUse => pool.Model.c_set_ready false cn
  end.

(* the moves one M-CONN step amounts to *)
Definition link_ops (s : hstate) (o : hop) : list envop :=
  let s' := hc_step s o in
  (if negb (hc_dead s) && hc_dead s' then [EClose] else [])
  ++ (if negb (flag_ready s) && flag_ready s' then [EReady]
      else if flag_ready s && negb (flag_ready s') then [EUse] else []).

(* simulation: every step of the real connection is a (possibly empty) sequence of moves of the pool
   model's alphabet; it never re-opens a connection, never changes its sharing, and the only way it
   becomes busy is the holder's own send on an open HTTP/1 connection *)
Theorem link_step s o :
  fold_left apply_env (link_ops s o) (abs s) = abs (hc_step s o)
  /\ (In EUse (link_ops s o) -> is_send o = true /\ h_proto s = PH1 /\ hc_open s = true).
Proof.
  destruct s as [p ph k e sv].
  destruct o; destruct p; destruct ph as [|[|n]|[|n]|[|n]]; (split; [reflexivity|]); cbn;
    intros H; repeat (destruct H as [H|H]; try discriminate); try contradiction; auto.
Qed.

(* over whole histories: the flags of the real connection after any operation sequence are reached from
   the fresh connection's flags (share = HTTP/2, open, ready: exactly what the pool model creates in
   [register]) by moves of the pool model's alphabet only *)
Fixpoint link_history (s : hstate) (ops : list hop) : list envop :=
  match ops with [] => [] | o :: t => link_ops s o ++ link_history (hc_step s o) t end.

Theorem link_run p ops :
  fold_left apply_env (link_history (hc_init p) ops) (abs (hc_init p)) = abs (hc_run p ops).
Proof.
  unfold hc_run. generalize (hc_init p). induction ops as [|o t IH]; intros s; cbn [link_history fold_left]; [reflexivity|].
  rewrite fold_left_app. destruct (link_step s o) as [E _]. rewrite E. apply IH.
Qed.

Theorem link_fresh p : abs (hc_init p) = pool.Model.mkConn 0 (is_h2 p) true true 1 0 [].
Proof. destruct p; reflexivity. Qed.
