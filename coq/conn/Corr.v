(* Correspondence for M-CONN: case = protocol + operation list (harness/src/bin/conn.rs); the model's
   observations are compared with the real HttpConnection's after the handshake and after every
   operation; the contract monitor mon_conn judges the implementation's own observations. *)
From HD Require Import common.Base http.Model http.Spec conn.Model conn.Spec.

Record case := mkCase { k_proto : proto; k_ops : list hop }.
Inductive obs := OBad | OObs (l : list hobs).

Definition model_obs (k : case) : obs := OObs (hc_trace (k_proto k) (k_ops k)).

Definition clone_eqb (a b : bool * bool * prdy) : bool :=
  Bool.eqb (fst (fst a)) (fst (fst b)) && Bool.eqb (snd (fst a)) (snd (fst b)) && prdy_eqb (snd a) (snd b).

Definition hobs_eqb (a b : hobs) : bool :=
  Bool.eqb (o_open a) (o_open b) && Bool.eqb (o_share a) (o_share b) && Bool.eqb (o_reuse a) (o_reuse b)
  && hver_eqb (o_ver a) (o_ver b) && prdy_eqb (o_rdy a) (o_rdy b)
  && option_eqb clone_eqb (o_clone a) (o_clone b)
  && Nat.eqb (o_ok a) (o_ok b) && Nat.eqb (o_err a) (o_err b) && option_eqb hver_eqb (o_seen a) (o_seen b).

Definition obs_eqb (a b : obs) : bool :=
  match a, b with OObs x, OObs y => list_eqb hobs_eqb x y | _, _ => false end.

Definition mon (k : case) (o : obs) : bool :=
  match o with OObs l => mon_conn (k_proto k) (k_ops k) l | OBad => false end.

Definition check_all (cs : list (case * obs)) : list N * list N :=
  (falses (map (fun co => obs_eqb (model_obs (fst co)) (snd co)) cs),
   falses (map (fun co => mon (fst co) (snd co)) cs)).
