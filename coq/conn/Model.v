(* M-CONN: what the pool can see of the REAL client connection
     src/client/conn/connection.rs   HttpConnection::{is_open, can_share, reuse} (PoolableConnection),
                                     HttpConnection::{poll_ready, version, send_request} (Connection)
   as a small state machine over the protocol (HTTP/1.1 | HTTP/2) and a phase.  The phase transitions
   transcribe the OBSERVED behaviour of hyper 1.x `client::conn::{http1,http2}::SendRequest`
   (is_ready / poll_ready / send_request) and of hyper's server connection at the other end: they are an
   ORACLE (O1), written down here as observed with harness/src/bin/conn.rs and compared on every check run:
     O1.1  HTTP/1: ready (is_ready, poll_ready = Ready(Ok)) exactly when no exchange is in flight and the
           connection is alive; with an exchange in flight is_ready = false and poll_ready = Pending; a
           second send_request while one is in flight is refused with an error and changes nothing
     O1.2  HTTP/2: is_ready = true and poll_ready = Ready(Ok) as long as the connection task is alive, whatever
           is in flight; every clone of the sender sees the same
     O1.3  once the peer is gone / the connection was closed: is_ready = false, poll_ready = Ready(Err), for ever
     O1.4  HTTP/1 response carrying `Connection: close`: delivered, then the connection is closed; on HTTP/2
           the header is dropped by hyper and the connection stays
     O1.5  server graceful_shutdown: idle connection closed at once; with exchanges in flight they are
           completed first, then the connection closes; an HTTP/2 client that has received GOAWAY still
           reports is_ready = true / poll_ready = Ready(Ok) until then, but a request sent in that window
           fails and makes the sender report closed although the older exchanges still complete
     O1.6  peer dropped: every exchange in flight fails
   The library's own part (what a regression would change): is_open = sender.is_ready(); can_share and
   reuse().is_some() = "is HTTP/2"; version = the protocol's; send_request overwrites the version field. *)
From HD Require Import common.Base http.Model.

(* k = FURTHER exchanges in flight besides the first for HBusy/HGoing (so they always have >= 1);
   for HDead the number of exchanges still being completed although the handle reports closed *)
Inductive hphase :=
| HIdle
| HBusy (k : nat)
| HGoing (k : nat)      (* the server will close once the exchanges in flight are answered *)
| HDead (k : nat).

Inductive hop :=
| HSend (v : hver)      (* send_request with this version field *)
| HKeep                 (* the server answers its oldest held request; the client reads the body *)
| HCloseResp            (* ... with `Connection: close` *)
| HPeerDrop             (* the server end is dropped *)
| HGoaway               (* the server calls graceful_shutdown *)
| HSettle.

Inductive prdy := PReadyOk | PPending | PReadyErr.

Record hstate := mkH {
  h_proto : proto;
  h_phase : hphase;
  h_ok : nat;                 (* requests completed with a full response *)
  h_err : nat;                (* requests failed *)
  h_seen : option hver        (* version of the last request the server handler was given *)
}.

Definition set_phase (ph : hphase) (s : hstate) := mkH (h_proto s) ph (h_ok s) (h_err s) (h_seen s).
Definition add_ok (s : hstate) := mkH (h_proto s) (h_phase s) (S (h_ok s)) (h_err s) (h_seen s).
Definition add_err (n : nat) (s : hstate) := mkH (h_proto s) (h_phase s) (h_ok s) (n + h_err s) (h_seen s).
Definition saw (s : hstate) := mkH (h_proto s) (h_phase s) (h_ok s) (h_err s) (Some (wire_version (h_proto s))).

Definition inflight (s : hstate) : nat :=
  match h_phase s with HIdle => 0 | HBusy k => S k | HGoing k => S k | HDead k => k end.

(* the server answers its oldest held request; [close] = the answer makes the connection close *)
Definition respond (close : bool) (s : hstate) : hstate :=
  match h_phase s with
  | HIdle | HDead 0 => s
  | HBusy 0 => set_phase (if close then HDead 0 else HIdle) (add_ok s)
  | HBusy (S k) => set_phase (if close then HDead (S k) else HBusy k) (add_ok s)
  | HGoing 0 => set_phase (HDead 0) (add_ok s)
  | HGoing (S k) => set_phase (if close then HDead (S k) else HGoing k) (add_ok s)
  | HDead (S k) => set_phase (HDead k) (add_ok s)
  end.

Definition hc_step (s : hstate) (o : hop) : hstate :=
  match o with
  | HSend _ =>
      match h_phase s, h_proto s with
      | HIdle, _ => saw (set_phase (HBusy 0) s)
      | HBusy k, PH2 => saw (set_phase (HBusy (S k)) s)
      | HBusy _, PH1 => add_err 1 s                               (* O1.1: refused *)
      | HGoing _, PH1 => add_err 1 s
      | HGoing k, PH2 => add_err 1 (set_phase (HDead (S k)) s)    (* O1.5 *)
      | HDead _, _ => add_err 1 s
      end
  | HKeep => respond false s
  | HCloseResp => respond (match h_proto s with PH1 => true | PH2 => false end) s      (* O1.4 *)
  | HPeerDrop => set_phase (HDead 0) (add_err (inflight s) s)                          (* O1.6 *)
  | HGoaway =>
      match h_phase s with
      | HIdle => set_phase (HDead 0) s
      | HBusy k => set_phase (HGoing k) s
      | _ => s
      end
  | HSettle => s
  end.

Definition hc_init (p : proto) : hstate := mkH p HIdle 0 0 None.
Definition hc_run (p : proto) (ops : list hop) : hstate := fold_left hc_step ops (hc_init p).

(* ---- what the pool sees ---- *)
Definition is_h2 (p : proto) : bool := match p with PH2 => true | PH1 => false end.

Definition hc_dead (s : hstate) : bool := match h_phase s with HDead _ => true | _ => false end.

(* PoolableConnection::is_open = SendRequest::is_ready *)
Definition hc_open (s : hstate) : bool :=
  match h_proto s, h_phase s with
  | PH1, HIdle => true
  | PH1, _ => false
  | PH2, HDead _ => false
  | PH2, _ => true
  end.

(* Connection::poll_ready, polled once *)
Definition hc_rdy (s : hstate) : prdy :=
  match h_phase s with
  | HDead _ => PReadyErr
  | HIdle => PReadyOk
  | _ => match h_proto s with PH1 => PPending | PH2 => PReadyOk end
  end.

Record hobs := mkO {
  o_open : bool;                          (* is_open() *)
  o_share : bool;                         (* can_share() *)
  o_reuse : bool;                         (* reuse().is_some() *)
  o_ver : hver;                           (* version() *)
  o_rdy : prdy;                           (* poll_ready *)
  o_clone : option (bool * bool * prdy);  (* is_open / can_share / poll_ready of a handle obtained from reuse() *)
  o_ok : nat;
  o_err : nat;
  o_seen : option hver
}.

Definition hc_obs (s : hstate) : hobs :=
  let sh := is_h2 (h_proto s) in
  mkO (hc_open s) sh sh (wire_version (h_proto s)) (hc_rdy s)
      (if sh then Some (hc_open s, sh, hc_rdy s) else None)
      (h_ok s) (h_err s) (h_seen s).

(* the observation after the handshake and after every operation *)
Fixpoint hc_trace_from (s : hstate) (ops : list hop) : list hobs :=
  match ops with
  | [] => []
  | o :: t => let s' := hc_step s o in hc_obs s' :: hc_trace_from s' t
  end.
Definition hc_trace (p : proto) (ops : list hop) : list hobs :=
  hc_obs (hc_init p) :: hc_trace_from (hc_init p) ops.
