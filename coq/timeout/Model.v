(* M-TIMEOUT: model of src/service/timeout.rs  Timeout::call + TimeoutFuture::poll in virtual time.
   The timer is armed when the service is called (time 0); the future is first polled at p0 >= 0
   and afterwards whenever the inner future or the timer wakes it.  The inner future becomes
   ready at ti (None = never) with result [res].  Each poll asks the inner future first, then
   the timer. *)
From HD Require Import common.Base.

Inductive ires := IOk (v : N) | IErr (e : N).
Inductive tres := TInner (r : ires) | TTimeout | TNever.

(* [t_hand]: the first poll (at p0) is made by one task and the future is then handed to ANOTHER task
   (a different waker) which only polls when woken.  No definition below reads it: the deadline is met
   whoever drives the future, because every unready poll re-registers the current waker with the timer. *)
Record tcase := mkT { t_d : N; t_p0 : N; t_ti : option N; t_res : ires; t_hand : bool }.

(* one poll at time t *)
Definition poll_at (c : tcase) (t : N) : option tres :=
  match t_ti c with
  | Some ti => if N.leb ti t then Some (TInner (t_res c))
               else if N.leb (t_d c) t then Some TTimeout else None
  | None => if N.leb (t_d c) t then Some TTimeout else None
  end.

(* the next instant at which a waker fires after an unready poll at t *)
Definition next_wake (c : tcase) : N :=
  match t_ti c with
  | Some ti => N.min ti (t_d c)
  | None => t_d c
  end.

(* result and resolution time *)
Definition run_timeout (c : tcase) : tres * N :=
  match poll_at c (t_p0 c) with
  | Some r => (r, t_p0 c)
  | None =>
      let t := next_wake c in
      match poll_at c t with
      | Some r => (r, t)
      | None => (TNever, t)     (* unreachable: shown in Proofs *)
      end
  end.

(* the inner future is dropped together with the TimeoutFuture, i.e. when it resolves; it is
   never polled after that *)
Definition inner_dropped_at (c : tcase) : N := snd (run_timeout c).
