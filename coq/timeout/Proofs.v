From HD Require Import common.Base timeout.Model timeout.Spec.
Local Open Scope N_scope.

Lemma ires_eqb_refl r : ires_eqb r r = true.
Proof. destruct r; cbn; apply N.eqb_refl. Qed.

Ltac crush :=
  repeat (match goal with
          | |- context [N.leb ?a ?b] => destruct (N.leb_spec a b)
          | |- context [N.eqb ?a ?b] => destruct (N.eqb_spec a b)
          end; cbn [fst snd tres_eqb andb orb negb]; rewrite ?ires_eqb_refl);
  cbn [fst snd tres_eqb andb orb negb]; rewrite ?ires_eqb_refl; try reflexivity; try lia.

Theorem run_timeout_mon c :
  mon_C19 c (fst (run_timeout c)) (snd (run_timeout c)) (inner_dropped_at c) = true.
Proof.
  unfold inner_dropped_at, mon_C19, run_timeout, poll_at, next_wake.
  destruct c as [d p0 [ti|] res hand]; cbn [t_d t_p0 t_ti t_res]; crush.
Qed.

(* resolves by the deadline, for a promptly polled future *)
Theorem run_timeout_deadline c : t_p0 c <= t_d c -> snd (run_timeout c) <= t_d c /\ fst (run_timeout c) <> TNever.
Proof.
  unfold run_timeout, poll_at, next_wake.
  destruct c as [d p0 [ti|] res hand]; cbn [t_d t_p0 t_ti t_res]; intros Hp;
    repeat (match goal with
            | |- context [N.leb ?a ?b] => destruct (N.leb_spec a b)
            end; cbn [fst snd]); split; try lia; discriminate.
Qed.

(* the inner result is returned unchanged exactly when the inner service resolves first *)
Theorem run_timeout_result c :
  fst (run_timeout c) =
  match t_ti c with
  | Some ti => if ti <=? N.max (t_p0 c) (t_d c) then TInner (t_res c) else TTimeout
  | None => TTimeout
  end.
Proof.
  unfold run_timeout, poll_at, next_wake.
  destruct c as [d p0 [ti|] res hand]; cbn [t_d t_p0 t_ti t_res];
    repeat (match goal with
            | |- context [N.leb ?a ?b] => destruct (N.leb_spec a b)
            end; cbn [fst snd]); try reflexivity; lia.
Qed.

(* who drives the future (the task of the first poll or another one it was handed to) changes nothing *)
Theorem run_timeout_handover d p0 ti res h1 h2 :
  run_timeout (mkT d p0 ti res h1) = run_timeout (mkT d p0 ti res h2).
Proof. reflexivity. Qed.
