(* M-TIMEOUT, poll by poll: the closed form [run_timeout] of Model.v assumes the future is polled at p0 and then
   exactly when a waker fires.  Here the driving task ALSO polls the future at arbitrary further instants [sp]
   (spurious polls: a `select!`/`join!` sibling woke the task, a budget yield, ...), in any order and number.
   After an unready poll at t the next poll happens at the earliest of: the instant a registered waker fires
   ([next_wake]: inner ready or deadline) and the spurious instants later than t.
   [run_sched_eq]: for EVERY list of spurious instants the outcome is that of the closed form, so the deadline,
   the result and the drop instant of C19 do not depend on how often the future is polled. *)
From HD Require Import common.Base timeout.Model.
Local Open Scope N_scope.

Definition later (t : N) (sp : list N) : list N := filter (fun s => N.ltb t s) sp.

Definition next_poll (c : tcase) (sp : list N) (t : N) : N :=
  fold_right N.min (next_wake c) (later t sp).

Fixpoint run_from (c : tcase) (sp : list N) (fuel : nat) (t : N) : tres * N :=
  match poll_at c t with
  | Some r => (r, t)
  | None =>
      match fuel with
      | O => (TNever, t)          (* unreachable: run_sched_eq *)
      | S f => run_from c sp f (next_poll c sp t)
      end
  end.

Definition run_sched (c : tcase) (sp : list N) : tres * N :=
  run_from c sp (S (length sp)) (t_p0 c).

(* number of polls made (for the evidence histogram and the non-vacuity example) *)
Fixpoint polls_from (c : tcase) (sp : list N) (fuel : nat) (t : N) : N :=
  match poll_at c t with
  | Some _ => 1
  | None => match fuel with O => 1 | S f => 1 + polls_from c sp f (next_poll c sp t) end
  end.
Definition polls (c : tcase) (sp : list N) : N := polls_from c sp (S (length sp)) (t_p0 c).

(* ---------------------------------------------------------------- proofs *)

Lemma poll_none_iff c t : poll_at c t = None <-> t < next_wake c.
Proof.
  unfold poll_at, next_wake. destruct (t_ti c) as [ti|].
  - destruct (N.leb_spec ti t); [split; [discriminate|lia]|].
    destruct (N.leb_spec (t_d c) t); split; try discriminate; try lia; reflexivity.
  - destruct (N.leb_spec (t_d c) t); split; try discriminate; try lia; reflexivity.
Qed.

Lemma fold_min_le b l : fold_right N.min b l <= b.
Proof. induction l as [|x l IH]; cbn [fold_right]; lia. Qed.

Lemma fold_min_cases b l : fold_right N.min b l = b \/ In (fold_right N.min b l) l.
Proof.
  induction l as [|x l IH]; cbn [fold_right]; [left; reflexivity|].
  destruct (N.min_spec x (fold_right N.min b l)) as [[_ E]|[_ E]]; rewrite E.
  - right; left; reflexivity.
  - destruct IH as [IH|IH]; [left; exact IH|right; right; exact IH].
Qed.

Lemma next_poll_spec c sp t :
  t < next_wake c ->
  next_poll c sp t = next_wake c \/
  (t < next_poll c sp t /\ next_poll c sp t < next_wake c /\ In (next_poll c sp t) sp).
Proof.
  intros Ht. unfold next_poll.
  pose proof (fold_min_le (next_wake c) (later t sp)) as Hle.
  destruct (fold_min_cases (next_wake c) (later t sp)) as [E|Hin]; [left; exact E|].
  unfold later in Hin at 2. apply filter_In in Hin. destruct Hin as [Hin Hlt].
  apply N.ltb_lt in Hlt.
  destruct (N.eq_dec (fold_right N.min (next_wake c) (later t sp)) (next_wake c)) as [E|NE];
    [left; exact E|right; repeat split; [exact Hlt|lia|exact Hin]].
Qed.

(* spurious instants strictly between t and the wake instant *)
Definition between (c : tcase) (sp : list N) (t : N) : list N :=
  filter (fun s => N.ltb t s && N.ltb s (next_wake c)) sp.

Lemma between_shrinks c sp t t' :
  t < t' -> t' < next_wake c -> In t' sp -> (length (between c sp t') < length (between c sp t))%nat.
Proof.
  intros Htt Hw. unfold between. induction sp as [|s sp IH]; intros Hin; [destruct Hin|].
  cbn [filter].
  assert (Hmono : (length (filter (fun s0 => N.ltb t' s0 && N.ltb s0 (next_wake c)) sp)
                   <= length (filter (fun s0 => N.ltb t s0 && N.ltb s0 (next_wake c)) sp))%nat).
  { clear IH Hin. induction sp as [|x sp IH]; cbn [filter]; [lia|].
    destruct (N.ltb_spec t' x); destruct (N.ltb_spec t x); destruct (N.ltb_spec x (next_wake c));
      cbn [andb length]; lia. }
  destruct Hin as [E|Hin].
  - subst s.
    destruct (N.ltb_spec t' t'); [lia|]. destruct (N.ltb_spec t t'); [|lia].
    destruct (N.ltb_spec t' (next_wake c)); [|lia]. cbn [andb length]. lia.
  - specialize (IH Hin).
    destruct (N.ltb_spec t' s); destruct (N.ltb_spec t s); destruct (N.ltb_spec s (next_wake c));
      cbn [andb length]; lia.
Qed.

Lemma run_from_wake c sp fuel t r :
  poll_at c (next_wake c) = Some r ->
  t < next_wake c -> (length (between c sp t) < fuel)%nat ->
  run_from c sp fuel t = (r, next_wake c).
Proof.
  intros Hr. revert t. induction fuel as [|f IH]; intros t Ht Hf; [lia|].
  cbn [run_from]. assert (Hn : poll_at c t = None) by (apply poll_none_iff; exact Ht). rewrite Hn.
  destruct (next_poll_spec c sp t Ht) as [E|(H1 & H2 & H3)].
  - rewrite E. destruct f; cbn [run_from]; rewrite Hr; reflexivity.
  - apply IH; [exact H2|]. pose proof (between_shrinks c sp t _ H1 H2 H3). lia.
Qed.

Lemma between_le_length c sp t : (length (between c sp t) <= length sp)%nat.
Proof. unfold between. induction sp as [|s sp IH]; cbn [filter length]; [lia|].
  destruct (_ && _); cbn [length]; lia. Qed.

Lemma wake_ready c : exists r, poll_at c (next_wake c) = Some r.
Proof.
  destruct (poll_at c (next_wake c)) as [r|] eqn:E; [exists r; reflexivity|].
  apply poll_none_iff in E. lia.
Qed.

Theorem run_sched_eq c sp : run_sched c sp = run_timeout c.
Proof.
  unfold run_sched, run_timeout. cbn [run_from].
  destruct (poll_at c (t_p0 c)) as [r|] eqn:E0; [reflexivity|].
  destruct (wake_ready c) as [r Hr]. rewrite Hr.
  apply poll_none_iff in E0.
  destruct (next_poll_spec c sp (t_p0 c) E0) as [E|(H1 & H2 & H3)].
  - rewrite E. destruct (length sp); cbn [run_from]; rewrite Hr; reflexivity.
  - apply run_from_wake; [exact Hr|exact H2|].
    pose proof (between_shrinks c sp _ _ H1 H2 H3).
    pose proof (between_le_length c sp (t_p0 c)). lia.
Qed.

(* an executor that is LATE: the poll after the wake-up happens at some t' >= next_wake (all earlier polls were
   before the wake instant).  The future still resolves at that poll, with the inner result if the inner work is
   ready by then (the inner future is asked first) and the timeout error otherwise - never "pending again". *)
Theorem late_poll_resolves c t' :
  next_wake c <= t' ->
  poll_at c t' = Some (match t_ti c with
                       | Some ti => if ti <=? t' then TInner (t_res c) else TTimeout
                       | None => TTimeout
                       end).
Proof.
  intros H. unfold poll_at, next_wake in *. destruct (t_ti c) as [ti|].
  - destruct (N.leb_spec ti t'); [reflexivity|]. destruct (N.leb_spec (t_d c) t'); [reflexivity|lia].
  - destruct (N.leb_spec (t_d c) t'); [reflexivity|lia].
Qed.

Example sched_example :
  run_sched (mkT 10 0 (Some 11) (IOk 1) false) [3; 12; 7; 3; 10] = (TTimeout, 10)
  /\ polls (mkT 10 0 (Some 11) (IOk 1) false) [3; 12; 7; 3; 10] = 4
  /\ run_sched (mkT 10 2 (Some 6) (IErr 4) true) [1; 5; 9] = (TInner (IErr 4), 6).
Proof. vm_compute. auto. Qed.
