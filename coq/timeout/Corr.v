From HD Require Import common.Base timeout.Model timeout.Spec timeout.Sched.

(* a case = the closed-form case plus the instants of additional (spurious) polls by the driving task;
   the model side is the poll-by-poll [run_sched] (equal to [run_timeout] for every list: Sched.run_sched_eq) *)
Definition case := (tcase * list N)%type.
(* result, resolved at (None = never), inner dropped at *)
Definition obs := (tres * option N * option N)%type.

Definition model_obs (c : case) : obs :=
  let '(r, t) := run_sched (fst c) (snd c) in (r, Some t, Some t).

Definition obs_eqb (a b : obs) : bool :=
  tres_eqb (fst (fst a)) (fst (fst b)) && option_eqb N.eqb (snd (fst a)) (snd (fst b))
  && option_eqb N.eqb (snd a) (snd b).

Definition mon (c : case) (o : obs) : bool :=
  match o with
  | (r, Some t, Some dr) => mon_C19 (fst c) r t dr
  | _ => false
  end.

Definition check_all (cs : list (case * obs)) : list N * list N :=
  (falses (map (fun co => obs_eqb (model_obs (fst co)) (snd co)) cs),
   falses (map (fun co => mon (fst co) (snd co)) cs)).
