From HD Require Import common.Base timeout.Model timeout.Spec.

Definition case := tcase.
(* result, resolved at (None = never), inner dropped at *)
Definition obs := (tres * option N * option N)%type.

Definition model_obs (c : case) : obs :=
  let '(r, t) := run_timeout c in (r, Some t, Some (inner_dropped_at c)).

Definition obs_eqb (a b : obs) : bool :=
  tres_eqb (fst (fst a)) (fst (fst b)) && option_eqb N.eqb (snd (fst a)) (snd (fst b))
  && option_eqb N.eqb (snd a) (snd b).

Definition mon (c : case) (o : obs) : bool :=
  match o with
  | (r, Some t, Some dr) => mon_C19 c r t dr
  | _ => false
  end.

Definition check_all (cs : list (case * obs)) : list N * list N :=
  (falses (map (fun co => obs_eqb (model_obs (fst co)) (snd co)) cs),
   falses (map (fun co => mon (fst co) (snd co)) cs)).
