From HD Require Import common.Base timeout.Model.

Definition ires_eqb (a b : ires) : bool :=
  match a, b with IOk x, IOk y | IErr x, IErr y => N.eqb x y | _, _ => false end.
Definition tres_eqb (a b : tres) : bool :=
  match a, b with
  | TInner x, TInner y => ires_eqb x y
  | TTimeout, TTimeout | TNever, TNever => true
  | _, _ => false
  end.

(* C19 (first half): resolves with the timeout error no later than d after the call unless the
   inner service resolved first (ties to the inner), in which case its result is returned
   unchanged; the inner work is dropped at that instant.  The deadline clause is judged for a
   future that is polled promptly (p0 <= d). *)
Definition mon_C19 (c : tcase) (r : tres) (at_ : N) (dropped : N) : bool :=
  let inner_first := match t_ti c with Some ti => N.leb ti (N.max (t_p0 c) (t_d c)) | None => false end in
  (if inner_first then tres_eqb r (TInner (t_res c)) else tres_eqb r TTimeout)
  && (negb (N.leb (t_p0 c) (t_d c)) || N.leb at_ (t_d c))
  && (match r, t_ti c with TInner _, Some ti => N.eqb at_ (N.max (t_p0 c) ti) | TTimeout, _ => N.eqb at_ (N.max (t_p0 c) (t_d c)) | _, _ => false end)
  && N.eqb dropped at_.
