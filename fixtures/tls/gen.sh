#!/bin/sh
# Mint the TLS fixtures used by the C12/C09/C01 harnesses (run once; results are committed).
set -e
cd "$(dirname "$0")"
days=36500
mk_ca() { # name
  openssl ecparam -name prime256v1 -genkey -noout -out $1.key.ec
  openssl pkcs8 -topk8 -nocrypt -in $1.key.ec -out $1.key && rm $1.key.ec
  openssl req -x509 -new -key $1.key -sha256 -days $days -subj "/CN=verif $1" \
    -addext "basicConstraints=critical,CA:TRUE" -addext "keyUsage=critical,keyCertSign,cRLSign" -out $1.pem
}
mk_leaf() { # name ca san
  openssl ecparam -name prime256v1 -genkey -noout -out $1.key.ec
  openssl pkcs8 -topk8 -nocrypt -in $1.key.ec -out $1.key && rm $1.key.ec
  openssl req -new -key $1.key -subj "/CN=$1" -out $1.csr
  printf "subjectAltName=$3\nbasicConstraints=CA:FALSE\nkeyUsage=digitalSignature\nextendedKeyUsage=serverAuth\n" > $1.ext
  openssl x509 -req -in $1.csr -CA $2.pem -CAkey $2.key -CAcreateserial -days $days -sha256 -extfile $1.ext -out $1.pem
  rm $1.csr $1.ext
}
mk_ca ca
mk_ca otherca
mk_leaf good ca "DNS:example.test,DNS:*.wild.test,DNS:localhost,IP:127.0.0.1,IP:::1"
mk_leaf wrongname ca "DNS:other.test"
mk_leaf untrusted otherca "DNS:example.test,DNS:localhost,IP:127.0.0.1,IP:::1"
rm -f *.srl
