(* Bounded exhaustive / random search over the extracted pool model for histories on which one of the
   monitors fails.  SUPPORT TOOL ONLY (violation search, monitor calibration): not a proof, and no
   check verdict depends on it.
   usage: poolsearch <depth> <maxreq> <pool 0|1> <timeout ms|-> <max_idle> <cont 0|1> <nuris> [drain] [first-op-index/of]
   prints failing histories in the harness' case syntax, one per line: "<monitor> ; <case line>" *)
open Poolmodel

let rec nat_of_int n = if n <= 0 then O else S (nat_of_int (n - 1))
let rec int_of_nat = function O -> 0 | S n -> 1 + int_of_nat n
let rec pos_of_int n = if n = 1 then XH else if n land 1 = 0 then XO (pos_of_int (n lsr 1)) else XI (pos_of_int (n lsr 1))
let n_of_int n = if n = 0 then N0 else Npos (pos_of_int n)
let chars s = List.init (String.length s) (String.get s)

let uris_all = [ Some (chars "http", chars "a.test"); Some (chars "https", chars "a.test"); None ]

let op_str = function
  | Issue (u, p) -> Printf.sprintf "I%d.%d" (int_of_nat u) (match p with H1 -> 1 | H2 -> 2)
  | Poll r -> Printf.sprintf "P%d" (int_of_nat r)
  | Cancel r -> Printf.sprintf "X%d" (int_of_nat r)
  | Finish r -> Printf.sprintf "F%d" (int_of_nat r)
  | Upgrade r -> Printf.sprintf "U%d" (int_of_nat r)
  | DialDone (r, x) -> Printf.sprintf "D%d.%s" (int_of_nat r) (match x with DOk false -> "o" | DOk true -> "a" | DErrConnect -> "c" | DErrHandshake -> "h")
  | ConnReady c -> Printf.sprintf "R%d" (int_of_nat c)
  | ConnClose c -> Printf.sprintf "C%d" (int_of_nat c)
  | Bg -> "B"
  | Tick _ -> "T1000"

let () =
  let a = Sys.argv in
  let depth = int_of_string a.(1) and maxreq = int_of_string a.(2) in
  let pool = a.(3) = "1" in
  let timeout = if a.(4) = "-" then None else Some (n_of_int (int_of_string a.(4))) in
  let max_idle = int_of_string a.(5) and cont = a.(6) = "1" and nuris = int_of_string a.(7) in
  let drain = Array.length a > 8 && a.(8) = "drain" in
  let part = if Array.length a > 9 then Scanf.sscanf a.(9) "%d/%d" (fun i n -> Some (i, n)) else None in
  let uris = List.filteri (fun i _ -> i < nuris) uris_all in
  let cfg = { g_pool = pool; g_timeout = timeout; g_max_idle = nat_of_int max_idle; g_cont = cont; g_uris = uris } in
  let cfg_str = Printf.sprintf "%d %s %d %d" (if pool then 1 else 0) a.(4) max_idle (if cont then 1 else 0) in
  let monitors = [ ("C02", chk_C02); ("C03", chk_C03); ("C04", chk_C04 false); ("C04d6", chk_C04 true); ("C05", chk_C05);
                   ("C06", chk_C06); ("C14", chk_C14); ("C15", chk_C15) ] in
  let found = Hashtbl.create 16 in
  let nodes = ref 0 in
  let report name ops_rev =
    let k = try Hashtbl.find found name with Not_found -> 0 in
    if k < 5 then begin
      Hashtbl.replace found name (k + 1);
      Printf.printf "%s ; %s ; %s\n%!" name cfg_str (String.concat " " (List.rev_map op_str ops_rev))
    end in
  let alphabet s =
    let nreq = List.length s.reqs and nconn = List.length s.conns in
    let rs = List.init nreq nat_of_int and cs = List.init nconn nat_of_int in
    (if nreq < maxreq then List.concat_map (fun u -> [ Issue (nat_of_int u, H1); Issue (nat_of_int u, H2) ]) (List.init nuris (fun i -> i)) else [])
    @ List.concat_map (fun r -> [ Poll r; Cancel r; Finish r; DialDone (r, DOk false); DialDone (r, DErrConnect) ]) rs
    @ (if nuris > 0 then List.concat_map (fun r -> [ DialDone (r, DOk true); Upgrade r ]) rs else [])
    @ List.concat_map (fun c -> [ ConnReady c; ConnClose c ]) cs
    @ [ Bg ]
    @ (match timeout with Some _ -> [ Tick (n_of_int 1000) ] | None -> []) in
  let strip s = { s with out = []; } in
  let visited = Hashtbl.create 1000003 in
  let rec go d s m ops_rev =
    incr nodes;
    if d < depth then
      List.iteri (fun i o ->
          let skip = match part, ops_rev with Some (pi, pn), [] -> i mod pn <> pi | _ -> false in
          if not skip then begin
            let s' = step cfg s o in
            let ob = observe s' in
            (* an op that changes nothing and emits nothing is irrelevant *)
            if not (ob.o_events = [] && strip s' = strip s) || (match o with Tick _ -> true | _ -> false) then begin
              let bad = List.filter (fun (_, chk) -> not (chk cfg m o ob)) monitors in
              List.iter (fun (name, _) -> report name (o :: ops_rev)) bad;
              if bad = [] || List.for_all (fun (n, _) -> n = "C04d6") bad then begin
                let m' = track cfg m o ob in
                let key = Marshal.to_string (strip s', { m' with m_i = O; m_prev = { ob with o_events = [] } }, depth - d) [] in
                let h = Hashtbl.hash key in
                if not (Hashtbl.mem visited (h, String.length key, Digest.string key)) then begin
                  Hashtbl.add visited (h, String.length key, Digest.string key) ();
                  go (d + 1) s' m' (o :: ops_rev)
                end
              end
            end
          end)
        (alphabet s)
    else if drain && List.length s.reqs > 0 then begin
      (* closing procedure: everybody must be resolved *)
      let nreq = nat_of_int (List.length s.reqs) in
      let dops = drain_ops nreq O H1 in
      let rec run s m = function
        | [] -> m
        | o :: rest -> let s' = step cfg s o in let ob = observe s' in
            if not (chk_C03 cfg m o ob) then report "C03drain-step" (o :: ops_rev);
            run s' (track cfg m o ob) rest in
      let mf = run s m dops in
      if not (all_resolved mf) then report "C03drain" ops_rev
    end in
  go 0 init m0 [];
  Printf.printf "# nodes %d visited %d\n%!" !nodes (Hashtbl.length visited)
