
val negb : bool -> bool

type nat =
| O
| S of nat

type ('a, 'b) sum =
| Inl of 'a
| Inr of 'b

val fst : ('a1 * 'a2) -> 'a1

val snd : ('a1 * 'a2) -> 'a2

val length : 'a1 list -> nat

val app : 'a1 list -> 'a1 list -> 'a1 list

type comparison =
| Eq
| Lt
| Gt

val pred : nat -> nat

val add : nat -> nat -> nat

val mul : nat -> nat -> nat

val sub : nat -> nat -> nat

val eqb : bool -> bool -> bool

module Nat :
 sig
  val eqb : nat -> nat -> bool

  val leb : nat -> nat -> bool

  val ltb : nat -> nat -> bool

  val max : nat -> nat -> nat
 end

val nth : nat -> 'a1 list -> 'a1 -> 'a1

val nth_error : 'a1 list -> nat -> 'a1 option

val rev : 'a1 list -> 'a1 list

val map : ('a1 -> 'a2) -> 'a1 list -> 'a2 list

val fold_left : ('a1 -> 'a2 -> 'a1) -> 'a2 list -> 'a1 -> 'a1

val existsb : ('a1 -> bool) -> 'a1 list -> bool

val forallb : ('a1 -> bool) -> 'a1 list -> bool

val filter : ('a1 -> bool) -> 'a1 list -> 'a1 list

val find : ('a1 -> bool) -> 'a1 list -> 'a1 option

val combine : 'a1 list -> 'a2 list -> ('a1 * 'a2) list

val firstn : nat -> 'a1 list -> 'a1 list

val skipn : nat -> 'a1 list -> 'a1 list

val seq : nat -> nat -> nat list

type positive =
| XI of positive
| XO of positive
| XH

type n =
| N0
| Npos of positive

module Pos :
 sig
  type mask =
  | IsNul
  | IsPos of positive
  | IsNeg
 end

module Coq_Pos :
 sig
  val succ : positive -> positive

  val add : positive -> positive -> positive

  val add_carry : positive -> positive -> positive

  val pred_double : positive -> positive

  type mask = Pos.mask =
  | IsNul
  | IsPos of positive
  | IsNeg

  val succ_double_mask : mask -> mask

  val double_mask : mask -> mask

  val double_pred_mask : positive -> mask

  val sub_mask : positive -> positive -> mask

  val sub_mask_carry : positive -> positive -> mask

  val mul : positive -> positive -> positive

  val compare_cont : comparison -> positive -> positive -> comparison

  val compare : positive -> positive -> comparison

  val eqb : positive -> positive -> bool

  val iter_op : ('a1 -> 'a1 -> 'a1) -> positive -> 'a1 -> 'a1

  val to_nat : positive -> nat

  val of_succ_nat : nat -> positive
 end

module N :
 sig
  val add : n -> n -> n

  val sub : n -> n -> n

  val mul : n -> n -> n

  val compare : n -> n -> comparison

  val eqb : n -> n -> bool

  val leb : n -> n -> bool

  val ltb : n -> n -> bool

  val to_nat : n -> nat

  val of_nat : nat -> n
 end

val zero : char

val one : char

val shift : bool -> char -> char

val ascii_of_pos : positive -> char

val ascii_of_N : n -> char

val ascii_of_nat : nat -> char

val n_of_digits : bool list -> n

val n_of_ascii : char -> n

val nat_of_ascii : char -> nat

val eqb0 : char list -> char list -> bool

val list_eqb : ('a1 -> 'a1 -> bool) -> 'a1 list -> 'a1 list -> bool

val lower_ascii : char -> char

val lower : char list -> char list

val eq_ci : char list -> char list -> bool

type key = char list * char list

val key_eqb : key -> key -> bool

type proto =
| H1
| H2

type dres =
| DOk of bool
| DErrConnect
| DErrHandshake

type dstage =
| DNew
| DInFlight
| DResolved of dres
| DGone

type poller =
| ByReq
| ByTask of nat

type dial = { d_stage : dstage; d_proto : proto; d_key : key;
              d_uri : key option; d_polled : poller option }

type err =
| EConn
| EHs
| EUnavail
| EUri

type rres =
| ROk
| RErr of err

type pooled = nat * nat

type waiter =
| WIdle
| WConnecting
| WNoPool

type inner =
| IWaiting
| IConnected
| IConnecting
| IDelayDrop
| IDelayed

type checkout = { k_token : nat; k_waiter : waiter; k_inner : inner;
                  k_conn : nat option; k_owner : bool;
                  k_slot : pooled option; k_txdropped : bool;
                  k_rxpolled : bool }

type req =
| RError
| RCheckout of checkout
| RHolding of pooled * bool * bool
| RDone
| RCancelled

type conn = { c_origin : nat; c_share : bool; c_open : bool; c_ready : 
              bool; c_refs : nat; c_holders : nat; c_waiters : nat list }

type task =
| TWhenReady of nat * nat
| TDelayed of nat * nat * bool

type ptok = { p_idle : (nat * n) list; p_waiting : (nat * bool) list;
              p_marker : nat option }

val empty_tok : ptok

type config = { g_pool : bool; g_timeout : n option; g_max_idle : nat;
                g_cont : bool; g_uris : key option list }

type ev =
| EDial of nat * key
| ENew of nat * bool * nat
| EHand of nat * nat * bool * bool * bool * nat
| EPend of nat
| ERes of nat * rres
| ERel of nat * nat
| EDrop of nat
| ERdy of nat * bool

type state = { now : n; keys : key list; toks : ptok list; conns : conn list;
               reqs : req list; dials : dial list; woken : bool list;
               tasks : task option list; runq : nat list; out : ev list }

val init : state

val set_now : n -> state -> state

val set_keys : key list -> state -> state

val set_toks : ptok list -> state -> state

val set_conns : conn list -> state -> state

val set_reqs : req list -> state -> state

val set_dials : dial list -> state -> state

val set_woken : bool list -> state -> state

val set_tasks : task option list -> state -> state

val set_runq : nat list -> state -> state

val set_out : ev list -> state -> state

val emit : ev -> state -> state

val upd_nth : nat -> ('a1 -> 'a1) -> 'a1 list -> 'a1 list

val get_conn : state -> nat -> conn option

val upd_conn : nat -> (conn -> conn) -> state -> state

val get_req : state -> nat -> req option

val set_req : nat -> req -> state -> state

val get_dial : state -> nat -> dial option

val upd_dial : nat -> (dial -> dial) -> state -> state

val get_tok : state -> nat -> ptok

val upd_tok : nat -> (ptok -> ptok) -> state -> state

val set_idle : (nat * n) list -> ptok -> ptok

val set_waiting : (nat * bool) list -> ptok -> ptok

val set_marker : nat option -> ptok -> ptok

val c_set_refs : nat -> conn -> conn

val c_set_open : bool -> conn -> conn

val c_set_ready : bool -> conn -> conn

val c_set_holders : nat -> conn -> conn

val c_set_waiters : nat list -> conn -> conn

val k_set_waiter : waiter -> checkout -> checkout

val k_set_inner : inner -> checkout -> checkout

val k_set_conn : nat option -> checkout -> checkout

val k_set_slot : pooled option -> checkout -> checkout

val k_set_rxpolled : bool -> checkout -> checkout

val k_set_txdropped : bool -> checkout -> checkout

val d_set_stage : dstage -> dial -> dial

val d_set_polled : poller option -> dial -> dial

val share_of : state -> nat -> bool

val is_open : state -> nat -> bool

val drop_conn : nat -> state -> state

val clone_conn : nat -> state -> state

val spawn : task -> state -> state

val wake_task : nat -> state -> state

val wake_req : nat -> state -> state

val unwake_req : nat -> state -> state

val wake_poller : poller option -> nat -> state -> state

val pooled_drop : pooled -> state -> state

val rx_live : state -> nat -> bool

val deliver : nat -> pooled -> state -> state

val walk_waiters :
  nat -> nat -> bool -> (nat * bool) list -> state -> ((nat * bool)
  list * bool) * state

val pool_push : nat -> nat -> nat -> state -> state

val drop_sender : nat -> state -> state

val release_pending : (nat * bool) list -> state -> (nat * bool) list * state

val pool_cancel : nat -> nat -> state -> state

val drop_all : (nat * n) list -> state -> state

val pop_loop :
  n option -> (nat * n) list -> state -> (nat option * (nat * n) list) * state

val expiry_threshold : n option -> n -> n option

val pool_pop : n option -> nat -> state -> nat option * state

val find_key : key -> key list -> nat -> nat option

val key_insert : key -> state -> nat * state

val register : config -> nat -> nat -> state -> pooled * state

type cpoll =
| CPending
| CReady of (nat, err) sum

val connector_poll : nat -> poller -> state -> cpoll * state

type wpoll =
| WPending
| WConnected of pooled
| WContinue

val waiter_poll : checkout -> wpoll * checkout

val rx_drop : checkout -> state -> checkout * state

type kpoll =
| KPending
| KReady of (pooled, err) sum

val checkout_poll :
  config -> nat -> checkout -> state -> (kpoll * checkout) * state

val checkout_drop : config -> nat -> checkout -> state -> state

type op =
| Issue of nat * proto
| Poll of nat
| Cancel of nat
| Finish of nat
| Upgrade of nat
| DialDone of nat * dres
| ConnReady of nat
| ConnClose of nat
| Bg
| Tick of n

val new_ck : nat -> waiter -> inner -> nat option -> bool -> bool -> checkout

val do_issue : config -> nat -> proto -> state -> state

val hold_release : nat -> pooled -> state -> state

val do_poll : config -> nat -> state -> state

val do_cancel : config -> nat -> state -> state

val do_finish : nat -> state -> state

val wake_tasks : nat list -> state -> state

val drain_conn_waiters : nat -> state -> state

val do_upgrade : nat -> state -> state

val do_dial_done : nat -> dres -> state -> state

val do_conn_ready : nat -> state -> state

val do_conn_close : nat -> state -> state

val finish_task : nat -> state -> state

val run_task : config -> nat -> state -> state

val bg_loop : config -> nat -> state -> state

val do_bg : config -> state -> state

val step : config -> state -> op -> state

type snap = { sn_token : nat; sn_idle : nat list; sn_live : nat;
              sn_closed : nat; sn_marker : bool }

val count_live : state -> (nat * bool) list -> nat

val snaps_from : state -> nat -> ptok list -> snap list

val snapshot : state -> snap list

val trues_from : nat -> bool list -> nat list

type opobs = { o_events : ev list; o_snap : snap list; o_woken : nat list }

val observe : state -> opobs

val trace_from : config -> state -> op list -> opobs list

val trace : config -> op list -> opobs list

type rstat =
| SLive
| SHeld of nat
| SDone
| SCancelled

type dstat =
| DsNone
| DsFlying
| DsOver

type rinfo = { ri_at : nat; ri_time : n; ri_key : key option;
               ri_proto : proto; ri_stat : rstat; ri_pend : bool;
               ri_lastpend : nat; ri_dial : dstat; ri_resolved : bool option;
               ri_popc : nat option; ri_d6 : bool; ri_avail : bool;
               ri_aband : bool; ri_poph : nat option; ri_popx : nat option }

val set_ri_stat : rstat -> rinfo -> rinfo

val set_ri_pend : bool -> rinfo -> rinfo

val set_ri_lastpend : nat -> rinfo -> rinfo

val set_ri_dial : dstat -> rinfo -> rinfo

val set_ri_resolved : bool option -> rinfo -> rinfo

val set_ri_aband : bool -> rinfo -> rinfo

type cinfo = { ci_origin : nat; ci_share : bool; ci_new_at : nat;
               ci_closed : nat option; ci_back : nat; ci_back_time : 
               n; ci_holder : nat option; ci_rel_ready : bool;
               ci_upgraded : bool; ci_dropped : bool; ci_offer : nat option;
               ci_idle_time : n }

val set_ci_closed : nat option -> cinfo -> cinfo

val set_ci_back : nat -> cinfo -> cinfo

val set_ci_back_time : n -> cinfo -> cinfo

val set_ci_holder : nat option -> cinfo -> cinfo

val set_ci_rel_ready : bool -> cinfo -> cinfo

val set_ci_upgraded : bool -> cinfo -> cinfo

val set_ci_dropped : bool -> cinfo -> cinfo

val set_ci_offer : nat option -> cinfo -> cinfo

val set_ci_idle_time : n -> cinfo -> cinfo

type mst = { m_i : nat; m_time : n; m_keys : key list; m_reqs : rinfo list;
             m_conns : cinfo list; m_prev : opobs }

val set_m_i : nat -> mst -> mst

val set_m_time : n -> mst -> mst

val set_m_keys : key list -> mst -> mst

val set_m_reqs : rinfo list -> mst -> mst

val set_m_conns : cinfo list -> mst -> mst

val set_m_prev : opobs -> mst -> mst

val m0 : mst

val tok_of : key list -> key -> nat

val snap_of : snap list -> nat -> snap option

val idle_of : snap list -> nat -> nat list

val live_of : snap list -> nat -> nat

val mem : nat -> nat list -> bool

val ri_upd : (rinfo -> rinfo) -> nat -> mst -> mst

val ci_upd : (cinfo -> cinfo) -> nat -> mst -> mst

val req_key : mst -> nat -> key option

val conn_key : mst -> nat -> key option

val same_key : key option -> key option -> bool

val key_tok : mst -> key option -> nat

val first_some : 'a1 option -> 'a1 -> 'a1 option

val unexpired : config -> mst -> cinfo -> bool

val usable : config -> mst -> nat -> bool

val open_conn : mst -> nat -> bool

val track_ev : mst -> ev -> mst

val holder_conn : mst -> nat -> nat option

val popped_conn : config -> mst -> nat list -> nat list -> nat option

val is_live : rinfo -> bool

val h2_handle_out : mst -> nat -> key option -> bool

val track_op : config -> mst -> op -> opobs -> mst

val track_offer : opobs -> mst -> ev -> mst

val track_idle_stamp : snap list -> mst -> snap -> mst

val track : config -> mst -> op -> opobs -> mst

val mon_steps :
  (config -> mst -> op -> opobs -> bool) -> config -> mst -> op list -> opobs
  list -> bool

val mon_with :
  (config -> mst -> op -> opobs -> bool) -> config -> op list -> opobs list
  -> bool

val final_mst : config -> mst -> op list -> opobs list -> mst

val evs_ok : (mst -> ev -> bool) -> mst -> ev list -> bool

val chk_C15 : config -> mst -> op -> opobs -> bool

val mon_C15 : config -> op list -> opobs list -> bool

val chk_ev_C06 : mst -> ev -> bool

val chk_C06 : config -> mst -> op -> opobs -> bool

val mon_C06 : config -> op list -> opobs list -> bool

val chk_ev_C02 : mst -> ev -> bool

val chk_C02 : config -> mst -> op -> opobs -> bool

val mon_C02 : config -> op list -> opobs list -> bool

val chk_ev_C05 : config -> mst -> ev -> bool

val chk_C05 : config -> mst -> op -> opobs -> bool

val mon_C05 : config -> op list -> opobs list -> bool

val is_gone : rinfo -> bool

val chk_ev_C03 : nat list -> mst -> ev -> bool

val chk_C03 : config -> mst -> op -> opobs -> bool

val drain_ops : nat -> nat -> proto -> op list

val count_issues : op list -> nat

val all_resolved : mst -> bool

val mon_C03 : config -> op list -> bool -> opobs list -> bool

val share_conn_since : mst -> key option -> nat -> bool

val h2_flying : bool -> config -> mst -> nat -> key option -> bool

val chk_ev_C04 : bool -> config -> opobs -> mst -> ev -> bool

val no_parked_while_waiting : config -> mst -> opobs -> bool

val chk_C04 : bool -> config -> mst -> op -> opobs -> bool

val mon_C04 : config -> op list -> opobs list -> bool

val mon_C04_but_D6 : config -> op list -> opobs list -> bool

val chk_ev_C14 : config -> op -> opobs -> mst -> ev -> bool

val chk_bg_C14 : config -> mst -> op -> opobs -> bool

val chk_C14 : config -> mst -> op -> opobs -> bool

val mon_C14 : config -> op list -> opobs list -> bool

type case = { k_cfg : config; k_ops : op list;
              k_drained : (nat * proto) option }

val op_eqb : op -> op -> bool

val well_formed : case -> bool

type obs = opobs list

val drained_b : case -> bool

val mon_of : nat -> case -> obs -> bool
