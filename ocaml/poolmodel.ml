
(** val negb : bool -> bool **)

let negb = function
| true -> false
| false -> true

type nat =
| O
| S of nat

type ('a, 'b) sum =
| Inl of 'a
| Inr of 'b

(** val fst : ('a1 * 'a2) -> 'a1 **)

let fst = function
| (x, _) -> x

(** val snd : ('a1 * 'a2) -> 'a2 **)

let snd = function
| (_, y) -> y

(** val length : 'a1 list -> nat **)

let rec length = function
| [] -> O
| _ :: l' -> S (length l')

(** val app : 'a1 list -> 'a1 list -> 'a1 list **)

let rec app l m =
  match l with
  | [] -> m
  | a :: l1 -> a :: (app l1 m)

type comparison =
| Eq
| Lt
| Gt

(** val pred : nat -> nat **)

let pred n0 = match n0 with
| O -> n0
| S u -> u

module Coq__1 = struct
 (** val add : nat -> nat -> nat **)
 let rec add n0 m =
   match n0 with
   | O -> m
   | S p -> S (add p m)
end
include Coq__1

(** val mul : nat -> nat -> nat **)

let rec mul n0 m =
  match n0 with
  | O -> O
  | S p -> add m (mul p m)

(** val sub : nat -> nat -> nat **)

let rec sub n0 m =
  match n0 with
  | O -> n0
  | S k -> (match m with
            | O -> n0
            | S l -> sub k l)

(** val eqb : bool -> bool -> bool **)

let eqb b1 b2 =
  if b1 then b2 else if b2 then false else true

module Nat =
 struct
  (** val eqb : nat -> nat -> bool **)

  let rec eqb n0 m =
    match n0 with
    | O -> (match m with
            | O -> true
            | S _ -> false)
    | S n' -> (match m with
               | O -> false
               | S m' -> eqb n' m')

  (** val leb : nat -> nat -> bool **)

  let rec leb n0 m =
    match n0 with
    | O -> true
    | S n' -> (match m with
               | O -> false
               | S m' -> leb n' m')

  (** val ltb : nat -> nat -> bool **)

  let ltb n0 m =
    leb (S n0) m

  (** val max : nat -> nat -> nat **)

  let rec max n0 m =
    match n0 with
    | O -> m
    | S n' -> (match m with
               | O -> n0
               | S m' -> S (max n' m'))
 end

(** val nth : nat -> 'a1 list -> 'a1 -> 'a1 **)

let rec nth n0 l default =
  match n0 with
  | O -> (match l with
          | [] -> default
          | x :: _ -> x)
  | S m -> (match l with
            | [] -> default
            | _ :: t -> nth m t default)

(** val nth_error : 'a1 list -> nat -> 'a1 option **)

let rec nth_error l = function
| O -> (match l with
        | [] -> None
        | x :: _ -> Some x)
| S n1 -> (match l with
           | [] -> None
           | _ :: l0 -> nth_error l0 n1)

(** val rev : 'a1 list -> 'a1 list **)

let rec rev = function
| [] -> []
| x :: l' -> app (rev l') (x :: [])

(** val map : ('a1 -> 'a2) -> 'a1 list -> 'a2 list **)

let rec map f = function
| [] -> []
| a :: t -> (f a) :: (map f t)

(** val fold_left : ('a1 -> 'a2 -> 'a1) -> 'a2 list -> 'a1 -> 'a1 **)

let rec fold_left f l a0 =
  match l with
  | [] -> a0
  | b :: t -> fold_left f t (f a0 b)

(** val existsb : ('a1 -> bool) -> 'a1 list -> bool **)

let rec existsb f = function
| [] -> false
| a :: l0 -> (||) (f a) (existsb f l0)

(** val forallb : ('a1 -> bool) -> 'a1 list -> bool **)

let rec forallb f = function
| [] -> true
| a :: l0 -> (&&) (f a) (forallb f l0)

(** val filter : ('a1 -> bool) -> 'a1 list -> 'a1 list **)

let rec filter f = function
| [] -> []
| x :: l0 -> if f x then x :: (filter f l0) else filter f l0

(** val find : ('a1 -> bool) -> 'a1 list -> 'a1 option **)

let rec find f = function
| [] -> None
| x :: tl -> if f x then Some x else find f tl

(** val combine : 'a1 list -> 'a2 list -> ('a1 * 'a2) list **)

let rec combine l l' =
  match l with
  | [] -> []
  | x :: tl ->
    (match l' with
     | [] -> []
     | y :: tl' -> (x, y) :: (combine tl tl'))

(** val firstn : nat -> 'a1 list -> 'a1 list **)

let rec firstn n0 l =
  match n0 with
  | O -> []
  | S n1 -> (match l with
             | [] -> []
             | a :: l0 -> a :: (firstn n1 l0))

(** val skipn : nat -> 'a1 list -> 'a1 list **)

let rec skipn n0 l =
  match n0 with
  | O -> l
  | S n1 -> (match l with
             | [] -> []
             | _ :: l0 -> skipn n1 l0)

(** val seq : nat -> nat -> nat list **)

let rec seq start = function
| O -> []
| S len0 -> start :: (seq (S start) len0)

type positive =
| XI of positive
| XO of positive
| XH

type n =
| N0
| Npos of positive

module Pos =
 struct
  type mask =
  | IsNul
  | IsPos of positive
  | IsNeg
 end

module Coq_Pos =
 struct
  (** val succ : positive -> positive **)

  let rec succ = function
  | XI p -> XO (succ p)
  | XO p -> XI p
  | XH -> XO XH

  (** val add : positive -> positive -> positive **)

  let rec add x y =
    match x with
    | XI p ->
      (match y with
       | XI q -> XO (add_carry p q)
       | XO q -> XI (add p q)
       | XH -> XO (succ p))
    | XO p ->
      (match y with
       | XI q -> XI (add p q)
       | XO q -> XO (add p q)
       | XH -> XI p)
    | XH -> (match y with
             | XI q -> XO (succ q)
             | XO q -> XI q
             | XH -> XO XH)

  (** val add_carry : positive -> positive -> positive **)

  and add_carry x y =
    match x with
    | XI p ->
      (match y with
       | XI q -> XI (add_carry p q)
       | XO q -> XO (add_carry p q)
       | XH -> XI (succ p))
    | XO p ->
      (match y with
       | XI q -> XO (add_carry p q)
       | XO q -> XI (add p q)
       | XH -> XO (succ p))
    | XH ->
      (match y with
       | XI q -> XI (succ q)
       | XO q -> XO (succ q)
       | XH -> XI XH)

  (** val pred_double : positive -> positive **)

  let rec pred_double = function
  | XI p -> XI (XO p)
  | XO p -> XI (pred_double p)
  | XH -> XH

  type mask = Pos.mask =
  | IsNul
  | IsPos of positive
  | IsNeg

  (** val succ_double_mask : mask -> mask **)

  let succ_double_mask = function
  | IsNul -> IsPos XH
  | IsPos p -> IsPos (XI p)
  | IsNeg -> IsNeg

  (** val double_mask : mask -> mask **)

  let double_mask = function
  | IsPos p -> IsPos (XO p)
  | x0 -> x0

  (** val double_pred_mask : positive -> mask **)

  let double_pred_mask = function
  | XI p -> IsPos (XO (XO p))
  | XO p -> IsPos (XO (pred_double p))
  | XH -> IsNul

  (** val sub_mask : positive -> positive -> mask **)

  let rec sub_mask x y =
    match x with
    | XI p ->
      (match y with
       | XI q -> double_mask (sub_mask p q)
       | XO q -> succ_double_mask (sub_mask p q)
       | XH -> IsPos (XO p))
    | XO p ->
      (match y with
       | XI q -> succ_double_mask (sub_mask_carry p q)
       | XO q -> double_mask (sub_mask p q)
       | XH -> IsPos (pred_double p))
    | XH -> (match y with
             | XH -> IsNul
             | _ -> IsNeg)

  (** val sub_mask_carry : positive -> positive -> mask **)

  and sub_mask_carry x y =
    match x with
    | XI p ->
      (match y with
       | XI q -> succ_double_mask (sub_mask_carry p q)
       | XO q -> double_mask (sub_mask p q)
       | XH -> IsPos (pred_double p))
    | XO p ->
      (match y with
       | XI q -> double_mask (sub_mask_carry p q)
       | XO q -> succ_double_mask (sub_mask_carry p q)
       | XH -> double_pred_mask p)
    | XH -> IsNeg

  (** val mul : positive -> positive -> positive **)

  let rec mul x y =
    match x with
    | XI p -> add y (XO (mul p y))
    | XO p -> XO (mul p y)
    | XH -> y

  (** val compare_cont : comparison -> positive -> positive -> comparison **)

  let rec compare_cont r x y =
    match x with
    | XI p ->
      (match y with
       | XI q -> compare_cont r p q
       | XO q -> compare_cont Gt p q
       | XH -> Gt)
    | XO p ->
      (match y with
       | XI q -> compare_cont Lt p q
       | XO q -> compare_cont r p q
       | XH -> Gt)
    | XH -> (match y with
             | XH -> r
             | _ -> Lt)

  (** val compare : positive -> positive -> comparison **)

  let compare =
    compare_cont Eq

  (** val eqb : positive -> positive -> bool **)

  let rec eqb p q =
    match p with
    | XI p0 -> (match q with
                | XI q0 -> eqb p0 q0
                | _ -> false)
    | XO p0 -> (match q with
                | XO q0 -> eqb p0 q0
                | _ -> false)
    | XH -> (match q with
             | XH -> true
             | _ -> false)

  (** val iter_op : ('a1 -> 'a1 -> 'a1) -> positive -> 'a1 -> 'a1 **)

  let rec iter_op op0 p a =
    match p with
    | XI p0 -> op0 a (iter_op op0 p0 (op0 a a))
    | XO p0 -> iter_op op0 p0 (op0 a a)
    | XH -> a

  (** val to_nat : positive -> nat **)

  let to_nat x =
    iter_op Coq__1.add x (S O)

  (** val of_succ_nat : nat -> positive **)

  let rec of_succ_nat = function
  | O -> XH
  | S x -> succ (of_succ_nat x)
 end

module N =
 struct
  (** val add : n -> n -> n **)

  let add n0 m =
    match n0 with
    | N0 -> m
    | Npos p -> (match m with
                 | N0 -> n0
                 | Npos q -> Npos (Coq_Pos.add p q))

  (** val sub : n -> n -> n **)

  let sub n0 m =
    match n0 with
    | N0 -> N0
    | Npos n' ->
      (match m with
       | N0 -> n0
       | Npos m' ->
         (match Coq_Pos.sub_mask n' m' with
          | Coq_Pos.IsPos p -> Npos p
          | _ -> N0))

  (** val mul : n -> n -> n **)

  let mul n0 m =
    match n0 with
    | N0 -> N0
    | Npos p -> (match m with
                 | N0 -> N0
                 | Npos q -> Npos (Coq_Pos.mul p q))

  (** val compare : n -> n -> comparison **)

  let compare n0 m =
    match n0 with
    | N0 -> (match m with
             | N0 -> Eq
             | Npos _ -> Lt)
    | Npos n' -> (match m with
                  | N0 -> Gt
                  | Npos m' -> Coq_Pos.compare n' m')

  (** val eqb : n -> n -> bool **)

  let eqb n0 m =
    match n0 with
    | N0 -> (match m with
             | N0 -> true
             | Npos _ -> false)
    | Npos p -> (match m with
                 | N0 -> false
                 | Npos q -> Coq_Pos.eqb p q)

  (** val leb : n -> n -> bool **)

  let leb x y =
    match compare x y with
    | Gt -> false
    | _ -> true

  (** val ltb : n -> n -> bool **)

  let ltb x y =
    match compare x y with
    | Lt -> true
    | _ -> false

  (** val to_nat : n -> nat **)

  let to_nat = function
  | N0 -> O
  | Npos p -> Coq_Pos.to_nat p

  (** val of_nat : nat -> n **)

  let of_nat = function
  | O -> N0
  | S n' -> Npos (Coq_Pos.of_succ_nat n')
 end

(** val zero : char **)

let zero = '\000'

(** val one : char **)

let one = '\001'

(** val shift : bool -> char -> char **)

let shift = fun b c -> Char.chr (((Char.code c) lsl 1) land 255 + if b then 1 else 0)

(** val ascii_of_pos : positive -> char **)

let ascii_of_pos =
  let rec loop n0 p =
    match n0 with
    | O -> zero
    | S n' ->
      (match p with
       | XI p' -> shift true (loop n' p')
       | XO p' -> shift false (loop n' p')
       | XH -> one)
  in loop (S (S (S (S (S (S (S (S O))))))))

(** val ascii_of_N : n -> char **)

let ascii_of_N = function
| N0 -> zero
| Npos p -> ascii_of_pos p

(** val ascii_of_nat : nat -> char **)

let ascii_of_nat a =
  ascii_of_N (N.of_nat a)

(** val n_of_digits : bool list -> n **)

let rec n_of_digits = function
| [] -> N0
| b :: l' ->
  N.add (if b then Npos XH else N0) (N.mul (Npos (XO XH)) (n_of_digits l'))

(** val n_of_ascii : char -> n **)

let n_of_ascii a =
  (* If this appears, you're using Ascii internals. Please don't *)
 (fun f c ->
  let n = Char.code c in
  let h i = (n land (1 lsl i)) <> 0 in
  f (h 0) (h 1) (h 2) (h 3) (h 4) (h 5) (h 6) (h 7))
    (fun a0 a1 a2 a3 a4 a5 a6 a7 ->
    n_of_digits
      (a0 :: (a1 :: (a2 :: (a3 :: (a4 :: (a5 :: (a6 :: (a7 :: [])))))))))
    a

(** val nat_of_ascii : char -> nat **)

let nat_of_ascii a =
  N.to_nat (n_of_ascii a)

(** val eqb0 : char list -> char list -> bool **)

let rec eqb0 s1 s2 =
  match s1 with
  | [] -> (match s2 with
           | [] -> true
           | _::_ -> false)
  | c1::s1' ->
    (match s2 with
     | [] -> false
     | c2::s2' -> if (=) c1 c2 then eqb0 s1' s2' else false)

(** val list_eqb : ('a1 -> 'a1 -> bool) -> 'a1 list -> 'a1 list -> bool **)

let rec list_eqb eqb1 xs ys =
  match xs with
  | [] -> (match ys with
           | [] -> true
           | _ :: _ -> false)
  | x :: xs' ->
    (match ys with
     | [] -> false
     | y :: ys' -> (&&) (eqb1 x y) (list_eqb eqb1 xs' ys'))

(** val lower_ascii : char -> char **)

let lower_ascii c =
  let n0 = nat_of_ascii c in
  if (&&)
       (Nat.leb (S (S (S (S (S (S (S (S (S (S (S (S (S (S (S (S (S (S (S (S
         (S (S (S (S (S (S (S (S (S (S (S (S (S (S (S (S (S (S (S (S (S (S (S
         (S (S (S (S (S (S (S (S (S (S (S (S (S (S (S (S (S (S (S (S (S (S
         O)))))))))))))))))))))))))))))))))))))))))))))))))))))))))))))))))
         n0)
       (Nat.leb n0 (S (S (S (S (S (S (S (S (S (S (S (S (S (S (S (S (S (S (S
         (S (S (S (S (S (S (S (S (S (S (S (S (S (S (S (S (S (S (S (S (S (S (S
         (S (S (S (S (S (S (S (S (S (S (S (S (S (S (S (S (S (S (S (S (S (S (S
         (S (S (S (S (S (S (S (S (S (S (S (S (S (S (S (S (S (S (S (S (S (S (S
         (S (S
         O)))))))))))))))))))))))))))))))))))))))))))))))))))))))))))))))))))))))))))))))))))))))))))
  then ascii_of_nat
         (add n0 (S (S (S (S (S (S (S (S (S (S (S (S (S (S (S (S (S (S (S (S
           (S (S (S (S (S (S (S (S (S (S (S (S
           O)))))))))))))))))))))))))))))))))
  else c

(** val lower : char list -> char list **)

let rec lower = function
| [] -> []
| c::t -> (lower_ascii c)::(lower t)

(** val eq_ci : char list -> char list -> bool **)

let eq_ci a b =
  eqb0 (lower a) (lower b)

type key = char list * char list

(** val key_eqb : key -> key -> bool **)

let key_eqb a b =
  (&&) (eq_ci (fst a) (fst b)) (eq_ci (snd a) (snd b))

type proto =
| H1
| H2

type dres =
| DOk of bool
| DErrConnect
| DErrHandshake

type dstage =
| DNew
| DInFlight
| DResolved of dres
| DGone

type poller =
| ByReq
| ByTask of nat

type dial = { d_stage : dstage; d_proto : proto; d_key : key;
              d_uri : key option; d_polled : poller option }

type err =
| EConn
| EHs
| EUnavail
| EUri

type rres =
| ROk
| RErr of err

type pooled = nat * nat

type waiter =
| WIdle
| WConnecting
| WNoPool

type inner =
| IWaiting
| IConnected
| IConnecting
| IDelayDrop
| IDelayed

type checkout = { k_token : nat; k_waiter : waiter; k_inner : inner;
                  k_conn : nat option; k_owner : bool;
                  k_slot : pooled option; k_txdropped : bool;
                  k_rxpolled : bool }

type req =
| RError
| RCheckout of checkout
| RHolding of pooled * bool * bool
| RDone
| RCancelled

type conn = { c_origin : nat; c_share : bool; c_open : bool; c_ready : 
              bool; c_refs : nat; c_holders : nat; c_waiters : nat list }

type task =
| TWhenReady of nat * nat
| TDelayed of nat * nat * bool

type ptok = { p_idle : (nat * n) list; p_waiting : (nat * bool) list;
              p_marker : nat option }

(** val empty_tok : ptok **)

let empty_tok =
  { p_idle = []; p_waiting = []; p_marker = None }

type config = { g_pool : bool; g_timeout : n option; g_max_idle : nat;
                g_cont : bool; g_uris : key option list }

type ev =
| EDial of nat * key
| ENew of nat * bool * nat
| EHand of nat * nat * bool * bool * bool * nat
| EPend of nat
| ERes of nat * rres
| ERel of nat * nat
| EDrop of nat
| ERdy of nat * bool

type state = { now : n; keys : key list; toks : ptok list; conns : conn list;
               reqs : req list; dials : dial list; woken : bool list;
               tasks : task option list; runq : nat list; out : ev list }

(** val init : state **)

let init =
  { now = (Npos (XO (XO (XO (XO (XO (XO (XI (XO (XO (XI (XO (XO (XO (XO (XI
    (XO (XI (XI (XI XH)))))))))))))))))))); keys = []; toks = []; conns = [];
    reqs = []; dials = []; woken = []; tasks = []; runq = []; out = [] }

(** val set_now : n -> state -> state **)

let set_now v s =
  { now = v; keys = s.keys; toks = s.toks; conns = s.conns; reqs = s.reqs;
    dials = s.dials; woken = s.woken; tasks = s.tasks; runq = s.runq; out =
    s.out }

(** val set_keys : key list -> state -> state **)

let set_keys v s =
  { now = s.now; keys = v; toks = s.toks; conns = s.conns; reqs = s.reqs;
    dials = s.dials; woken = s.woken; tasks = s.tasks; runq = s.runq; out =
    s.out }

(** val set_toks : ptok list -> state -> state **)

let set_toks v s =
  { now = s.now; keys = s.keys; toks = v; conns = s.conns; reqs = s.reqs;
    dials = s.dials; woken = s.woken; tasks = s.tasks; runq = s.runq; out =
    s.out }

(** val set_conns : conn list -> state -> state **)

let set_conns v s =
  { now = s.now; keys = s.keys; toks = s.toks; conns = v; reqs = s.reqs;
    dials = s.dials; woken = s.woken; tasks = s.tasks; runq = s.runq; out =
    s.out }

(** val set_reqs : req list -> state -> state **)

let set_reqs v s =
  { now = s.now; keys = s.keys; toks = s.toks; conns = s.conns; reqs = v;
    dials = s.dials; woken = s.woken; tasks = s.tasks; runq = s.runq; out =
    s.out }

(** val set_dials : dial list -> state -> state **)

let set_dials v s =
  { now = s.now; keys = s.keys; toks = s.toks; conns = s.conns; reqs =
    s.reqs; dials = v; woken = s.woken; tasks = s.tasks; runq = s.runq; out =
    s.out }

(** val set_woken : bool list -> state -> state **)

let set_woken v s =
  { now = s.now; keys = s.keys; toks = s.toks; conns = s.conns; reqs =
    s.reqs; dials = s.dials; woken = v; tasks = s.tasks; runq = s.runq; out =
    s.out }

(** val set_tasks : task option list -> state -> state **)

let set_tasks v s =
  { now = s.now; keys = s.keys; toks = s.toks; conns = s.conns; reqs =
    s.reqs; dials = s.dials; woken = s.woken; tasks = v; runq = s.runq; out =
    s.out }

(** val set_runq : nat list -> state -> state **)

let set_runq v s =
  { now = s.now; keys = s.keys; toks = s.toks; conns = s.conns; reqs =
    s.reqs; dials = s.dials; woken = s.woken; tasks = s.tasks; runq = v;
    out = s.out }

(** val set_out : ev list -> state -> state **)

let set_out v s =
  { now = s.now; keys = s.keys; toks = s.toks; conns = s.conns; reqs =
    s.reqs; dials = s.dials; woken = s.woken; tasks = s.tasks; runq = s.runq;
    out = v }

(** val emit : ev -> state -> state **)

let emit e s =
  set_out (e :: s.out) s

(** val upd_nth : nat -> ('a1 -> 'a1) -> 'a1 list -> 'a1 list **)

let rec upd_nth n0 f = function
| [] -> []
| x :: t -> (match n0 with
             | O -> (f x) :: t
             | S n' -> x :: (upd_nth n' f t))

(** val get_conn : state -> nat -> conn option **)

let get_conn s c =
  nth_error s.conns c

(** val upd_conn : nat -> (conn -> conn) -> state -> state **)

let upd_conn c f s =
  set_conns (upd_nth c f s.conns) s

(** val get_req : state -> nat -> req option **)

let get_req s r =
  nth_error s.reqs r

(** val set_req : nat -> req -> state -> state **)

let set_req r v s =
  set_reqs (upd_nth r (fun _ -> v) s.reqs) s

(** val get_dial : state -> nat -> dial option **)

let get_dial s r =
  nth_error s.dials r

(** val upd_dial : nat -> (dial -> dial) -> state -> state **)

let upd_dial r f s =
  set_dials (upd_nth r f s.dials) s

(** val get_tok : state -> nat -> ptok **)

let get_tok s = function
| O -> empty_tok
| S i -> nth i s.toks empty_tok

(** val upd_tok : nat -> (ptok -> ptok) -> state -> state **)

let upd_tok t f s =
  match t with
  | O -> s
  | S i -> set_toks (upd_nth i f s.toks) s

(** val set_idle : (nat * n) list -> ptok -> ptok **)

let set_idle v p =
  { p_idle = v; p_waiting = p.p_waiting; p_marker = p.p_marker }

(** val set_waiting : (nat * bool) list -> ptok -> ptok **)

let set_waiting v p =
  { p_idle = p.p_idle; p_waiting = v; p_marker = p.p_marker }

(** val set_marker : nat option -> ptok -> ptok **)

let set_marker v p =
  { p_idle = p.p_idle; p_waiting = p.p_waiting; p_marker = v }

(** val c_set_refs : nat -> conn -> conn **)

let c_set_refs v c =
  { c_origin = c.c_origin; c_share = c.c_share; c_open = c.c_open; c_ready =
    c.c_ready; c_refs = v; c_holders = c.c_holders; c_waiters = c.c_waiters }

(** val c_set_open : bool -> conn -> conn **)

let c_set_open v c =
  { c_origin = c.c_origin; c_share = c.c_share; c_open = v; c_ready =
    c.c_ready; c_refs = c.c_refs; c_holders = c.c_holders; c_waiters =
    c.c_waiters }

(** val c_set_ready : bool -> conn -> conn **)

let c_set_ready v c =
  { c_origin = c.c_origin; c_share = c.c_share; c_open = c.c_open; c_ready =
    v; c_refs = c.c_refs; c_holders = c.c_holders; c_waiters = c.c_waiters }

(** val c_set_holders : nat -> conn -> conn **)

let c_set_holders v c =
  { c_origin = c.c_origin; c_share = c.c_share; c_open = c.c_open; c_ready =
    c.c_ready; c_refs = c.c_refs; c_holders = v; c_waiters = c.c_waiters }

(** val c_set_waiters : nat list -> conn -> conn **)

let c_set_waiters v c =
  { c_origin = c.c_origin; c_share = c.c_share; c_open = c.c_open; c_ready =
    c.c_ready; c_refs = c.c_refs; c_holders = c.c_holders; c_waiters = v }

(** val k_set_waiter : waiter -> checkout -> checkout **)

let k_set_waiter v k =
  { k_token = k.k_token; k_waiter = v; k_inner = k.k_inner; k_conn =
    k.k_conn; k_owner = k.k_owner; k_slot = k.k_slot; k_txdropped =
    k.k_txdropped; k_rxpolled = k.k_rxpolled }

(** val k_set_inner : inner -> checkout -> checkout **)

let k_set_inner v k =
  { k_token = k.k_token; k_waiter = k.k_waiter; k_inner = v; k_conn =
    k.k_conn; k_owner = k.k_owner; k_slot = k.k_slot; k_txdropped =
    k.k_txdropped; k_rxpolled = k.k_rxpolled }

(** val k_set_conn : nat option -> checkout -> checkout **)

let k_set_conn v k =
  { k_token = k.k_token; k_waiter = k.k_waiter; k_inner = k.k_inner; k_conn =
    v; k_owner = k.k_owner; k_slot = k.k_slot; k_txdropped = k.k_txdropped;
    k_rxpolled = k.k_rxpolled }

(** val k_set_slot : pooled option -> checkout -> checkout **)

let k_set_slot v k =
  { k_token = k.k_token; k_waiter = k.k_waiter; k_inner = k.k_inner; k_conn =
    k.k_conn; k_owner = k.k_owner; k_slot = v; k_txdropped = k.k_txdropped;
    k_rxpolled = k.k_rxpolled }

(** val k_set_rxpolled : bool -> checkout -> checkout **)

let k_set_rxpolled v k =
  { k_token = k.k_token; k_waiter = k.k_waiter; k_inner = k.k_inner; k_conn =
    k.k_conn; k_owner = k.k_owner; k_slot = k.k_slot; k_txdropped =
    k.k_txdropped; k_rxpolled = v }

(** val k_set_txdropped : bool -> checkout -> checkout **)

let k_set_txdropped v k =
  { k_token = k.k_token; k_waiter = k.k_waiter; k_inner = k.k_inner; k_conn =
    k.k_conn; k_owner = k.k_owner; k_slot = k.k_slot; k_txdropped = v;
    k_rxpolled = k.k_rxpolled }

(** val d_set_stage : dstage -> dial -> dial **)

let d_set_stage v d =
  { d_stage = v; d_proto = d.d_proto; d_key = d.d_key; d_uri = d.d_uri;
    d_polled = d.d_polled }

(** val d_set_polled : poller option -> dial -> dial **)

let d_set_polled v d =
  { d_stage = d.d_stage; d_proto = d.d_proto; d_key = d.d_key; d_uri =
    d.d_uri; d_polled = v }

(** val share_of : state -> nat -> bool **)

let share_of s c =
  match get_conn s c with
  | Some cn -> cn.c_share
  | None -> false

(** val is_open : state -> nat -> bool **)

let is_open s c =
  match get_conn s c with
  | Some cn -> if cn.c_share then cn.c_open else (&&) cn.c_open cn.c_ready
  | None -> false

(** val drop_conn : nat -> state -> state **)

let drop_conn c s =
  match get_conn s c with
  | Some cn ->
    let s' = upd_conn c (c_set_refs (pred cn.c_refs)) s in
    if Nat.eqb (pred cn.c_refs) O then emit (EDrop c) s' else s'
  | None -> s

(** val clone_conn : nat -> state -> state **)

let clone_conn c s =
  upd_conn c (fun cn -> c_set_refs (S cn.c_refs) cn) s

(** val spawn : task -> state -> state **)

let spawn tk s =
  let id = length s.tasks in
  set_runq (app s.runq (id :: []))
    (set_tasks (app s.tasks ((Some tk) :: [])) s)

(** val wake_task : nat -> state -> state **)

let wake_task tid s =
  if existsb (Nat.eqb tid) s.runq
  then s
  else set_runq (app s.runq (tid :: [])) s

(** val wake_req : nat -> state -> state **)

let wake_req r s =
  set_woken (upd_nth r (fun _ -> true) s.woken) s

(** val unwake_req : nat -> state -> state **)

let unwake_req r s =
  set_woken (upd_nth r (fun _ -> false) s.woken) s

(** val wake_poller : poller option -> nat -> state -> state **)

let wake_poller p r s =
  match p with
  | Some p0 ->
    (match p0 with
     | ByReq -> wake_req r s
     | ByTask tid -> wake_task tid s)
  | None -> s

(** val pooled_drop : pooled -> state -> state **)

let pooled_drop p s =
  let (c, t) = p in
  if share_of s c then drop_conn c s else spawn (TWhenReady (c, t)) s

(** val rx_live : state -> nat -> bool **)

let rx_live s w =
  match get_req s w with
  | Some r ->
    (match r with
     | RCheckout ck -> (match ck.k_waiter with
                        | WNoPool -> false
                        | _ -> true)
     | _ -> false)
  | None -> false

(** val deliver : nat -> pooled -> state -> state **)

let deliver w p s =
  match get_req s w with
  | Some r ->
    (match r with
     | RCheckout ck ->
       let s' = set_req w (RCheckout (k_set_slot (Some p) ck)) s in
       if ck.k_rxpolled then wake_req w s' else s'
     | _ -> s)
  | None -> s

(** val walk_waiters :
    nat -> nat -> bool -> (nat * bool) list -> state -> ((nat * bool)
    list * bool) * state **)

let rec walk_waiters t c share ws s =
  match ws with
  | [] -> (([], false), s)
  | p :: rest ->
    let (w, _) = p in
    if rx_live s w
    then if share
         then walk_waiters t c share rest (deliver w (c, O) (clone_conn c s))
         else ((rest, true), (deliver w (c, t) s))
    else walk_waiters t c share rest s

(** val pool_push : nat -> nat -> nat -> state -> state **)

let pool_push max_idle t c s =
  let s0 = if share_of s c then upd_tok t (set_marker None) s else s in
  let (p, s1) = walk_waiters t c (share_of s0 c) (get_tok s0 t).p_waiting s0
  in
  let (rest, moved) = p in
  let s2 = upd_tok t (set_waiting rest) s1 in
  if moved
  then s2
  else if Nat.ltb (length (get_tok s2 t).p_idle) max_idle
       then upd_tok t (fun p0 ->
              set_idle (app p0.p_idle ((c, s2.now) :: [])) p0) s2
       else drop_conn c s2

(** val drop_sender : nat -> state -> state **)

let drop_sender w s =
  match get_req s w with
  | Some r ->
    (match r with
     | RCheckout ck ->
       (match ck.k_waiter with
        | WNoPool -> s
        | _ ->
          let s' = set_req w (RCheckout (k_set_txdropped true ck)) s in
          if ck.k_rxpolled then wake_req w s' else s')
     | _ -> s)
  | None -> s

(** val release_pending :
    (nat * bool) list -> state -> (nat * bool) list * state **)

let rec release_pending ws s =
  match ws with
  | [] -> ([], s)
  | p :: rest ->
    let (w, pending) = p in
    if pending
    then release_pending rest (drop_sender w s)
    else let (rest', s') = release_pending rest s in
         (((w, pending) :: rest'), s')

(** val pool_cancel : nat -> nat -> state -> state **)

let pool_cancel t rid s =
  match (get_tok s t).p_marker with
  | Some o ->
    if Nat.eqb o rid
    then let s0 = upd_tok t (set_marker None) s in
         let (rest, s1) = release_pending (get_tok s0 t).p_waiting s0 in
         upd_tok t (set_waiting rest) s1
    else s
  | None -> s

(** val drop_all : (nat * n) list -> state -> state **)

let rec drop_all l s =
  match l with
  | [] -> s
  | p :: t -> let (c, _) = p in drop_all t (drop_conn c s)

(** val pop_loop :
    n option -> (nat * n) list -> state -> (nat option * (nat * n)
    list) * state **)

let rec pop_loop thr rl s =
  match rl with
  | [] -> ((None, []), s)
  | p :: rest ->
    let (c, at_) = p in
    if match thr with
       | Some y -> N.ltb at_ y
       | None -> false
    then ((None, []), (drop_all (rev rest) (drop_conn c s)))
    else if is_open s c
         then (((Some c), rest), s)
         else pop_loop thr rest (drop_conn c s)

(** val expiry_threshold : n option -> n -> n option **)

let expiry_threshold timeout nw =
  match timeout with
  | Some d ->
    if (&&) (N.ltb N0 d) (N.leb d nw) then Some (N.sub nw d) else None
  | None -> None

(** val pool_pop : n option -> nat -> state -> nat option * state **)

let pool_pop timeout t s =
  let (p, s0) =
    pop_loop (expiry_threshold timeout s.now) (rev (get_tok s t).p_idle) s
  in
  let (r, rest) = p in (r, (upd_tok t (set_idle (rev rest)) s0))

(** val find_key : key -> key list -> nat -> nat option **)

let rec find_key k ks i =
  match ks with
  | [] -> None
  | k' :: t -> if key_eqb k k' then Some i else find_key k t (S i)

(** val key_insert : key -> state -> nat * state **)

let key_insert k s =
  match find_key k s.keys (S O) with
  | Some t -> (t, s)
  | None ->
    ((S (length s.keys)),
      (set_toks (app s.toks (empty_tok :: []))
        (set_keys (app s.keys (k :: [])) s)))

(** val register : config -> nat -> nat -> state -> pooled * state **)

let register cfg t c s =
  if (&&) cfg.g_pool (negb (Nat.eqb t O))
  then if share_of s c
       then ((c, O),
              (if is_open s c
               then pool_push cfg.g_max_idle t c (clone_conn c s)
               else s))
       else ((c, t), s)
  else ((c, t), s)

type cpoll =
| CPending
| CReady of (nat, err) sum

(** val connector_poll : nat -> poller -> state -> cpoll * state **)

let connector_poll rid by_ s =
  match get_dial s rid with
  | Some d ->
    (match d.d_stage with
     | DNew ->
       (CPending,
         (upd_dial rid (fun d0 ->
           d_set_polled (Some by_) (d_set_stage DInFlight d0))
           (emit (EDial (rid, d.d_key)) s)))
     | DInFlight -> (CPending, (upd_dial rid (d_set_polled (Some by_)) s))
     | DResolved r ->
       (match r with
        | DOk alpn ->
          let c = length s.conns in
          let share = match d.d_proto with
                      | H1 -> alpn
                      | H2 -> true in
          let s0 =
            set_conns
              (app s.conns ({ c_origin = rid; c_share = share; c_open = true;
                c_ready = true; c_refs = (S O); c_holders = O; c_waiters =
                [] } :: [])) s
          in
          ((CReady (Inl c)),
          (upd_dial rid (d_set_stage DGone) (emit (ENew (c, share, rid)) s0)))
        | DErrConnect ->
          ((CReady (Inr EConn)), (upd_dial rid (d_set_stage DGone) s))
        | DErrHandshake ->
          ((CReady (Inr EHs)), (upd_dial rid (d_set_stage DGone) s)))
     | DGone -> (CPending, s))
  | None -> (CPending, s)

type wpoll =
| WPending
| WConnected of pooled
| WContinue

(** val waiter_poll : checkout -> wpoll * checkout **)

let waiter_poll ck =
  match ck.k_waiter with
  | WIdle ->
    (match ck.k_slot with
     | Some p -> ((WConnected p), (k_set_waiter WNoPool (k_set_slot None ck)))
     | None ->
       if ck.k_txdropped
       then (WContinue, (k_set_waiter WNoPool ck))
       else (WContinue, (k_set_rxpolled true ck)))
  | WConnecting ->
    (match ck.k_slot with
     | Some p -> ((WConnected p), (k_set_waiter WNoPool (k_set_slot None ck)))
     | None ->
       if ck.k_txdropped
       then (WContinue, (k_set_waiter WNoPool ck))
       else (WPending, (k_set_rxpolled true ck)))
  | WNoPool -> (WContinue, ck)

(** val rx_drop : checkout -> state -> checkout * state **)

let rx_drop ck s =
  match ck.k_waiter with
  | WNoPool -> (ck, s)
  | _ ->
    (match ck.k_slot with
     | Some p ->
       ((k_set_waiter WNoPool (k_set_slot None ck)), (pooled_drop p s))
     | None -> ((k_set_waiter WNoPool ck), s))

type kpoll =
| KPending
| KReady of (pooled, err) sum

(** val checkout_poll :
    config -> nat -> checkout -> state -> (kpoll * checkout) * state **)

let checkout_poll cfg rid ck s =
  let (w, ck0) = waiter_poll ck in
  (match w with
   | WPending -> ((KPending, ck0), s)
   | WConnected p -> (((KReady (Inl p)), ck0), s)
   | WContinue ->
     (match ck0.k_inner with
      | IWaiting -> (((KReady (Inr EUnavail)), ck0), s)
      | IConnected ->
        (match ck0.k_conn with
         | Some c ->
           let (ck1, s0) = rx_drop (k_set_conn None ck0) s in
           let s1 = set_req rid (RCheckout ck1) s0 in
           let (p, s2) = register cfg ck1.k_token c s1 in
           (((KReady (Inl p)), ck1), s2)
         | None -> ((KPending, ck0), s))
      | _ ->
        let (r, s0) = connector_poll rid ByReq s in
        (match r with
         | CPending -> ((KPending, ck0), s0)
         | CReady res ->
           let (ck1, s1) = rx_drop ck0 s0 in
           let ck2 = k_set_inner IConnected ck1 in
           let s2 = set_req rid (RCheckout ck2) s1 in
           (match res with
            | Inl c ->
              let (p, s3) = register cfg ck2.k_token c s2 in
              (((KReady (Inl p)), ck2), s3)
            | Inr e -> (((KReady (Inr e)), ck2), s2)))))

(** val checkout_drop : config -> nat -> checkout -> state -> state **)

let checkout_drop cfg rid ck s =
  let t = ck.k_token in
  let has_pool = (&&) cfg.g_pool (negb (Nat.eqb t O)) in
  let s0 =
    match ck.k_conn with
    | Some c ->
      if (&&) (is_open s c) has_pool
      then pool_push cfg.g_max_idle t c s
      else drop_conn c s
    | None -> s
  in
  let started =
    match get_dial s0 rid with
    | Some d -> (match d.d_stage with
                 | DNew -> false
                 | _ -> true)
    | None -> false
  in
  let delayed = match ck.k_inner with
                | IDelayDrop -> started
                | _ -> false in
  let s1 =
    if delayed
    then spawn (TDelayed (rid, t, ck.k_owner)) s0
    else if (&&) has_pool ck.k_owner then pool_cancel t rid s0 else s0
  in
  let (_, s2) = rx_drop ck s1 in
  (match ck.k_inner with
   | IWaiting -> s2
   | IConnected -> s2
   | IDelayDrop -> if delayed then s2 else upd_dial rid (d_set_stage DGone) s2
   | _ -> upd_dial rid (d_set_stage DGone) s2)

type op =
| Issue of nat * proto
| Poll of nat
| Cancel of nat
| Finish of nat
| Upgrade of nat
| DialDone of nat * dres
| ConnReady of nat
| ConnClose of nat
| Bg
| Tick of n

(** val new_ck :
    nat -> waiter -> inner -> nat option -> bool -> bool -> checkout **)

let new_ck t w i c own txd =
  { k_token = t; k_waiter = w; k_inner = i; k_conn = c; k_owner = own;
    k_slot = None; k_txdropped = txd; k_rxpolled = false }

(** val do_issue : config -> nat -> proto -> state -> state **)

let do_issue cfg u p s =
  let rid = length s.reqs in
  let s0 = set_woken (app s.woken (false :: [])) s in
  let add0 = fun r d s1 ->
    set_dials (app s1.dials (d :: [])) (set_reqs (app s1.reqs (r :: [])) s1)
  in
  (match nth u cfg.g_uris None with
   | Some k ->
     if negb cfg.g_pool
     then add0 (RCheckout (new_ck O WNoPool IConnecting None false true))
            { d_stage = DNew; d_proto = p; d_key = k; d_uri = (Some k);
            d_polled = None } s0
     else let (t, s1) = key_insert k s0 in
          let (found, s2) = pool_pop cfg.g_timeout t s1 in
          (match found with
           | Some c ->
             add0 (RCheckout (new_ck t WIdle IConnected (Some c) false true))
               { d_stage = DGone; d_proto = p; d_key = k; d_uri = (Some k);
               d_polled = None } s2
           | None ->
             let pending =
               match (get_tok s2 t).p_marker with
               | Some _ -> true
               | None -> false
             in
             let s3 =
               upd_tok t (fun q ->
                 set_waiting (app q.p_waiting ((rid, pending) :: [])) q) s2
             in
             if pending
             then add0 (RCheckout
                    (new_ck t WConnecting IWaiting None false false))
                    { d_stage = DGone; d_proto = p; d_key = k; d_uri = (Some
                    k); d_polled = None } s3
             else let own = match p with
                            | H1 -> false
                            | H2 -> true in
                  let s4 =
                    if own then upd_tok t (set_marker (Some rid)) s3 else s3
                  in
                  add0 (RCheckout
                    (new_ck t WIdle
                      (if cfg.g_cont then IDelayDrop else IConnecting) None
                      own false)) { d_stage = DNew; d_proto = p; d_key = k;
                    d_uri = (Some k); d_polled = None } s4)
   | None ->
     add0 RError { d_stage = DGone; d_proto = p; d_key = ([], []); d_uri =
       None; d_polled = None } s0)

(** val hold_release : nat -> pooled -> state -> state **)

let hold_release r p s =
  let s0 = upd_conn (fst p) (fun cn -> c_set_holders (pred cn.c_holders) cn) s
  in
  pooled_drop p (emit (ERel (r, (fst p))) s0)

(** val do_poll : config -> nat -> state -> state **)

let do_poll cfg r s =
  match get_req s r with
  | Some r0 ->
    (match r0 with
     | RError ->
       let s0 = unwake_req r s in
       set_req r RDone (emit (ERes (r, (RErr EUri))) s0)
     | RCheckout ck ->
       let s0 = unwake_req r s in
       let (p, s1) = checkout_poll cfg r ck s0 in
       let (res, ck0) = p in
       (match res with
        | KPending -> emit (EPend r) (set_req r (RCheckout ck0) s1)
        | KReady r1 ->
          (match r1 with
           | Inl p0 ->
             let c = fst p0 in
             (match get_conn s1 c with
              | Some cn ->
                let p1 = ((cn.c_share, cn.c_open), cn.c_ready) in
                let hs = cn.c_holders in
                let (p2, rd) = p1 in
                let (sh, op_) = p2 in
                let s2 =
                  emit (EHand (r, c, (Nat.eqb (snd p0) O), op_, rd, hs)) s1
                in
                let s3 =
                  upd_conn c (fun cn0 ->
                    c_set_holders (S cn0.c_holders)
                      (if sh then cn0 else c_set_ready false cn0)) s2
                in
                let s4 = set_req r (RHolding (p0, false, true)) s3 in
                emit (EPend r) (checkout_drop cfg r ck0 s4)
              | None ->
                let p1 = ((false, false), false) in
                let hs = O in
                let (p2, rd) = p1 in
                let (sh, op_) = p2 in
                let s2 =
                  emit (EHand (r, c, (Nat.eqb (snd p0) O), op_, rd, hs)) s1
                in
                let s3 =
                  upd_conn c (fun cn ->
                    c_set_holders (S cn.c_holders)
                      (if sh then cn else c_set_ready false cn)) s2
                in
                let s4 = set_req r (RHolding (p0, false, true)) s3 in
                emit (EPend r) (checkout_drop cfg r ck0 s4))
           | Inr e ->
             let s2 = set_req r RDone s1 in
             emit (ERes (r, (RErr e))) (checkout_drop cfg r ck0 s2)))
     | RHolding (p, fin, _) ->
       let s0 = unwake_req r s in
       if fin
       then emit (ERes (r, ROk)) (hold_release r p (set_req r RDone s0))
       else emit (EPend r) (set_req r (RHolding (p, fin, true)) s0)
     | _ -> s)
  | None -> s

(** val do_cancel : config -> nat -> state -> state **)

let do_cancel cfg r s =
  match get_req s r with
  | Some r0 ->
    (match r0 with
     | RError -> unwake_req r (set_req r RCancelled s)
     | RCheckout ck ->
       unwake_req r (checkout_drop cfg r ck (set_req r RCancelled s))
     | RHolding (p, _, _) ->
       unwake_req r (hold_release r p (set_req r RCancelled s))
     | _ -> unwake_req r s)
  | None -> s

(** val do_finish : nat -> state -> state **)

let do_finish r s =
  match get_req s r with
  | Some r0 ->
    (match r0 with
     | RHolding (p, _, polled) ->
       let s0 = set_req r (RHolding (p, true, false)) s in
       if polled then wake_req r s0 else s0
     | _ -> s)
  | None -> s

(** val wake_tasks : nat list -> state -> state **)

let rec wake_tasks l s =
  match l with
  | [] -> s
  | t :: r -> wake_tasks r (wake_task t s)

(** val drain_conn_waiters : nat -> state -> state **)

let drain_conn_waiters c s =
  match get_conn s c with
  | Some cn -> wake_tasks cn.c_waiters (upd_conn c (c_set_waiters []) s)
  | None -> s

(** val do_upgrade : nat -> state -> state **)

let do_upgrade r s =
  match get_req s r with
  | Some r0 ->
    (match r0 with
     | RHolding (p, _, _) ->
       drain_conn_waiters (fst p) (upd_conn (fst p) (c_set_open false) s)
     | _ -> s)
  | None -> s

(** val do_dial_done : nat -> dres -> state -> state **)

let do_dial_done r x s =
  match get_dial s r with
  | Some d ->
    (match d.d_stage with
     | DInFlight ->
       wake_poller d.d_polled r
         (upd_dial r (fun d0 ->
           d_set_polled None (d_set_stage (DResolved x) d0)) s)
     | _ -> s)
  | None -> s

(** val do_conn_ready : nat -> state -> state **)

let do_conn_ready c s =
  match get_conn s c with
  | Some _ -> drain_conn_waiters c (upd_conn c (c_set_ready true) s)
  | None -> s

(** val do_conn_close : nat -> state -> state **)

let do_conn_close c s =
  match get_conn s c with
  | Some _ -> drain_conn_waiters c (upd_conn c (c_set_open false) s)
  | None -> s

(** val finish_task : nat -> state -> state **)

let finish_task tid s =
  set_tasks (upd_nth tid (fun _ -> None) s.tasks) s

(** val run_task : config -> nat -> state -> state **)

let run_task cfg tid s =
  match nth tid s.tasks None with
  | Some t0 ->
    (match t0 with
     | TWhenReady (c, t) ->
       (match get_conn s c with
        | Some cn ->
          let finish = fun s0 ->
            let s1 = finish_task tid s0 in
            if (&&) ((&&) (is_open s1 c) (negb (Nat.eqb t O))) cfg.g_pool
            then pool_push cfg.g_max_idle t c s1
            else drop_conn c s1
          in
          if negb cn.c_open
          then finish (emit (ERdy (c, false)) s)
          else if (||) cn.c_share cn.c_ready
               then finish (emit (ERdy (c, true)) s)
               else upd_conn c (fun cn0 ->
                      c_set_waiters (app cn0.c_waiters (tid :: [])) cn0) s
        | None -> finish_task tid s)
     | TDelayed (rid, t, own) ->
       let (r, s0) = connector_poll rid (ByTask tid) s in
       (match r with
        | CPending -> s0
        | CReady r0 ->
          (match r0 with
           | Inl c ->
             let (p, s1) = register cfg t c s0 in
             let s2 =
               if (&&) ((&&) cfg.g_pool (negb (Nat.eqb t O))) own
               then pool_cancel t rid s1
               else s1
             in
             pooled_drop p (finish_task tid s2)
           | Inr _ ->
             let s1 =
               if (&&) ((&&) cfg.g_pool (negb (Nat.eqb t O))) own
               then pool_cancel t rid s0
               else s0
             in
             finish_task tid s1)))
  | None -> s

(** val bg_loop : config -> nat -> state -> state **)

let rec bg_loop cfg fuel s =
  match fuel with
  | O -> s
  | S f ->
    (match s.runq with
     | [] -> s
     | tid :: rest -> bg_loop cfg f (run_task cfg tid (set_runq rest s)))

(** val do_bg : config -> state -> state **)

let do_bg cfg s =
  bg_loop cfg (add (mul (S (S O)) (length s.runq)) (S O)) s

(** val step : config -> state -> op -> state **)

let step cfg s o =
  let s0 = set_out [] s in
  (match o with
   | Issue (u, p) -> do_issue cfg u p s0
   | Poll r -> do_poll cfg r s0
   | Cancel r -> do_cancel cfg r s0
   | Finish r -> do_finish r s0
   | Upgrade r -> do_upgrade r s0
   | DialDone (r, x) -> do_dial_done r x s0
   | ConnReady c -> do_conn_ready c s0
   | ConnClose c -> do_conn_close c s0
   | Bg -> do_bg cfg s0
   | Tick dt -> set_now (N.add s0.now dt) s0)

type snap = { sn_token : nat; sn_idle : nat list; sn_live : nat;
              sn_closed : nat; sn_marker : bool }

(** val count_live : state -> (nat * bool) list -> nat **)

let count_live s ws =
  length (filter (fun w -> rx_live s (fst w)) ws)

(** val snaps_from : state -> nat -> ptok list -> snap list **)

let rec snaps_from s t = function
| [] -> []
| p :: rest ->
  let live = count_live s p.p_waiting in
  let mk = match p.p_marker with
           | Some _ -> true
           | None -> false in
  let sn = { sn_token = t; sn_idle = (map fst p.p_idle); sn_live = live;
    sn_closed = (sub (length p.p_waiting) live); sn_marker = mk }
  in
  let tail = snaps_from s (S t) rest in
  (match p.p_idle with
   | [] ->
     (match p.p_waiting with
      | [] -> if mk then sn :: tail else tail
      | _ :: _ -> sn :: tail)
   | _ :: _ -> sn :: tail)

(** val snapshot : state -> snap list **)

let snapshot s =
  snaps_from s (S O) s.toks

(** val trues_from : nat -> bool list -> nat list **)

let rec trues_from i = function
| [] -> []
| b :: t -> if b then i :: (trues_from (S i) t) else trues_from (S i) t

type opobs = { o_events : ev list; o_snap : snap list; o_woken : nat list }

(** val observe : state -> opobs **)

let observe s =
  { o_events = (rev s.out); o_snap = (snapshot s); o_woken =
    (trues_from O s.woken) }

(** val trace_from : config -> state -> op list -> opobs list **)

let rec trace_from cfg s = function
| [] -> []
| o :: rest ->
  let s' = step cfg s o in (observe s') :: (trace_from cfg s' rest)

(** val trace : config -> op list -> opobs list **)

let trace cfg ops =
  trace_from cfg init ops

type rstat =
| SLive
| SHeld of nat
| SDone
| SCancelled

type dstat =
| DsNone
| DsFlying
| DsOver

type rinfo = { ri_at : nat; ri_time : n; ri_key : key option;
               ri_proto : proto; ri_stat : rstat; ri_pend : bool;
               ri_lastpend : nat; ri_dial : dstat; ri_resolved : bool option;
               ri_popc : nat option; ri_d6 : bool; ri_avail : bool;
               ri_aband : bool; ri_poph : nat option; ri_popx : nat option }

(** val set_ri_stat : rstat -> rinfo -> rinfo **)

let set_ri_stat v x =
  { ri_at = x.ri_at; ri_time = x.ri_time; ri_key = x.ri_key; ri_proto =
    x.ri_proto; ri_stat = v; ri_pend = x.ri_pend; ri_lastpend =
    x.ri_lastpend; ri_dial = x.ri_dial; ri_resolved = x.ri_resolved;
    ri_popc = x.ri_popc; ri_d6 = x.ri_d6; ri_avail = x.ri_avail; ri_aband =
    x.ri_aband; ri_poph = x.ri_poph; ri_popx = x.ri_popx }

(** val set_ri_pend : bool -> rinfo -> rinfo **)

let set_ri_pend v x =
  { ri_at = x.ri_at; ri_time = x.ri_time; ri_key = x.ri_key; ri_proto =
    x.ri_proto; ri_stat = x.ri_stat; ri_pend = v; ri_lastpend =
    x.ri_lastpend; ri_dial = x.ri_dial; ri_resolved = x.ri_resolved;
    ri_popc = x.ri_popc; ri_d6 = x.ri_d6; ri_avail = x.ri_avail; ri_aband =
    x.ri_aband; ri_poph = x.ri_poph; ri_popx = x.ri_popx }

(** val set_ri_lastpend : nat -> rinfo -> rinfo **)

let set_ri_lastpend v x =
  { ri_at = x.ri_at; ri_time = x.ri_time; ri_key = x.ri_key; ri_proto =
    x.ri_proto; ri_stat = x.ri_stat; ri_pend = x.ri_pend; ri_lastpend = v;
    ri_dial = x.ri_dial; ri_resolved = x.ri_resolved; ri_popc = x.ri_popc;
    ri_d6 = x.ri_d6; ri_avail = x.ri_avail; ri_aband = x.ri_aband; ri_poph =
    x.ri_poph; ri_popx = x.ri_popx }

(** val set_ri_dial : dstat -> rinfo -> rinfo **)

let set_ri_dial v x =
  { ri_at = x.ri_at; ri_time = x.ri_time; ri_key = x.ri_key; ri_proto =
    x.ri_proto; ri_stat = x.ri_stat; ri_pend = x.ri_pend; ri_lastpend =
    x.ri_lastpend; ri_dial = v; ri_resolved = x.ri_resolved; ri_popc =
    x.ri_popc; ri_d6 = x.ri_d6; ri_avail = x.ri_avail; ri_aband = x.ri_aband;
    ri_poph = x.ri_poph; ri_popx = x.ri_popx }

(** val set_ri_resolved : bool option -> rinfo -> rinfo **)

let set_ri_resolved v x =
  { ri_at = x.ri_at; ri_time = x.ri_time; ri_key = x.ri_key; ri_proto =
    x.ri_proto; ri_stat = x.ri_stat; ri_pend = x.ri_pend; ri_lastpend =
    x.ri_lastpend; ri_dial = x.ri_dial; ri_resolved = v; ri_popc = x.ri_popc;
    ri_d6 = x.ri_d6; ri_avail = x.ri_avail; ri_aband = x.ri_aband; ri_poph =
    x.ri_poph; ri_popx = x.ri_popx }

(** val set_ri_aband : bool -> rinfo -> rinfo **)

let set_ri_aband v x =
  { ri_at = x.ri_at; ri_time = x.ri_time; ri_key = x.ri_key; ri_proto =
    x.ri_proto; ri_stat = x.ri_stat; ri_pend = x.ri_pend; ri_lastpend =
    x.ri_lastpend; ri_dial = x.ri_dial; ri_resolved = x.ri_resolved;
    ri_popc = x.ri_popc; ri_d6 = x.ri_d6; ri_avail = x.ri_avail; ri_aband =
    v; ri_poph = x.ri_poph; ri_popx = x.ri_popx }

type cinfo = { ci_origin : nat; ci_share : bool; ci_new_at : nat;
               ci_closed : nat option; ci_back : nat; ci_back_time : 
               n; ci_holder : nat option; ci_rel_ready : bool;
               ci_upgraded : bool; ci_dropped : bool; ci_offer : nat option;
               ci_idle_time : n }

(** val set_ci_closed : nat option -> cinfo -> cinfo **)

let set_ci_closed v x =
  { ci_origin = x.ci_origin; ci_share = x.ci_share; ci_new_at = x.ci_new_at;
    ci_closed = v; ci_back = x.ci_back; ci_back_time = x.ci_back_time;
    ci_holder = x.ci_holder; ci_rel_ready = x.ci_rel_ready; ci_upgraded =
    x.ci_upgraded; ci_dropped = x.ci_dropped; ci_offer = x.ci_offer;
    ci_idle_time = x.ci_idle_time }

(** val set_ci_back : nat -> cinfo -> cinfo **)

let set_ci_back v x =
  { ci_origin = x.ci_origin; ci_share = x.ci_share; ci_new_at = x.ci_new_at;
    ci_closed = x.ci_closed; ci_back = v; ci_back_time = x.ci_back_time;
    ci_holder = x.ci_holder; ci_rel_ready = x.ci_rel_ready; ci_upgraded =
    x.ci_upgraded; ci_dropped = x.ci_dropped; ci_offer = x.ci_offer;
    ci_idle_time = x.ci_idle_time }

(** val set_ci_back_time : n -> cinfo -> cinfo **)

let set_ci_back_time v x =
  { ci_origin = x.ci_origin; ci_share = x.ci_share; ci_new_at = x.ci_new_at;
    ci_closed = x.ci_closed; ci_back = x.ci_back; ci_back_time = v;
    ci_holder = x.ci_holder; ci_rel_ready = x.ci_rel_ready; ci_upgraded =
    x.ci_upgraded; ci_dropped = x.ci_dropped; ci_offer = x.ci_offer;
    ci_idle_time = x.ci_idle_time }

(** val set_ci_holder : nat option -> cinfo -> cinfo **)

let set_ci_holder v x =
  { ci_origin = x.ci_origin; ci_share = x.ci_share; ci_new_at = x.ci_new_at;
    ci_closed = x.ci_closed; ci_back = x.ci_back; ci_back_time =
    x.ci_back_time; ci_holder = v; ci_rel_ready = x.ci_rel_ready;
    ci_upgraded = x.ci_upgraded; ci_dropped = x.ci_dropped; ci_offer =
    x.ci_offer; ci_idle_time = x.ci_idle_time }

(** val set_ci_rel_ready : bool -> cinfo -> cinfo **)

let set_ci_rel_ready v x =
  { ci_origin = x.ci_origin; ci_share = x.ci_share; ci_new_at = x.ci_new_at;
    ci_closed = x.ci_closed; ci_back = x.ci_back; ci_back_time =
    x.ci_back_time; ci_holder = x.ci_holder; ci_rel_ready = v; ci_upgraded =
    x.ci_upgraded; ci_dropped = x.ci_dropped; ci_offer = x.ci_offer;
    ci_idle_time = x.ci_idle_time }

(** val set_ci_upgraded : bool -> cinfo -> cinfo **)

let set_ci_upgraded v x =
  { ci_origin = x.ci_origin; ci_share = x.ci_share; ci_new_at = x.ci_new_at;
    ci_closed = x.ci_closed; ci_back = x.ci_back; ci_back_time =
    x.ci_back_time; ci_holder = x.ci_holder; ci_rel_ready = x.ci_rel_ready;
    ci_upgraded = v; ci_dropped = x.ci_dropped; ci_offer = x.ci_offer;
    ci_idle_time = x.ci_idle_time }

(** val set_ci_dropped : bool -> cinfo -> cinfo **)

let set_ci_dropped v x =
  { ci_origin = x.ci_origin; ci_share = x.ci_share; ci_new_at = x.ci_new_at;
    ci_closed = x.ci_closed; ci_back = x.ci_back; ci_back_time =
    x.ci_back_time; ci_holder = x.ci_holder; ci_rel_ready = x.ci_rel_ready;
    ci_upgraded = x.ci_upgraded; ci_dropped = v; ci_offer = x.ci_offer;
    ci_idle_time = x.ci_idle_time }

(** val set_ci_offer : nat option -> cinfo -> cinfo **)

let set_ci_offer v x =
  { ci_origin = x.ci_origin; ci_share = x.ci_share; ci_new_at = x.ci_new_at;
    ci_closed = x.ci_closed; ci_back = x.ci_back; ci_back_time =
    x.ci_back_time; ci_holder = x.ci_holder; ci_rel_ready = x.ci_rel_ready;
    ci_upgraded = x.ci_upgraded; ci_dropped = x.ci_dropped; ci_offer = v;
    ci_idle_time = x.ci_idle_time }

(** val set_ci_idle_time : n -> cinfo -> cinfo **)

let set_ci_idle_time v x =
  { ci_origin = x.ci_origin; ci_share = x.ci_share; ci_new_at = x.ci_new_at;
    ci_closed = x.ci_closed; ci_back = x.ci_back; ci_back_time =
    x.ci_back_time; ci_holder = x.ci_holder; ci_rel_ready = x.ci_rel_ready;
    ci_upgraded = x.ci_upgraded; ci_dropped = x.ci_dropped; ci_offer =
    x.ci_offer; ci_idle_time = v }

type mst = { m_i : nat; m_time : n; m_keys : key list; m_reqs : rinfo list;
             m_conns : cinfo list; m_prev : opobs }

(** val set_m_i : nat -> mst -> mst **)

let set_m_i v x =
  { m_i = v; m_time = x.m_time; m_keys = x.m_keys; m_reqs = x.m_reqs;
    m_conns = x.m_conns; m_prev = x.m_prev }

(** val set_m_time : n -> mst -> mst **)

let set_m_time v x =
  { m_i = x.m_i; m_time = v; m_keys = x.m_keys; m_reqs = x.m_reqs; m_conns =
    x.m_conns; m_prev = x.m_prev }

(** val set_m_keys : key list -> mst -> mst **)

let set_m_keys v x =
  { m_i = x.m_i; m_time = x.m_time; m_keys = v; m_reqs = x.m_reqs; m_conns =
    x.m_conns; m_prev = x.m_prev }

(** val set_m_reqs : rinfo list -> mst -> mst **)

let set_m_reqs v x =
  { m_i = x.m_i; m_time = x.m_time; m_keys = x.m_keys; m_reqs = v; m_conns =
    x.m_conns; m_prev = x.m_prev }

(** val set_m_conns : cinfo list -> mst -> mst **)

let set_m_conns v x =
  { m_i = x.m_i; m_time = x.m_time; m_keys = x.m_keys; m_reqs = x.m_reqs;
    m_conns = v; m_prev = x.m_prev }

(** val set_m_prev : opobs -> mst -> mst **)

let set_m_prev v x =
  { m_i = x.m_i; m_time = x.m_time; m_keys = x.m_keys; m_reqs = x.m_reqs;
    m_conns = x.m_conns; m_prev = v }

(** val m0 : mst **)

let m0 =
  { m_i = O; m_time = N0; m_keys = []; m_reqs = []; m_conns = []; m_prev =
    { o_events = []; o_snap = []; o_woken = [] } }

(** val tok_of : key list -> key -> nat **)

let tok_of ks k =
  match find_key k ks (S O) with
  | Some t -> t
  | None -> O

(** val snap_of : snap list -> nat -> snap option **)

let snap_of sn t =
  find (fun s -> Nat.eqb s.sn_token t) sn

(** val idle_of : snap list -> nat -> nat list **)

let idle_of sn t =
  match snap_of sn t with
  | Some s -> s.sn_idle
  | None -> []

(** val live_of : snap list -> nat -> nat **)

let live_of sn t =
  match snap_of sn t with
  | Some s -> s.sn_live
  | None -> O

(** val mem : nat -> nat list -> bool **)

let mem x l =
  existsb (Nat.eqb x) l

(** val ri_upd : (rinfo -> rinfo) -> nat -> mst -> mst **)

let ri_upd f r m =
  set_m_reqs (upd_nth r f m.m_reqs) m

(** val ci_upd : (cinfo -> cinfo) -> nat -> mst -> mst **)

let ci_upd f c m =
  set_m_conns (upd_nth c f m.m_conns) m

(** val req_key : mst -> nat -> key option **)

let req_key m r =
  match nth_error m.m_reqs r with
  | Some x -> x.ri_key
  | None -> None

(** val conn_key : mst -> nat -> key option **)

let conn_key m c =
  match nth_error m.m_conns c with
  | Some x -> req_key m x.ci_origin
  | None -> None

(** val same_key : key option -> key option -> bool **)

let same_key a b =
  match a with
  | Some x -> (match b with
               | Some y -> key_eqb x y
               | None -> false)
  | None -> false

(** val key_tok : mst -> key option -> nat **)

let key_tok m = function
| Some k' -> tok_of m.m_keys k'
| None -> O

(** val first_some : 'a1 option -> 'a1 -> 'a1 option **)

let first_some a v =
  match a with
  | Some o -> Some o
  | None -> Some v

(** val unexpired : config -> mst -> cinfo -> bool **)

let unexpired cfg m x =
  match cfg.g_timeout with
  | Some d ->
    if N.ltb N0 d then N.leb (N.sub m.m_time x.ci_back_time) d else true
  | None -> true

(** val usable : config -> mst -> nat -> bool **)

let usable cfg m c =
  match nth_error m.m_conns c with
  | Some x ->
    (match x.ci_closed with
     | Some _ -> false
     | None -> unexpired cfg m x)
  | None -> false

(** val open_conn : mst -> nat -> bool **)

let open_conn m c =
  match nth_error m.m_conns c with
  | Some x -> (match x.ci_closed with
               | Some _ -> false
               | None -> true)
  | None -> true

(** val track_ev : mst -> ev -> mst **)

let track_ev m = function
| EDial (r, _) -> ri_upd (set_ri_dial DsFlying) r m
| ENew (_, sh, r) ->
  let m1 = ri_upd (set_ri_dial DsOver) r m in
  set_m_conns
    (app m1.m_conns ({ ci_origin = r; ci_share = sh; ci_new_at = m1.m_i;
      ci_closed = None; ci_back = m1.m_i; ci_back_time = m1.m_time;
      ci_holder = None; ci_rel_ready = true; ci_upgraded = false;
      ci_dropped = false; ci_offer = None; ci_idle_time = m1.m_time } :: []))
    m1
| EHand (r, c, _, _, _, _) ->
  let own =
    match nth_error m.m_conns c with
    | Some x -> (&&) (Nat.eqb x.ci_origin r) (Nat.eqb x.ci_new_at m.m_i)
    | None -> false
  in
  let m1 =
    ri_upd (fun x ->
      set_ri_stat (SHeld c)
        (if (&&) (negb own)
              (match x.ri_dial with
               | DsFlying -> true
               | _ -> false)
         then set_ri_aband true x
         else x)) r m
  in
  ci_upd (fun x ->
    set_ci_offer None (set_ci_rel_ready false (set_ci_holder (Some r) x))) c
    m1
| EPend r ->
  ri_upd (fun x -> set_ri_lastpend (S m.m_i) (set_ri_pend true x)) r m
| ERes (r, x) ->
  let m1 = ri_upd (fun y -> set_ri_pend false (set_ri_stat SDone y)) r m in
  (match x with
   | ROk -> m1
   | RErr e0 ->
     (match e0 with
      | EConn -> ri_upd (set_ri_dial DsOver) r m1
      | EHs -> ri_upd (set_ri_dial DsOver) r m1
      | _ -> m1))
| ERel (_, c) -> ci_upd (set_ci_holder None) c m
| EDrop c -> ci_upd (set_ci_dropped true) c m
| ERdy (c, ok) ->
  if ok
  then ci_upd (fun x ->
         set_ci_rel_ready true
           (set_ci_back_time m.m_time (set_ci_back m.m_i x))) c m
  else m

(** val holder_conn : mst -> nat -> nat option **)

let holder_conn m r =
  match nth_error m.m_reqs r with
  | Some x -> (match x.ri_stat with
               | SHeld c -> Some c
               | _ -> None)
  | None -> None

(** val popped_conn : config -> mst -> nat list -> nat list -> nat option **)

let popped_conn cfg m before after =
  match skipn (length after) before with
  | [] -> None
  | c :: _ -> if usable cfg m c then Some c else None

(** val is_live : rinfo -> bool **)

let is_live x =
  match x.ri_stat with
  | SLive -> true
  | _ -> false

(** val h2_handle_out : mst -> nat -> key option -> bool **)

let h2_handle_out m r k =
  existsb (fun ix ->
    let (i, x) = ix in
    (&&) ((&&) ((&&) (negb (Nat.eqb i r)) (same_key x.ri_key k)) (is_live x))
      (match x.ri_poph with
       | Some _ -> true
       | None -> false)) (combine (seq O (length m.m_reqs)) m.m_reqs)

(** val track_op : config -> mst -> op -> opobs -> mst **)

let track_op cfg m o ob =
  match o with
  | Issue (u, p) ->
    let k = nth u cfg.g_uris None in
    let ks =
      match k with
      | Some k' ->
        if cfg.g_pool
        then (match find_key k' m.m_keys (S O) with
              | Some _ -> m.m_keys
              | None -> app m.m_keys (k' :: []))
        else m.m_keys
      | None -> m.m_keys
    in
    let t =
      match k with
      | Some k' -> if cfg.g_pool then tok_of ks k' else O
      | None -> O
    in
    let before = idle_of m.m_prev.o_snap t in
    let popc = popped_conn cfg m before (idle_of ob.o_snap t) in
    let avail = existsb (usable cfg m) before in
    let popx =
      match skipn (length (idle_of ob.o_snap t)) before with
      | [] -> None
      | c :: _ -> Some c
    in
    let poph =
      match skipn (length (idle_of ob.o_snap t)) before with
      | [] -> None
      | c :: _ ->
        (match nth_error m.m_conns c with
         | Some y ->
           if (&&) y.ci_share
                (match y.ci_closed with
                 | Some _ -> false
                 | None -> true)
           then Some c
           else None
         | None -> None)
    in
    set_m_keys ks
      (set_m_reqs
        (app m.m_reqs ({ ri_at = m.m_i; ri_time = m.m_time; ri_key = k;
          ri_proto = p; ri_stat = SLive; ri_pend = false; ri_lastpend = O;
          ri_dial = DsNone; ri_resolved = None; ri_popc = popc; ri_d6 =
          (h2_handle_out m (length m.m_reqs) k); ri_avail = avail; ri_aband =
          false; ri_poph = poph; ri_popx = popx } :: [])) m)
  | Cancel r ->
    (match nth_error m.m_reqs r with
     | Some x ->
       (match x.ri_stat with
        | SLive ->
          let m1 =
            match x.ri_stat with
            | SLive ->
              (match x.ri_popx with
               | Some c ->
                 (match nth_error m.m_conns c with
                  | Some y ->
                    if y.ci_share then m else ci_upd (set_ci_back m.m_i) c m
                  | None -> m)
               | None -> m)
            | _ -> m
          in
          ri_upd (fun y ->
            set_ri_pend false
              (set_ri_stat SCancelled
                (match y.ri_stat with
                 | SLive ->
                   (match y.ri_dial with
                    | DsFlying -> set_ri_aband true y
                    | _ -> y)
                 | _ -> y))) r m1
        | SHeld _ ->
          let m1 =
            match x.ri_stat with
            | SLive ->
              (match x.ri_popx with
               | Some c ->
                 (match nth_error m.m_conns c with
                  | Some y ->
                    if y.ci_share then m else ci_upd (set_ci_back m.m_i) c m
                  | None -> m)
               | None -> m)
            | _ -> m
          in
          ri_upd (fun y ->
            set_ri_pend false
              (set_ri_stat SCancelled
                (match y.ri_stat with
                 | SLive ->
                   (match y.ri_dial with
                    | DsFlying -> set_ri_aband true y
                    | _ -> y)
                 | _ -> y))) r m1
        | _ -> m)
     | None -> m)
  | Upgrade r ->
    (match holder_conn m r with
     | Some c ->
       ci_upd (fun x ->
         set_ci_upgraded true (set_ci_closed (first_some x.ci_closed m.m_i) x))
         c m
     | None -> m)
  | DialDone (r, x) ->
    ri_upd (fun y ->
      match y.ri_dial with
      | DsFlying ->
        (match y.ri_resolved with
         | Some _ -> y
         | None ->
           set_ri_resolved (Some (match x with
                                  | DOk _ -> true
                                  | _ -> false)) y)
      | _ -> y) r m
  | ConnClose c ->
    ci_upd (fun x -> set_ci_closed (first_some x.ci_closed m.m_i) x) c m
  | Tick dt -> set_m_time (N.add m.m_time dt) m
  | _ -> m

(** val track_offer : opobs -> mst -> ev -> mst **)

let track_offer ob m = function
| ERdy (c, ok) ->
  if ok
  then (match nth_error m.m_conns c with
        | Some x ->
          let parked = mem c (idle_of ob.o_snap (key_tok m (conn_key m c))) in
          ci_upd
            (set_ci_offer
              (if (||) ((||) parked x.ci_dropped) x.ci_share
               then None
               else Some m.m_i)) c m
        | None -> m)
  else m
| _ -> m

(** val track_idle_stamp : snap list -> mst -> snap -> mst **)

let track_idle_stamp prev m sn =
  fold_left (fun m1 c ->
    if mem c (idle_of prev sn.sn_token)
    then m1
    else ci_upd (set_ci_idle_time m1.m_time) c m1) sn.sn_idle m

(** val track : config -> mst -> op -> opobs -> mst **)

let track cfg m o ob =
  let prev = m.m_prev.o_snap in
  let m1 = fold_left track_ev ob.o_events (track_op cfg m o ob) in
  let m2 = fold_left (track_offer ob) ob.o_events m1 in
  let m3 = fold_left (track_idle_stamp prev) ob.o_snap m2 in
  set_m_prev ob (set_m_i (S m3.m_i) m3)

(** val mon_steps :
    (config -> mst -> op -> opobs -> bool) -> config -> mst -> op list ->
    opobs list -> bool **)

let rec mon_steps chk cfg m ops obs0 =
  match ops with
  | [] -> (match obs0 with
           | [] -> true
           | _ :: _ -> false)
  | o :: ops' ->
    (match obs0 with
     | [] -> false
     | ob :: obs' ->
       (&&) (chk cfg m o ob) (mon_steps chk cfg (track cfg m o ob) ops' obs'))

(** val mon_with :
    (config -> mst -> op -> opobs -> bool) -> config -> op list -> opobs list
    -> bool **)

let mon_with chk cfg ops obs0 =
  mon_steps chk cfg m0 ops obs0

(** val final_mst : config -> mst -> op list -> opobs list -> mst **)

let rec final_mst cfg m ops obs0 =
  match ops with
  | [] -> m
  | o :: ops' ->
    (match obs0 with
     | [] -> m
     | ob :: obs' -> final_mst cfg (track cfg m o ob) ops' obs')

(** val evs_ok : (mst -> ev -> bool) -> mst -> ev list -> bool **)

let rec evs_ok chk_ev m = function
| [] -> true
| e :: t -> (&&) (chk_ev m e) (evs_ok chk_ev (track_ev m e) t)

(** val chk_C15 : config -> mst -> op -> opobs -> bool **)

let chk_C15 cfg _ _ ob =
  forallb (fun s -> Nat.leb (length s.sn_idle) cfg.g_max_idle) ob.o_snap

(** val mon_C15 : config -> op list -> opobs list -> bool **)

let mon_C15 =
  mon_with chk_C15

(** val chk_ev_C06 : mst -> ev -> bool **)

let chk_ev_C06 m = function
| EDial (r, k) ->
  (match req_key m r with
   | Some k' -> (&&) (eqb0 (fst k) (fst k')) (eqb0 (snd k) (snd k'))
   | None -> false)
| EHand (r, c, _, _, _, _) -> same_key (conn_key m c) (req_key m r)
| _ -> true

(** val chk_C06 : config -> mst -> op -> opobs -> bool **)

let chk_C06 cfg m o ob =
  evs_ok chk_ev_C06 (track_op cfg m o ob) ob.o_events

(** val mon_C06 : config -> op list -> opobs list -> bool **)

let mon_C06 =
  mon_with chk_C06

(** val chk_ev_C02 : mst -> ev -> bool **)

let chk_ev_C02 m = function
| EHand (_, c, _, _, _, holders) ->
  (match nth_error m.m_conns c with
   | Some x ->
     if x.ci_share
     then true
     else (&&)
            ((&&)
              ((&&) (Nat.eqb holders O)
                (match x.ci_holder with
                 | Some _ -> false
                 | None -> true)) x.ci_rel_ready) (negb x.ci_upgraded)
   | None -> false)
| _ -> true

(** val chk_C02 : config -> mst -> op -> opobs -> bool **)

let chk_C02 cfg m o ob =
  evs_ok chk_ev_C02 (track_op cfg m o ob) ob.o_events

(** val mon_C02 : config -> op list -> opobs list -> bool **)

let mon_C02 =
  mon_with chk_C02

(** val chk_ev_C05 : config -> mst -> ev -> bool **)

let chk_ev_C05 cfg m = function
| EHand (r, c, _, _, _, _) ->
  (match nth_error m.m_conns c with
   | Some x ->
     (match nth_error m.m_reqs r with
      | Some y ->
        let acq = Nat.max x.ci_back y.ri_at in
        (&&)
          (match x.ci_closed with
           | Some cl -> negb (Nat.ltb cl acq)
           | None -> true)
          (match cfg.g_timeout with
           | Some d ->
             (match y.ri_popx with
              | Some c' ->
                if (&&) (N.ltb N0 d) (Nat.eqb c c')
                then N.leb (N.sub y.ri_time x.ci_idle_time) d
                else true
              | None -> true)
           | None -> true)
      | None -> false)
   | None -> false)
| _ -> true

(** val chk_C05 : config -> mst -> op -> opobs -> bool **)

let chk_C05 cfg m o ob =
  evs_ok (chk_ev_C05 cfg) (track_op cfg m o ob) ob.o_events

(** val mon_C05 : config -> op list -> opobs list -> bool **)

let mon_C05 =
  mon_with chk_C05

(** val is_gone : rinfo -> bool **)

let is_gone x =
  match x.ri_stat with
  | SLive -> false
  | SHeld _ -> false
  | _ -> true

(** val chk_ev_C03 : nat list -> mst -> ev -> bool **)

let chk_ev_C03 woken_before m e =
  let about = fun r progress ->
    match nth_error m.m_reqs r with
    | Some x ->
      (&&) (negb (is_gone x))
        (if (&&) progress x.ri_pend then mem r woken_before else true)
    | None -> false
  in
  (match e with
   | EHand (r, _, _, _, _, _) -> about r true
   | EPend r -> about r false
   | ERes (r, _) -> about r true
   | _ -> true)

(** val chk_C03 : config -> mst -> op -> opobs -> bool **)

let chk_C03 cfg m o ob =
  evs_ok (chk_ev_C03 m.m_prev.o_woken) (track_op cfg m o ob) ob.o_events

(** val drain_ops : nat -> nat -> proto -> op list **)

let drain_ops nreq u p =
  let rs = seq O nreq in
  app (map (fun x -> Poll x) rs)
    (app (Bg :: [])
      (app (map (fun r -> DialDone (r, (DOk false))) rs)
        (app (Bg :: [])
          (app (map (fun x -> Poll x) rs)
            (app (Bg :: [])
              (app (map (fun x -> Poll x) rs)
                (app (Bg :: [])
                  (app (map (fun x -> Finish x) rs)
                    (app (map (fun x -> Poll x) rs)
                      (app (map (fun x -> ConnReady x) (seq O (S nreq)))
                        (app (Bg :: [])
                          (app (map (fun x -> Poll x) rs) ((Issue (u,
                            p)) :: ((Poll nreq) :: ((DialDone (nreq, (DOk
                            false))) :: ((Poll nreq) :: []))))))))))))))))

(** val count_issues : op list -> nat **)

let count_issues ops =
  length
    (filter (fun o -> match o with
                      | Issue (_, _) -> true
                      | _ -> false) ops)

(** val all_resolved : mst -> bool **)

let all_resolved m =
  forallb (fun x -> negb (is_live x)) m.m_reqs

(** val mon_C03 : config -> op list -> bool -> opobs list -> bool **)

let mon_C03 cfg ops drained obs0 =
  (&&) (mon_with chk_C03 cfg ops obs0)
    (if drained then all_resolved (final_mst cfg m0 ops obs0) else true)

(** val share_conn_since : mst -> key option -> nat -> bool **)

let share_conn_since m k i =
  existsb (fun cy ->
    let (c, y) = cy in
    (&&) ((&&) y.ci_share (Nat.leb i y.ci_new_at)) (same_key (conn_key m c) k))
    (combine (seq O (length m.m_conns)) m.m_conns)

(** val h2_flying : bool -> config -> mst -> nat -> key option -> bool **)

let h2_flying d6 cfg m r k =
  existsb (fun ix ->
    let (i, x) = ix in
    (&&)
      ((&&)
        ((&&)
          ((&&)
            ((&&) ((&&) (negb (Nat.eqb i r)) (same_key x.ri_key k))
              (match x.ri_proto with
               | H1 -> false
               | H2 -> true))
            (match x.ri_dial with
             | DsFlying ->
               (match x.ri_resolved with
                | Some _ -> false
                | None -> true)
             | _ -> false)) ((||) (is_live x) cfg.g_cont))
        (negb (share_conn_since m k x.ri_at))) ((||) d6 (negb x.ri_d6)))
    (combine (seq O (length m.m_reqs)) m.m_reqs)

(** val chk_ev_C04 : bool -> config -> opobs -> mst -> ev -> bool **)

let chk_ev_C04 d6 cfg ob m = function
| EDial (r, _) ->
  (match nth_error m.m_reqs r with
   | Some x ->
     if (&&) cfg.g_pool ((||) d6 (negb x.ri_d6))
     then (&&)
            ((&&) (negb x.ri_avail)
              (negb
                (match x.ri_proto with
                 | H1 -> false
                 | H2 -> h2_flying d6 cfg m r x.ri_key)))
            (negb ((&&) d6 (h2_handle_out m r x.ri_key)))
     else true
   | None -> false)
| EDrop c ->
  (match nth_error m.m_conns c with
   | Some x ->
     if (&&) cfg.g_pool (negb x.ci_share)
     then (match x.ci_closed with
           | Some _ -> true
           | None ->
             (||) (negb (unexpired cfg m x))
               (Nat.leb cfg.g_max_idle
                 (length (idle_of ob.o_snap (key_tok m (conn_key m c))))))
     else true
   | None -> false)
| _ -> true

(** val no_parked_while_waiting : config -> mst -> opobs -> bool **)

let no_parked_while_waiting cfg m ob =
  forallb (fun sn ->
    (||) (Nat.eqb sn.sn_live O)
      (forallb (fun c -> negb ((&&) (open_conn m c) (usable cfg m c)))
        sn.sn_idle)) ob.o_snap

(** val chk_C04 : bool -> config -> mst -> op -> opobs -> bool **)

let chk_C04 d6 cfg m o ob =
  (&&) (evs_ok (chk_ev_C04 d6 cfg ob) (track_op cfg m o ob) ob.o_events)
    (no_parked_while_waiting cfg
      (fold_left track_ev ob.o_events (track_op cfg m o ob)) ob)

(** val mon_C04 : config -> op list -> opobs list -> bool **)

let mon_C04 =
  mon_with (chk_C04 true)

(** val mon_C04_but_D6 : config -> op list -> opobs list -> bool **)

let mon_C04_but_D6 =
  mon_with (chk_C04 false)

(** val chk_ev_C14 : config -> op -> opobs -> mst -> ev -> bool **)

let chk_ev_C14 cfg _ ob m = function
| ENew (c, _, r) ->
  (match nth_error m.m_reqs r with
   | Some y ->
     if y.ri_aband
     then (&&) cfg.g_cont
            (let t = key_tok m y.ri_key in
             (||)
               ((||) (mem c (idle_of ob.o_snap t))
                 (Nat.leb cfg.g_max_idle (length (idle_of ob.o_snap t))))
               (Nat.ltb O (live_of m.m_prev.o_snap t)))
     else true
   | None -> false)
| EHand (r, c, _, _, _, _) ->
  (match nth_error m.m_conns c with
   | Some x ->
     (match nth_error m.m_reqs r with
      | Some y ->
        (match x.ci_offer with
         | Some i0 -> Nat.leb y.ri_lastpend (S i0)
         | None -> true)
      | None -> false)
   | None -> false)
| EPend r ->
  (match nth_error m.m_reqs r with
   | Some y ->
     if (&&) ((&&) cfg.g_pool (is_live y))
          (match y.ri_dial with
           | DsFlying -> true
           | _ -> false)
     then forallb (fun c ->
            match nth_error m.m_conns c with
            | Some x ->
              (||) x.ci_share (negb ((&&) (open_conn m c) (usable cfg m c)))
            | None -> true) (idle_of ob.o_snap (key_tok m y.ri_key))
     else true
   | None -> false)
| ERdy (c, ok) ->
  if ok
  then (match nth_error m.m_conns c with
        | Some x ->
          if (&&) ((&&) cfg.g_pool (negb x.ci_share))
               (match x.ci_closed with
                | Some _ -> false
                | None -> true)
          then let t = key_tok m (conn_key m c) in
               negb
                 ((&&) (mem c (idle_of ob.o_snap t))
                   (Nat.ltb O (live_of ob.o_snap t)))
          else true
        | None -> false)
  else true
| _ -> true

(** val chk_bg_C14 : config -> mst -> op -> opobs -> bool **)

let chk_bg_C14 cfg m o ob =
  match o with
  | Bg ->
    forallb (fun ix ->
      let (i, x) = ix in
      if (&&) ((&&) ((&&) x.ri_aband cfg.g_cont) cfg.g_pool)
           (match x.ri_dial with
            | DsFlying ->
              (match x.ri_resolved with
               | Some b -> b
               | None -> false)
            | _ -> false)
      then existsb (fun e ->
             match e with
             | ENew (_, _, r) -> Nat.eqb r i
             | _ -> false) ob.o_events
      else true) (combine (seq O (length m.m_reqs)) m.m_reqs)
  | _ -> true

(** val chk_C14 : config -> mst -> op -> opobs -> bool **)

let chk_C14 cfg m o ob =
  (&&) (evs_ok (chk_ev_C14 cfg o ob) (track_op cfg m o ob) ob.o_events)
    (chk_bg_C14 cfg m o ob)

(** val mon_C14 : config -> op list -> opobs list -> bool **)

let mon_C14 =
  mon_with chk_C14

type case = { k_cfg : config; k_ops : op list;
              k_drained : (nat * proto) option }

(** val op_eqb : op -> op -> bool **)

let op_eqb a b =
  match a with
  | Issue (u, p) ->
    (match b with
     | Issue (u', p') ->
       (&&) (Nat.eqb u u')
         (match p with
          | H1 -> (match p' with
                   | H1 -> true
                   | H2 -> false)
          | H2 -> (match p' with
                   | H1 -> false
                   | H2 -> true))
     | _ -> false)
  | Poll r -> (match b with
               | Poll r' -> Nat.eqb r r'
               | _ -> false)
  | Cancel r -> (match b with
                 | Cancel r' -> Nat.eqb r r'
                 | _ -> false)
  | Finish r -> (match b with
                 | Finish r' -> Nat.eqb r r'
                 | _ -> false)
  | Upgrade r -> (match b with
                  | Upgrade r' -> Nat.eqb r r'
                  | _ -> false)
  | DialDone (r, x) ->
    (match b with
     | DialDone (r', x') ->
       (&&) (Nat.eqb r r')
         (match x with
          | DOk a0 -> (match x' with
                       | DOk b0 -> eqb a0 b0
                       | _ -> false)
          | DErrConnect -> (match x' with
                            | DErrConnect -> true
                            | _ -> false)
          | DErrHandshake ->
            (match x' with
             | DErrHandshake -> true
             | _ -> false))
     | _ -> false)
  | ConnReady r -> (match b with
                    | ConnReady r' -> Nat.eqb r r'
                    | _ -> false)
  | ConnClose r -> (match b with
                    | ConnClose r' -> Nat.eqb r r'
                    | _ -> false)
  | Bg -> (match b with
           | Bg -> true
           | _ -> false)
  | Tick a0 -> (match b with
                | Tick b0 -> N.eqb a0 b0
                | _ -> false)

(** val well_formed : case -> bool **)

let well_formed c =
  match c.k_drained with
  | Some p0 ->
    let (u, p) = p0 in
    let ops = c.k_ops in
    let n0 = sub (count_issues ops) (S O) in
    let d = drain_ops n0 u p in
    (&&) (list_eqb op_eqb (skipn (sub (length ops) (length d)) ops) d)
      (Nat.eqb (count_issues (firstn (sub (length ops) (length d)) ops)) n0)
  | None -> true

type obs = opobs list

(** val drained_b : case -> bool **)

let drained_b c =
  match c.k_drained with
  | Some _ -> true
  | None -> false

(** val mon_of : nat -> case -> obs -> bool **)

let mon_of which c o =
  (&&) (well_formed c)
    (match which with
     | O ->
       (&&)
         ((&&)
           ((&&)
             ((&&)
               ((&&)
                 ((&&) (mon_C02 c.k_cfg c.k_ops o)
                   (mon_C03 c.k_cfg c.k_ops (drained_b c) o))
                 (mon_C04 c.k_cfg c.k_ops o)) (mon_C05 c.k_cfg c.k_ops o))
             (mon_C06 c.k_cfg c.k_ops o)) (mon_C14 c.k_cfg c.k_ops o))
         (mon_C15 c.k_cfg c.k_ops o)
     | S n0 ->
       (match n0 with
        | O ->
          (&&)
            ((&&)
              ((&&)
                ((&&)
                  ((&&)
                    ((&&) (mon_C02 c.k_cfg c.k_ops o)
                      (mon_C03 c.k_cfg c.k_ops (drained_b c) o))
                    (mon_C04 c.k_cfg c.k_ops o)) (mon_C05 c.k_cfg c.k_ops o))
                (mon_C06 c.k_cfg c.k_ops o)) (mon_C14 c.k_cfg c.k_ops o))
            (mon_C15 c.k_cfg c.k_ops o)
        | S n1 ->
          (match n1 with
           | O -> mon_C02 c.k_cfg c.k_ops o
           | S n2 ->
             (match n2 with
              | O -> mon_C03 c.k_cfg c.k_ops (drained_b c) o
              | S n3 ->
                (match n3 with
                 | O -> mon_C04 c.k_cfg c.k_ops o
                 | S n4 ->
                   (match n4 with
                    | O -> mon_C05 c.k_cfg c.k_ops o
                    | S n5 ->
                      (match n5 with
                       | O -> mon_C06 c.k_cfg c.k_ops o
                       | S n6 ->
                         (match n6 with
                          | O ->
                            (&&)
                              ((&&)
                                ((&&)
                                  ((&&)
                                    ((&&)
                                      ((&&) (mon_C02 c.k_cfg c.k_ops o)
                                        (mon_C03 c.k_cfg c.k_ops
                                          (drained_b c) o))
                                      (mon_C04 c.k_cfg c.k_ops o))
                                    (mon_C05 c.k_cfg c.k_ops o))
                                  (mon_C06 c.k_cfg c.k_ops o))
                                (mon_C14 c.k_cfg c.k_ops o))
                              (mon_C15 c.k_cfg c.k_ops o)
                          | S n7 ->
                            (match n7 with
                             | O ->
                               (&&)
                                 ((&&)
                                   ((&&)
                                     ((&&)
                                       ((&&)
                                         ((&&) (mon_C02 c.k_cfg c.k_ops o)
                                           (mon_C03 c.k_cfg c.k_ops
                                             (drained_b c) o))
                                         (mon_C04 c.k_cfg c.k_ops o))
                                       (mon_C05 c.k_cfg c.k_ops o))
                                     (mon_C06 c.k_cfg c.k_ops o))
                                   (mon_C14 c.k_cfg c.k_ops o))
                                 (mon_C15 c.k_cfg c.k_ops o)
                             | S n8 ->
                               (match n8 with
                                | O ->
                                  (&&)
                                    ((&&)
                                      ((&&)
                                        ((&&)
                                          ((&&)
                                            ((&&) (mon_C02 c.k_cfg c.k_ops o)
                                              (mon_C03 c.k_cfg c.k_ops
                                                (drained_b c) o))
                                            (mon_C04 c.k_cfg c.k_ops o))
                                          (mon_C05 c.k_cfg c.k_ops o))
                                        (mon_C06 c.k_cfg c.k_ops o))
                                      (mon_C14 c.k_cfg c.k_ops o))
                                    (mon_C15 c.k_cfg c.k_ops o)
                                | S n9 ->
                                  (match n9 with
                                   | O ->
                                     (&&)
                                       ((&&)
                                         ((&&)
                                           ((&&)
                                             ((&&)
                                               ((&&)
                                                 (mon_C02 c.k_cfg c.k_ops o)
                                                 (mon_C03 c.k_cfg c.k_ops
                                                   (drained_b c) o))
                                               (mon_C04 c.k_cfg c.k_ops o))
                                             (mon_C05 c.k_cfg c.k_ops o))
                                           (mon_C06 c.k_cfg c.k_ops o))
                                         (mon_C14 c.k_cfg c.k_ops o))
                                       (mon_C15 c.k_cfg c.k_ops o)
                                   | S n10 ->
                                     (match n10 with
                                      | O ->
                                        (&&)
                                          ((&&)
                                            ((&&)
                                              ((&&)
                                                ((&&)
                                                  ((&&)
                                                    (mon_C02 c.k_cfg c.k_ops
                                                      o)
                                                    (mon_C03 c.k_cfg c.k_ops
                                                      (drained_b c) o))
                                                  (mon_C04 c.k_cfg c.k_ops o))
                                                (mon_C05 c.k_cfg c.k_ops o))
                                              (mon_C06 c.k_cfg c.k_ops o))
                                            (mon_C14 c.k_cfg c.k_ops o))
                                          (mon_C15 c.k_cfg c.k_ops o)
                                      | S n11 ->
                                        (match n11 with
                                         | O ->
                                           (&&)
                                             ((&&)
                                               ((&&)
                                                 ((&&)
                                                   ((&&)
                                                     ((&&)
                                                       (mon_C02 c.k_cfg
                                                         c.k_ops o)
                                                       (mon_C03 c.k_cfg
                                                         c.k_ops
                                                         (drained_b c) o))
                                                     (mon_C04 c.k_cfg c.k_ops
                                                       o))
                                                   (mon_C05 c.k_cfg c.k_ops o))
                                                 (mon_C06 c.k_cfg c.k_ops o))
                                               (mon_C14 c.k_cfg c.k_ops o))
                                             (mon_C15 c.k_cfg c.k_ops o)
                                         | S n12 ->
                                           (match n12 with
                                            | O ->
                                              (&&)
                                                ((&&)
                                                  ((&&)
                                                    ((&&)
                                                      ((&&)
                                                        ((&&)
                                                          (mon_C02 c.k_cfg
                                                            c.k_ops o)
                                                          (mon_C03 c.k_cfg
                                                            c.k_ops
                                                            (drained_b c) o))
                                                        (mon_C04 c.k_cfg
                                                          c.k_ops o))
                                                      (mon_C05 c.k_cfg
                                                        c.k_ops o))
                                                    (mon_C06 c.k_cfg c.k_ops
                                                      o))
                                                  (mon_C14 c.k_cfg c.k_ops o))
                                                (mon_C15 c.k_cfg c.k_ops o)
                                            | S n13 ->
                                              (match n13 with
                                               | O ->
                                                 mon_C14 c.k_cfg c.k_ops o
                                               | S n14 ->
                                                 (match n14 with
                                                  | O ->
                                                    mon_C15 c.k_cfg c.k_ops o
                                                  | S n15 ->
                                                    (match n15 with
                                                     | O ->
                                                       (&&)
                                                         ((&&)
                                                           ((&&)
                                                             ((&&)
                                                               ((&&)
                                                                 ((&&)
                                                                   (mon_C02
                                                                    c.k_cfg
                                                                    c.k_ops o)
                                                                   (mon_C03
                                                                    c.k_cfg
                                                                    c.k_ops
                                                                    (drained_b
                                                                    c) o))
                                                                 (mon_C04
                                                                   c.k_cfg
                                                                   c.k_ops o))
                                                               (mon_C05
                                                                 c.k_cfg
                                                                 c.k_ops o))
                                                             (mon_C06 c.k_cfg
                                                               c.k_ops o))
                                                           (mon_C14 c.k_cfg
                                                             c.k_ops o))
                                                         (mon_C15 c.k_cfg
                                                           c.k_ops o)
                                                     | S n16 ->
                                                       (match n16 with
                                                        | O ->
                                                          (&&)
                                                            ((&&)
                                                              ((&&)
                                                                ((&&)
                                                                  ((&&)
                                                                    ((&&)
                                                                    (mon_C02
                                                                    c.k_cfg
                                                                    c.k_ops o)
                                                                    (mon_C03
                                                                    c.k_cfg
                                                                    c.k_ops
                                                                    (drained_b
                                                                    c) o))
                                                                    (mon_C04
                                                                    c.k_cfg
                                                                    c.k_ops o))
                                                                  (mon_C05
                                                                    c.k_cfg
                                                                    c.k_ops o))
                                                                (mon_C06
                                                                  c.k_cfg
                                                                  c.k_ops o))
                                                              (mon_C14
                                                                c.k_cfg
                                                                c.k_ops o))
                                                            (mon_C15 c.k_cfg
                                                              c.k_ops o)
                                                        | S n17 ->
                                                          (match n17 with
                                                           | O ->
                                                             (&&)
                                                               ((&&)
                                                                 ((&&)
                                                                   ((&&)
                                                                    ((&&)
                                                                    ((&&)
                                                                    (mon_C02
                                                                    c.k_cfg
                                                                    c.k_ops o)
                                                                    (mon_C03
                                                                    c.k_cfg
                                                                    c.k_ops
                                                                    (drained_b
                                                                    c) o))
                                                                    (mon_C04
                                                                    c.k_cfg
                                                                    c.k_ops o))
                                                                    (mon_C05
                                                                    c.k_cfg
                                                                    c.k_ops o))
                                                                   (mon_C06
                                                                    c.k_cfg
                                                                    c.k_ops o))
                                                                 (mon_C14
                                                                   c.k_cfg
                                                                   c.k_ops o))
                                                               (mon_C15
                                                                 c.k_cfg
                                                                 c.k_ops o)
                                                           | S n18 ->
                                                             (match n18 with
                                                              | O ->
                                                                (&&)
                                                                  ((&&)
                                                                    ((&&)
                                                                    ((&&)
                                                                    ((&&)
                                                                    ((&&)
                                                                    (mon_C02
                                                                    c.k_cfg
                                                                    c.k_ops o)
                                                                    (mon_C03
                                                                    c.k_cfg
                                                                    c.k_ops
                                                                    (drained_b
                                                                    c) o))
                                                                    (mon_C04
                                                                    c.k_cfg
                                                                    c.k_ops o))
                                                                    (mon_C05
                                                                    c.k_cfg
                                                                    c.k_ops o))
                                                                    (mon_C06
                                                                    c.k_cfg
                                                                    c.k_ops o))
                                                                    (mon_C14
                                                                    c.k_cfg
                                                                    c.k_ops o))
                                                                  (mon_C15
                                                                    c.k_cfg
                                                                    c.k_ops o)
                                                              | S n19 ->
                                                                (match n19 with
                                                                 | O ->
                                                                   (&&)
                                                                    ((&&)
                                                                    ((&&)
                                                                    ((&&)
                                                                    ((&&)
                                                                    ((&&)
                                                                    (mon_C02
                                                                    c.k_cfg
                                                                    c.k_ops o)
                                                                    (mon_C03
                                                                    c.k_cfg
                                                                    c.k_ops
                                                                    (drained_b
                                                                    c) o))
                                                                    (mon_C04
                                                                    c.k_cfg
                                                                    c.k_ops o))
                                                                    (mon_C05
                                                                    c.k_cfg
                                                                    c.k_ops o))
                                                                    (mon_C06
                                                                    c.k_cfg
                                                                    c.k_ops o))
                                                                    (mon_C14
                                                                    c.k_cfg
                                                                    c.k_ops o))
                                                                    (mon_C15
                                                                    c.k_cfg
                                                                    c.k_ops o)
                                                                 | S n20 ->
                                                                   (match n20 with
                                                                    | O ->
                                                                    (&&)
                                                                    ((&&)
                                                                    ((&&)
                                                                    ((&&)
                                                                    ((&&)
                                                                    ((&&)
                                                                    (mon_C02
                                                                    c.k_cfg
                                                                    c.k_ops o)
                                                                    (mon_C03
                                                                    c.k_cfg
                                                                    c.k_ops
                                                                    (drained_b
                                                                    c) o))
                                                                    (mon_C04
                                                                    c.k_cfg
                                                                    c.k_ops o))
                                                                    (mon_C05
                                                                    c.k_cfg
                                                                    c.k_ops o))
                                                                    (mon_C06
                                                                    c.k_cfg
                                                                    c.k_ops o))
                                                                    (mon_C14
                                                                    c.k_cfg
                                                                    c.k_ops o))
                                                                    (mon_C15
                                                                    c.k_cfg
                                                                    c.k_ops o)
                                                                    | S n21 ->
                                                                    (match n21 with
                                                                    | O ->
                                                                    (&&)
                                                                    ((&&)
                                                                    ((&&)
                                                                    ((&&)
                                                                    ((&&)
                                                                    ((&&)
                                                                    (mon_C02
                                                                    c.k_cfg
                                                                    c.k_ops o)
                                                                    (mon_C03
                                                                    c.k_cfg
                                                                    c.k_ops
                                                                    (drained_b
                                                                    c) o))
                                                                    (mon_C04
                                                                    c.k_cfg
                                                                    c.k_ops o))
                                                                    (mon_C05
                                                                    c.k_cfg
                                                                    c.k_ops o))
                                                                    (mon_C06
                                                                    c.k_cfg
                                                                    c.k_ops o))
                                                                    (mon_C14
                                                                    c.k_cfg
                                                                    c.k_ops o))
                                                                    (mon_C15
                                                                    c.k_cfg
                                                                    c.k_ops o)
                                                                    | S n22 ->
                                                                    (match n22 with
                                                                    | O ->
                                                                    (&&)
                                                                    ((&&)
                                                                    ((&&)
                                                                    ((&&)
                                                                    ((&&)
                                                                    ((&&)
                                                                    (mon_C02
                                                                    c.k_cfg
                                                                    c.k_ops o)
                                                                    (mon_C03
                                                                    c.k_cfg
                                                                    c.k_ops
                                                                    (drained_b
                                                                    c) o))
                                                                    (mon_C04
                                                                    c.k_cfg
                                                                    c.k_ops o))
                                                                    (mon_C05
                                                                    c.k_cfg
                                                                    c.k_ops o))
                                                                    (mon_C06
                                                                    c.k_cfg
                                                                    c.k_ops o))
                                                                    (mon_C14
                                                                    c.k_cfg
                                                                    c.k_ops o))
                                                                    (mon_C15
                                                                    c.k_cfg
                                                                    c.k_ops o)
                                                                    | S n23 ->
                                                                    (match n23 with
                                                                    | O ->
                                                                    (&&)
                                                                    ((&&)
                                                                    ((&&)
                                                                    ((&&)
                                                                    ((&&)
                                                                    ((&&)
                                                                    (mon_C02
                                                                    c.k_cfg
                                                                    c.k_ops o)
                                                                    (mon_C03
                                                                    c.k_cfg
                                                                    c.k_ops
                                                                    (drained_b
                                                                    c) o))
                                                                    (mon_C04
                                                                    c.k_cfg
                                                                    c.k_ops o))
                                                                    (mon_C05
                                                                    c.k_cfg
                                                                    c.k_ops o))
                                                                    (mon_C06
                                                                    c.k_cfg
                                                                    c.k_ops o))
                                                                    (mon_C14
                                                                    c.k_cfg
                                                                    c.k_ops o))
                                                                    (mon_C15
                                                                    c.k_cfg
                                                                    c.k_ops o)
                                                                    | S n24 ->
                                                                    (match n24 with
                                                                    | O ->
                                                                    (&&)
                                                                    ((&&)
                                                                    ((&&)
                                                                    ((&&)
                                                                    ((&&)
                                                                    ((&&)
                                                                    (mon_C02
                                                                    c.k_cfg
                                                                    c.k_ops o)
                                                                    (mon_C03
                                                                    c.k_cfg
                                                                    c.k_ops
                                                                    (drained_b
                                                                    c) o))
                                                                    (mon_C04
                                                                    c.k_cfg
                                                                    c.k_ops o))
                                                                    (mon_C05
                                                                    c.k_cfg
                                                                    c.k_ops o))
                                                                    (mon_C06
                                                                    c.k_cfg
                                                                    c.k_ops o))
                                                                    (mon_C14
                                                                    c.k_cfg
                                                                    c.k_ops o))
                                                                    (mon_C15
                                                                    c.k_cfg
                                                                    c.k_ops o)
                                                                    | S n25 ->
                                                                    (match n25 with
                                                                    | O ->
                                                                    (&&)
                                                                    ((&&)
                                                                    ((&&)
                                                                    ((&&)
                                                                    ((&&)
                                                                    ((&&)
                                                                    (mon_C02
                                                                    c.k_cfg
                                                                    c.k_ops o)
                                                                    (mon_C03
                                                                    c.k_cfg
                                                                    c.k_ops
                                                                    (drained_b
                                                                    c) o))
                                                                    (mon_C04
                                                                    c.k_cfg
                                                                    c.k_ops o))
                                                                    (mon_C05
                                                                    c.k_cfg
                                                                    c.k_ops o))
                                                                    (mon_C06
                                                                    c.k_cfg
                                                                    c.k_ops o))
                                                                    (mon_C14
                                                                    c.k_cfg
                                                                    c.k_ops o))
                                                                    (mon_C15
                                                                    c.k_cfg
                                                                    c.k_ops o)
                                                                    | S n26 ->
                                                                    (match n26 with
                                                                    | O ->
                                                                    (&&)
                                                                    ((&&)
                                                                    ((&&)
                                                                    ((&&)
                                                                    ((&&)
                                                                    ((&&)
                                                                    (mon_C02
                                                                    c.k_cfg
                                                                    c.k_ops o)
                                                                    (mon_C03
                                                                    c.k_cfg
                                                                    c.k_ops
                                                                    (drained_b
                                                                    c) o))
                                                                    (mon_C04
                                                                    c.k_cfg
                                                                    c.k_ops o))
                                                                    (mon_C05
                                                                    c.k_cfg
                                                                    c.k_ops o))
                                                                    (mon_C06
                                                                    c.k_cfg
                                                                    c.k_ops o))
                                                                    (mon_C14
                                                                    c.k_cfg
                                                                    c.k_ops o))
                                                                    (mon_C15
                                                                    c.k_cfg
                                                                    c.k_ops o)
                                                                    | S n27 ->
                                                                    (match n27 with
                                                                    | O ->
                                                                    (&&)
                                                                    ((&&)
                                                                    ((&&)
                                                                    ((&&)
                                                                    ((&&)
                                                                    ((&&)
                                                                    (mon_C02
                                                                    c.k_cfg
                                                                    c.k_ops o)
                                                                    (mon_C03
                                                                    c.k_cfg
                                                                    c.k_ops
                                                                    (drained_b
                                                                    c) o))
                                                                    (mon_C04
                                                                    c.k_cfg
                                                                    c.k_ops o))
                                                                    (mon_C05
                                                                    c.k_cfg
                                                                    c.k_ops o))
                                                                    (mon_C06
                                                                    c.k_cfg
                                                                    c.k_ops o))
                                                                    (mon_C14
                                                                    c.k_cfg
                                                                    c.k_ops o))
                                                                    (mon_C15
                                                                    c.k_cfg
                                                                    c.k_ops o)
                                                                    | S n28 ->
                                                                    (match n28 with
                                                                    | O ->
                                                                    (&&)
                                                                    ((&&)
                                                                    ((&&)
                                                                    ((&&)
                                                                    ((&&)
                                                                    ((&&)
                                                                    (mon_C02
                                                                    c.k_cfg
                                                                    c.k_ops o)
                                                                    (mon_C03
                                                                    c.k_cfg
                                                                    c.k_ops
                                                                    (drained_b
                                                                    c) o))
                                                                    (mon_C04
                                                                    c.k_cfg
                                                                    c.k_ops o))
                                                                    (mon_C05
                                                                    c.k_cfg
                                                                    c.k_ops o))
                                                                    (mon_C06
                                                                    c.k_cfg
                                                                    c.k_ops o))
                                                                    (mon_C14
                                                                    c.k_cfg
                                                                    c.k_ops o))
                                                                    (mon_C15
                                                                    c.k_cfg
                                                                    c.k_ops o)
                                                                    | S n29 ->
                                                                    (match n29 with
                                                                    | O ->
                                                                    (&&)
                                                                    ((&&)
                                                                    ((&&)
                                                                    ((&&)
                                                                    ((&&)
                                                                    ((&&)
                                                                    (mon_C02
                                                                    c.k_cfg
                                                                    c.k_ops o)
                                                                    (mon_C03
                                                                    c.k_cfg
                                                                    c.k_ops
                                                                    (drained_b
                                                                    c) o))
                                                                    (mon_C04
                                                                    c.k_cfg
                                                                    c.k_ops o))
                                                                    (mon_C05
                                                                    c.k_cfg
                                                                    c.k_ops o))
                                                                    (mon_C06
                                                                    c.k_cfg
                                                                    c.k_ops o))
                                                                    (mon_C14
                                                                    c.k_cfg
                                                                    c.k_ops o))
                                                                    (mon_C15
                                                                    c.k_cfg
                                                                    c.k_ops o)
                                                                    | S n30 ->
                                                                    (match n30 with
                                                                    | O ->
                                                                    (&&)
                                                                    ((&&)
                                                                    ((&&)
                                                                    ((&&)
                                                                    ((&&)
                                                                    ((&&)
                                                                    (mon_C02
                                                                    c.k_cfg
                                                                    c.k_ops o)
                                                                    (mon_C03
                                                                    c.k_cfg
                                                                    c.k_ops
                                                                    (drained_b
                                                                    c) o))
                                                                    (mon_C04
                                                                    c.k_cfg
                                                                    c.k_ops o))
                                                                    (mon_C05
                                                                    c.k_cfg
                                                                    c.k_ops o))
                                                                    (mon_C06
                                                                    c.k_cfg
                                                                    c.k_ops o))
                                                                    (mon_C14
                                                                    c.k_cfg
                                                                    c.k_ops o))
                                                                    (mon_C15
                                                                    c.k_cfg
                                                                    c.k_ops o)
                                                                    | S n31 ->
                                                                    (match n31 with
                                                                    | O ->
                                                                    (&&)
                                                                    ((&&)
                                                                    ((&&)
                                                                    ((&&)
                                                                    ((&&)
                                                                    ((&&)
                                                                    (mon_C02
                                                                    c.k_cfg
                                                                    c.k_ops o)
                                                                    (mon_C03
                                                                    c.k_cfg
                                                                    c.k_ops
                                                                    (drained_b
                                                                    c) o))
                                                                    (mon_C04
                                                                    c.k_cfg
                                                                    c.k_ops o))
                                                                    (mon_C05
                                                                    c.k_cfg
                                                                    c.k_ops o))
                                                                    (mon_C06
                                                                    c.k_cfg
                                                                    c.k_ops o))
                                                                    (mon_C14
                                                                    c.k_cfg
                                                                    c.k_ops o))
                                                                    (mon_C15
                                                                    c.k_cfg
                                                                    c.k_ops o)
                                                                    | S n32 ->
                                                                    (match n32 with
                                                                    | O ->
                                                                    (&&)
                                                                    ((&&)
                                                                    ((&&)
                                                                    ((&&)
                                                                    ((&&)
                                                                    ((&&)
                                                                    (mon_C02
                                                                    c.k_cfg
                                                                    c.k_ops o)
                                                                    (mon_C03
                                                                    c.k_cfg
                                                                    c.k_ops
                                                                    (drained_b
                                                                    c) o))
                                                                    (mon_C04
                                                                    c.k_cfg
                                                                    c.k_ops o))
                                                                    (mon_C05
                                                                    c.k_cfg
                                                                    c.k_ops o))
                                                                    (mon_C06
                                                                    c.k_cfg
                                                                    c.k_ops o))
                                                                    (mon_C14
                                                                    c.k_cfg
                                                                    c.k_ops o))
                                                                    (mon_C15
                                                                    c.k_cfg
                                                                    c.k_ops o)
                                                                    | S n33 ->
                                                                    (match n33 with
                                                                    | O ->
                                                                    (&&)
                                                                    ((&&)
                                                                    ((&&)
                                                                    ((&&)
                                                                    ((&&)
                                                                    ((&&)
                                                                    (mon_C02
                                                                    c.k_cfg
                                                                    c.k_ops o)
                                                                    (mon_C03
                                                                    c.k_cfg
                                                                    c.k_ops
                                                                    (drained_b
                                                                    c) o))
                                                                    (mon_C04
                                                                    c.k_cfg
                                                                    c.k_ops o))
                                                                    (mon_C05
                                                                    c.k_cfg
                                                                    c.k_ops o))
                                                                    (mon_C06
                                                                    c.k_cfg
                                                                    c.k_ops o))
                                                                    (mon_C14
                                                                    c.k_cfg
                                                                    c.k_ops o))
                                                                    (mon_C15
                                                                    c.k_cfg
                                                                    c.k_ops o)
                                                                    | S n34 ->
                                                                    (match n34 with
                                                                    | O ->
                                                                    (&&)
                                                                    ((&&)
                                                                    ((&&)
                                                                    ((&&)
                                                                    ((&&)
                                                                    ((&&)
                                                                    (mon_C02
                                                                    c.k_cfg
                                                                    c.k_ops o)
                                                                    (mon_C03
                                                                    c.k_cfg
                                                                    c.k_ops
                                                                    (drained_b
                                                                    c) o))
                                                                    (mon_C04
                                                                    c.k_cfg
                                                                    c.k_ops o))
                                                                    (mon_C05
                                                                    c.k_cfg
                                                                    c.k_ops o))
                                                                    (mon_C06
                                                                    c.k_cfg
                                                                    c.k_ops o))
                                                                    (mon_C14
                                                                    c.k_cfg
                                                                    c.k_ops o))
                                                                    (mon_C15
                                                                    c.k_cfg
                                                                    c.k_ops o)
                                                                    | S n35 ->
                                                                    (match n35 with
                                                                    | O ->
                                                                    (&&)
                                                                    ((&&)
                                                                    ((&&)
                                                                    ((&&)
                                                                    ((&&)
                                                                    ((&&)
                                                                    (mon_C02
                                                                    c.k_cfg
                                                                    c.k_ops o)
                                                                    (mon_C03
                                                                    c.k_cfg
                                                                    c.k_ops
                                                                    (drained_b
                                                                    c) o))
                                                                    (mon_C04
                                                                    c.k_cfg
                                                                    c.k_ops o))
                                                                    (mon_C05
                                                                    c.k_cfg
                                                                    c.k_ops o))
                                                                    (mon_C06
                                                                    c.k_cfg
                                                                    c.k_ops o))
                                                                    (mon_C14
                                                                    c.k_cfg
                                                                    c.k_ops o))
                                                                    (mon_C15
                                                                    c.k_cfg
                                                                    c.k_ops o)
                                                                    | S n36 ->
                                                                    (match n36 with
                                                                    | O ->
                                                                    (&&)
                                                                    ((&&)
                                                                    ((&&)
                                                                    ((&&)
                                                                    ((&&)
                                                                    ((&&)
                                                                    (mon_C02
                                                                    c.k_cfg
                                                                    c.k_ops o)
                                                                    (mon_C03
                                                                    c.k_cfg
                                                                    c.k_ops
                                                                    (drained_b
                                                                    c) o))
                                                                    (mon_C04
                                                                    c.k_cfg
                                                                    c.k_ops o))
                                                                    (mon_C05
                                                                    c.k_cfg
                                                                    c.k_ops o))
                                                                    (mon_C06
                                                                    c.k_cfg
                                                                    c.k_ops o))
                                                                    (mon_C14
                                                                    c.k_cfg
                                                                    c.k_ops o))
                                                                    (mon_C15
                                                                    c.k_cfg
                                                                    c.k_ops o)
                                                                    | S n37 ->
                                                                    (match n37 with
                                                                    | O ->
                                                                    (&&)
                                                                    ((&&)
                                                                    ((&&)
                                                                    ((&&)
                                                                    ((&&)
                                                                    ((&&)
                                                                    (mon_C02
                                                                    c.k_cfg
                                                                    c.k_ops o)
                                                                    (mon_C03
                                                                    c.k_cfg
                                                                    c.k_ops
                                                                    (drained_b
                                                                    c) o))
                                                                    (mon_C04
                                                                    c.k_cfg
                                                                    c.k_ops o))
                                                                    (mon_C05
                                                                    c.k_cfg
                                                                    c.k_ops o))
                                                                    (mon_C06
                                                                    c.k_cfg
                                                                    c.k_ops o))
                                                                    (mon_C14
                                                                    c.k_cfg
                                                                    c.k_ops o))
                                                                    (mon_C15
                                                                    c.k_cfg
                                                                    c.k_ops o)
                                                                    | S n38 ->
                                                                    (match n38 with
                                                                    | O ->
                                                                    (&&)
                                                                    ((&&)
                                                                    ((&&)
                                                                    ((&&)
                                                                    ((&&)
                                                                    ((&&)
                                                                    (mon_C02
                                                                    c.k_cfg
                                                                    c.k_ops o)
                                                                    (mon_C03
                                                                    c.k_cfg
                                                                    c.k_ops
                                                                    (drained_b
                                                                    c) o))
                                                                    (mon_C04
                                                                    c.k_cfg
                                                                    c.k_ops o))
                                                                    (mon_C05
                                                                    c.k_cfg
                                                                    c.k_ops o))
                                                                    (mon_C06
                                                                    c.k_cfg
                                                                    c.k_ops o))
                                                                    (mon_C14
                                                                    c.k_cfg
                                                                    c.k_ops o))
                                                                    (mon_C15
                                                                    c.k_cfg
                                                                    c.k_ops o)
                                                                    | S n39 ->
                                                                    (match n39 with
                                                                    | O ->
                                                                    mon_C04_but_D6
                                                                    c.k_cfg
                                                                    c.k_ops o
                                                                    | S _ ->
                                                                    (&&)
                                                                    ((&&)
                                                                    ((&&)
                                                                    ((&&)
                                                                    ((&&)
                                                                    ((&&)
                                                                    (mon_C02
                                                                    c.k_cfg
                                                                    c.k_ops o)
                                                                    (mon_C03
                                                                    c.k_cfg
                                                                    c.k_ops
                                                                    (drained_b
                                                                    c) o))
                                                                    (mon_C04
                                                                    c.k_cfg
                                                                    c.k_ops o))
                                                                    (mon_C05
                                                                    c.k_cfg
                                                                    c.k_ops o))
                                                                    (mon_C06
                                                                    c.k_cfg
                                                                    c.k_ops o))
                                                                    (mon_C14
                                                                    c.k_cfg
                                                                    c.k_ops o))
                                                                    (mon_C15
                                                                    c.k_cfg
                                                                    c.k_ops o))))))))))))))))))))))))))))))))))))))))))
